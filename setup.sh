#!/bin/sh
# Build the fact extractor (rustc_private driver, nightly toolchain, zero dependencies) offline
# and pre-extract facts for the quick feature configurations (the checks re-extract on demand
# whenever /repo changes, so the pre-extraction is only a warm-up).
set -e
cd "$(dirname "$0")"
export CARGO_NET_OFFLINE=true
(cd driver && cargo build --release --offline)
python3 rules/extract.py quick
