#!/usr/bin/env python3
"""Checker self-test: apply one small mutant at a time to a scratch copy of /repo (outside /repo and /verif),
run the property's check against the copy and assert that the named rule instance is reported.
Nothing here runs StyLua; the scratch copy is only analysed. Usage: mutants.py [name-substring ...]"""
import os
import shutil
import subprocess
import sys
import tempfile

VERIF = os.path.dirname(os.path.dirname(os.path.abspath(__file__)))
REPO = "/repo"

# (name, property, file, old, new, substring expected in a `violation:` line)
MUTANTS = [
    ("exh-drop-typefunction-arm", "C07", "src/formatters/trivia_util.rs",
     """        #[cfg(feature = "luau")]
        Stmt::TypeFunction(stmt) => {
            let (type_declaration, trailing_trivia) = take_trailing_trivia(&stmt);
            (Stmt::TypeFunction(type_declaration), trailing_trivia)
        }
""", "", "get_stmt_trailing_trivia enum=Stmt fallthrough=TypeFunction"),
    ("subset-drop-goto", "C07", "src/formatters/stmt.rs",
     """        #[cfg(any(feature = "lua52", feature = "luajit"))]
        Stmt::Goto(goto) => Stmt::Goto(format_goto_no_trivia(ctx, goto, shape)),
""", "", "admitted-but-unhandled=Goto"),
    ("heur-no-simple-heuristics", "C07", "src/formatters/functions.rs",
     "shape.with_simple_heuristics().with_infinite_width(),", "shape.with_infinite_width(),",
     "trial-format-without-simple-heuristics"),
    ("sym-wrong-shift", "C02", "src/formatters/expression.rs",
     'DoubleLessThan = " << ",', 'DoubleLessThan = " >> ",', "DoubleLessThan"),
    ("variant-swap-type-arms", "C02", "src/formatters/luau.rs",
     "TypeInfo::String(string) => TypeInfo::String(format_token_reference(ctx, string, shape)),",
     "TypeInfo::String(string) => TypeInfo::Basic(format_token_reference(ctx, string, shape)),",
     "enum=TypeInfo String->Basic"),
    ("paren-rhs-standard", "C05", "src/formatters/expression.rs",
     """                rhs: Box::new(format_expression_internal(
                    ctx,
                    rhs,
                    ExpressionContext::UnaryOrBinary,
                    shape,
                )),""",
     """                rhs: Box::new(format_expression_internal(
                    ctx,
                    rhs,
                    ExpressionContext::Standard,
                    shape,
                )),""", "role=rhs ctx=Standard"),
    ("paren-table-functioncall", "C05", "src/formatters/expression.rs",
     "        Expression::FunctionCall(_) => false,\n        Expression::Symbol(token_ref) => {",
     "        Expression::FunctionCall(_) => true,\n        Expression::Symbol(token_ref) => {",
     "removes=FunctionCall"),
    ("paren-minus-guard", "C01", "src/formatters/expression.rs",
     "                if require_parentheses {\n                    let (new_expression, trailing_comments) =\n                        trivia_util::take_trailing_comments(&expression);\n                    expression = Expression::Parentheses {\n                        contained: ContainedSpan::new(\n                            TokenReference::symbol(\"(\").unwrap(),\n                            TokenReference::symbol(\")\").unwrap(),\n                        )\n                        .update_trailing_trivia(FormatTriviaType::Append(trailing_comments)),\n                        expression: Box::new(new_expression),\n                    }\n                }\n            }\n\n            Expression::UnaryOperator {\n                unop,\n                expression: Box::new(expression),\n            }\n        }\n        Expression::BinaryOperator { lhs, binop, rhs } => {\n            let context",
     "                let _ = require_parentheses;\n            }\n\n            Expression::UnaryOperator {\n                unop,\n                expression: Box::new(expression),\n            }\n        }\n        Expression::BinaryOperator { lhs, binop, rhs } => {\n            let context",
     "unary-minus-guard-missing"),
    ("bracket-drop-index-branch", "C01", "src/formatters/expression.rs",
     "            } else if is_brackets_string(expression) {", "            } else if false && is_brackets_string(expression) {",
     "unguarded-bracket-constructor"),
    ("semi-drop-repeat", "C01", "src/formatters/block.rs",
     "        | Stmt::FunctionCall(_)\n        | Stmt::Repeat(_) => true,", "        | Stmt::FunctionCall(_) => true,",
     "current-statement-not-covered Repeat"),
    ("drop-trailing-transplant", "C03", "src/formatters/expression.rs",
     "                let trailing_comments = end_parens\n                    .trailing_trivia()\n",
     "                let no_trivia: Vec<Token> = Vec::new();\n                let trailing_comments = no_trivia\n                    .iter()\n",
     "undischarged=close.leading,close.trailing,open.trailing"),
    ("replace-partial-read", "C03", "src/formatters/expression.rs",
     "    let mut trailing_comments = binop\n        .trailing_comments()\n        .iter()",
     "    let mut trailing_comments = binop\n        .trailing_comments_search(CommentSearch::Single)\n        .iter()", "unaccounted-Replace side=trailing"),
    ("collapse-drop-then-test", "C01", "src/formatters/stmt.rs",
     "        && !trivia_util::contains_comments(if_node.then_token())\n", "", "collapse-without-comment-test then_token.trailing"),
    ("nl-second-newline-constructor", "C10", "src/formatters/general.rs",
     "        formatted_leading_trivia.push(create_newline_trivia(ctx));\n\n        TokenReference::new(",
     "        formatted_leading_trivia.push(Token::new(TokenType::Whitespace {\n            characters: \"\\n\".into(),\n        }));\n\n        TokenReference::new(",
     "extra-whitespace-constructor"),
    ("skip-edge-formats", "C08", "src/formatters/stmt.rs",
     "    if let FormatNode::Skip = should_format {\n        return stmt.to_owned();",
     "    if let FormatNode::Skip = should_format {\n        return stmt_block::format_stmt_block(ctx, stmt, shape);",
     "Skip-edge"),
    ("block-path-formats-expression", "C09", "src/formatters/stmt.rs",
     "            Expression::Parentheses {\n                contained,\n                expression,\n            } => Expression::Parentheses {\n                contained: contained.to_owned(),",
     "            Expression::Parentheses {\n                contained,\n                expression,\n            } => Expression::Parentheses {\n                contained: crate::formatters::general::format_contained_span(ctx, contained, shape),",
     "out-of-range-path-calls"),
    ("post-revert-semicolon-guard", "C08", "src/formatters/block.rs",
     "        if !matches!(ctx.should_format_node(stmt), FormatNode::Normal) {\n            found_first_stmt = true;\n            formatted_statements.push((format_stmt(&ctx, stmt, shape), semi.to_owned()));\n            continue;\n        }\n",
     "", "unguarded-post-processing"),
    ("toggle-dropped-in-sort", "C12", "src/sort_requires.rs",
     "                    ctx = ctx.check_toggle_formatting(stmt);\n                    if !matches!", "                    if !matches!", "untoggled-context"),
    ("fs-backup-write", "C13", "src/cli/main.rs",
     "    if opt.check {\n        let diff = create_diff(\n            opt,\n            &contents,",
     "    let _ = fs::write(path.with_extension(\"bak\"), &contents);\n    if opt.check {\n        let diff = create_diff(\n            opt,\n            &contents,",
     "unexpected-fs-mutation"),
    ("exit-store-zero", "C19", "src/cli/main.rs",
     "    drop(tx);\n    pool.join();", "    drop(tx);\n    pool.join();\n    EXIT_CODE.store(0, Ordering::SeqCst);",
     "non-monotone-status-write store(0)"),
    ("atomic-revert-fetch-max", "C19", "src/cli/main.rs",
     "                        EXIT_CODE.fetch_max(1, Ordering::SeqCst);",
     "                        if EXIT_CODE.load(Ordering::SeqCst) != 2 {\n                            EXIT_CODE.store(1, Ordering::SeqCst);\n                        }",
     "non-monotone-status-write store(1)"),
    ("stdout-extra-println", "C17", "src/cli/main.rs",
     "    let formatted_contents = if should_skip {\n        input.clone()",
     "    println!(\"formatting stdin\");\n    let formatted_contents = if should_skip {\n        input.clone()",
     "println-outside-Summary"),
    ("cfg-convert-swapped", "C20", "src/cli/opt.rs",
     "convert_enum!(IndentType, ArgIndentType, {\n    Tabs,\n    Spaces,\n});",
     "#[derive(ArgEnum, Clone, Copy, Debug)]\n#[clap(rename_all = \"PascalCase\")]\npub enum ArgIndentType {\n    Tabs,\n    Spaces,\n}\nimpl From<ArgIndentType> for IndentType {\n    fn from(other: ArgIndentType) -> IndentType {\n        match other {\n            ArgIndentType::Tabs => IndentType::Spaces,\n            ArgIndentType::Spaces => IndentType::Tabs,\n        }\n    }\n}\nimpl From<IndentType> for ArgIndentType {\n    fn from(other: IndentType) -> ArgIndentType {\n        match other {\n            IndentType::Tabs => ArgIndentType::Tabs,\n            IndentType::Spaces => ArgIndentType::Spaces,\n        }\n    }\n}",
     "name-not-preserved"),
    ("cfg-cross-wired", "C20", "src/cli/config.rs",
     "        new_config.indent_width = indent_width;", "        new_config.column_width = indent_width;", "cross-wired-field"),
    ("cfg-deny-unknown", "C20", "src/lib.rs",
     "#[derive(Copy, Clone, Debug, Default, Deserialize)]\n#[serde(default, deny_unknown_fields)]",
     "#[derive(Copy, Clone, Debug, Default, Deserialize)]\n#[serde(default)]", "unknown-keys-accepted"),
    ("cfg-override-first", "C15", "src/cli/config.rs",
     "                        .map(|config| load_overrides(config, self.opt))\n                        .context(\"could not parse editorconfig\")\n                }\n                #[cfg(not(feature = \"editorconfig\"))]\n                Ok(self.default_configuration)\n            }\n        }\n    }\n\n    pub fn load_configuration_for_stdin",
     "                        .context(\"could not parse editorconfig\")\n                }\n                #[cfg(not(feature = \"editorconfig\"))]\n                Ok(self.default_configuration)\n            }\n        }\n    }\n\n    pub fn load_configuration_for_stdin",
     "config-not-overridden-last"),
    ("walkup-root-inverted", "C15", "src/cli/config.rs",
     "        match self.opt.search_parent_directories {\n            true => None,\n            false => Some(self.current_directory.to_path_buf()),",
     "        match self.opt.search_parent_directories {\n            false => None,\n            true => Some(self.current_directory.to_path_buf()),",
     "search-root-table"),
    ("walkup-xdg-ungated", "C15", "src/cli/config.rs",
     "                    if self.opt.search_parent_directories {\n                        if let Some(config) = self.search_config_locations()? {\n                            return Ok(Some(config));\n                        }\n                    }",
     "                    if let Some(config) = self.search_config_locations()? {\n                        return Ok(Some(config));\n                    }",
     "fallback-not-gated"),
    ("opt-space-calls", "C11", "src/context.rs",
     "        SpaceAfterFunctionNames::Never | SpaceAfterFunctionNames::Calls => {\n            Token::new(TokenType::spaces(0))",
     "        SpaceAfterFunctionNames::Never | SpaceAfterFunctionNames::Calls => {\n            Token::new(TokenType::spaces(1))",
     "create_function_definition_trivia"),
    ("typaren-drop-union-guard", "C02", "src/formatters/luau.rs",
     "                || context.within_table_indexer\n                || context.contains_union =>", "                || context.within_table_indexer =>",
     "drops-parens Intersection under contains_union"),
    ("typaren-union-operand-unmarked", "C02", "src/formatters/luau.rs",
     "                    Pair::End(right) => Pair::End(format_type_info_internal(\n                        ctx,\n                        right,\n                        context.mark_contains_union(),",
     "                    Pair::End(right) => Pair::End(format_type_info_internal(\n                        ctx,\n                        right,\n                        context,",
     "Union-operand-without-mark_contains_union"),
    ("keep-bracket-level-zeroed", "C03", "src/formatters/general.rs",
     "                blocks: *blocks,\n                comment: comment.into(),", "                blocks: 0,\n                comment: comment.into(),",
     "comment-field-rewritten MultiLineComment.blocks"),
    ("keep-comment-trimmed-both-ends", "C03", "src/formatters/general.rs",
     "    comment.trim_end()", "    comment.trim()", "comment-field-rewritten"),
    ("keep-lookahead-eats-any-newline-token", "C03", "src/formatters/general.rs",
     """                        if let TokenType::Whitespace { characters } = next_trivia.token_type() {
                            if characters.contains('\\n') {
                                // Consume iterator once to skip the next iteration
                                trivia_iter.next();
                            }
                        }""",
     """                        if next_trivia.to_string().contains('\\n') {
                            trivia_iter.next();
                        }""", "trivia-token-dropped via=lookahead"),
    ("keep-pop-also-line-comments", "C03", "src/formatters/general.rs",
     "            TokenKind::Whitespace => pop_until_no_whitespace(trivia),", "            TokenKind::Whitespace | TokenKind::Shebang => pop_until_no_whitespace(trivia),",
     "popped-non-whitespace"),
    ("keep-eof-any-comment", "C03", "src/formatters/general.rs",
     "        .all(|x| x.token_kind() == TokenKind::Whitespace);", "        .all(|x| x.token_kind() != TokenKind::SingleLineComment);", "eof-trivia-dropped kinds="),
    ("directive-start-end-swapped", "C08", "src/context.rs",
     "                formatting_disabled = true;\n            } else if line == \"stylua: ignore end\" {\n                formatting_disabled = false;",
     "                formatting_disabled = false;\n            } else if line == \"stylua: ignore end\" {\n                formatting_disabled = true;",
     "directive-effect"),
    ("directive-literal-typo", "C08", "src/context.rs",
     'if line == "stylua: ignore" {', 'if line == "stylua:ignore" {', "directive-literals"),
    ("directive-disabled-only-without-range", "C08", "src/context.rs",
     "        if self.formatting_disabled {\n            return FormatNode::Skip;", "        if self.formatting_disabled && self.range.is_none() {\n            return FormatNode::Skip;",
     "disabled-region-not-skipped"),
    ("directive-match-continues", "C08", "src/context.rs",
     '                if line == "stylua: ignore" {\n                    return FormatNode::Skip;', '                if line == "stylua: ignore" {\n                    break;',
     "directive-effect"),
    ("verify-number-unreachable-again", "C07", "src/verify_ast.rs",
     "                        #[cfg(not(feature = \"luau\"))]\n                        // Cannot normalise (e.g. hex float, integer wider than 64 bits): compare the text as written\n                        Err(_) => text.to_string(),",
     "                        #[cfg(not(feature = \"luau\"))]\n                        Err(_) => unreachable!(),", "panic-on-unconvertible-text"),
    ("range-start-inclusive", "C09", "src/context.rs",
     "if node_start.bytes() < start_bound =>", "if node_start.bytes() <= start_bound =>", "range-test"),
    ("range-end-uses-start-position", "C09", "src/context.rs",
     "match (range.end, node.end_position()) {", "match (range.end, node.start_position()) {", "range-test"),
    ("unified-diff-ratio-again", "C13", "src/cli/output_diff.rs",
     "    if text_diff\n        .ops()\n        .iter()\n        .all(|op| matches!(op, DiffOp::Equal { .. }))\n    {",
     "    if text_diff.ratio() == 1.0 {", "float-comparison-in-diff-decision"),
    ("guard-repeat-until-comments-dropped", "C01", "src/formatters/stmt.rs",
     "        singleline_shape.over_budget() || condition.has_inline_comments();", "        singleline_shape.over_budget();",
     "comment-guard-removed has_inline_comments"),
    ("guard-while-do-token-dropped", "C01", "src/formatters/stmt.rs",
     "            .do_token()\n            .has_leading_comments(CommentSearch::All)\n        || trivia_util::contains_comments(&condition);\n\n    let while_token",
     "            .do_token()\n            .has_leading_comments(CommentSearch::All);\n\n    let while_token",
     "comment-guard-removed contains_comments"),
    ("guard-generic-for-names-wrong-node", "C03", "src/formatters/stmt.rs",
     "    let require_names_multiline = trivia_util::contains_comments(generic_for.names())", "    let require_names_multiline = trivia_util::contains_comments(generic_for.for_token())",
     "comment-guard-removed contains_comments(names"),
    ("nl-line-comment-not-trimmed", "C10", "src/formatters/general.rs",
     "    comment.trim_end()", "    comment", "not-trimmed"),
    ("regex-drop-z", "C04", "src/formatters/general.rs",
     'r#"^[^\\n\\r"\'0-9\\\\abfnrtuvxz]$"#', 'r#"^[^\\n\\r"\'0-9\\\\abfnrtuvx]$"#', "escape-dropped=z"),
    ("group-line-distance", "C12", "src/sort_requires.rs",
     "                            current_line - previous_require_line > 1", "                            current_line - previous_require_line > 2", "new-group-conditions"),
    ("group-kind-ignored", "C12", "src/sort_requires.rs",
     "                        Some(BlockPartition::RequiresGroup(other_kind, _))\n                            if *other_kind != expression_kind =>\n                        {\n                            true\n                        }\n", "", "new-group-conditions"),
    ("sort-unstable", "C12", "src/sort_requires.rs",
     "list.sort_by_key(|key| key.0.clone());", "list.sort_unstable_by_key(|key| key.0.clone());", "unstable-sort"),
    ("walk-dedup-dropped", "C16", "src/cli/main.rs",
     "                    if seen_files.contains(&path) {\n                        continue;\n                    }\n", "",
     "dedup-not-enforced"),
    # ---- C18 (diff producers) ------------------------------------------------------------------------------------
    ("diff-json-insert-first-only", "C18", "src/cli/output_diff.rs",
     """                    let expected = text_diff
                        .iter_changes(&op)
                        .map(|change| change.value())
                        .collect();

                    mismatches.push(DiffMismatch {
                        original_start_line: old_index,
                        original_end_line: old_index,""",
     """                    let expected = text_diff
                        .iter_changes(&op)
                        .next()
                        .expect("no actual change present in diff/insert")
                        .to_string();

                    mismatches.push(DiffMismatch {
                        original_start_line: old_index,
                        original_end_line: old_index,""", "mismatch-text arm=Insert field=expected form=first"),
    ("diff-json-end-off-by-one", "C18", "src/cli/output_diff.rs",
     "                        expected_end_line: new_index + new_len - 1,\n                        original,\n                        expected,\n",
     "                        expected_end_line: new_index + new_len,\n                        original,\n                        expected,\n",
     "mismatch-line-number arm=Replace field=expected_end_line"),
    ("diff-json-start-swapped", "C18", "src/cli/output_diff.rs",
     "                        original_start_line: old_index,\n                        original_end_line: old_index + old_len - 1,\n                        expected_start_line: new_index,\n                        expected_end_line: new_index,",
     "                        original_start_line: new_index,\n                        original_end_line: old_index + old_len - 1,\n                        expected_start_line: new_index,\n                        expected_end_line: new_index,",
     "mismatch-line-number arm=Delete field=original_start_line"),
    ("diff-json-replace-tags-swapped", "C18", "src/cli/output_diff.rs",
     """                        .filter(|change| matches!(change.tag(), ChangeTag::Delete))""",
     """                        .filter(|change| !matches!(change.tag(), ChangeTag::Insert))""",
     None),
    ("diff-json-from-lines-swapped", "C18", "src/cli/output_diff.rs",
     "pub fn output_diff_json(old: &str, new: &str) -> Option<Vec<DiffMismatch>> {\n    let text_diff = TextDiff::from_lines(old, new);",
     "pub fn output_diff_json(old: &str, new: &str) -> Option<Vec<DiffMismatch>> {\n    let text_diff = TextDiff::from_lines(new, old);",
     "textdiff-not-from_lines(old,new)"),
    ("diff-unified-no-newline-hint", "C18", "src/cli/output_diff.rs",
     """        text_diff.unified_diff().header("old", "new")""",
     """        text_diff.unified_diff().missing_newline_hint(false).header("old", "new")""",
     "unified-diff-option missing_newline_hint"),
    ("diff-unified-any-equal", "C18", "src/cli/output_diff.rs",
     "        .all(|op| matches!(op, DiffOp::Equal { .. }))", "        .any(|op| matches!(op, DiffOp::Equal { .. }))",
     "no-difference-test-not-exact"),
    ("diff-summary-no-newline", "C18", "src/cli/main.rs",
     'Ok(Some(format!("{file_name}\\n").into_bytes()))', 'Ok(Some(file_name.to_string().into_bytes()))', "summary-line-not-file-name"),
    ("diff-create-json-swapped", "C18", "src/cli/main.rs",
     "output_diff::output_diff_json(original, expected)", "output_diff::output_diff_json(expected, original)",
     "producer-arguments-swapped output_diff_json"),
    ("diff-json-early-break", "C18", "src/cli/output_diff.rs",
     "                DiffOp::Equal { .. } => (), // Don't record an equals diff, its unnecessary",
     "                DiffOp::Equal { .. } => break, // nothing after an equal run in a group",
     None),
    # ---- round 5/6 rules --------------------------------------------------------------------------------------
    ("indent-last-stmt-no-increment", "C09", "src/formatters/block.rs",
     "                        let shape = shape.reset().increment_block_indent();\n                        super::stmt::stmt_block::format_expression_block(ctx, &expression, shape)",
     "                        let shape = shape.reset();\n                        super::stmt::stmt_block::format_expression_block(ctx, &expression, shape)",
     "nested-block-indent-level"),
    ("indent-while-body-double", "C09", "src/formatters/stmt.rs",
     "    let block_shape = shape.reset().increment_block_indent();\n    let block = format_block(ctx, while_block.block(), block_shape);",
     "    let block_shape = shape.reset().increment_block_indent().increment_block_indent();\n    let block = format_block(ctx, while_block.block(), block_shape);",
     "block-formatted-at-level"),
    ("range-answer-before-scan", "C08", "src/context.rs",
     "        // Check comments\n        let leading_trivia = node.surrounding_trivia().0;",
     "        if let (Some(range), Some(node_start)) = (self.range, node.start_position()) {\n            if matches!(range.start, Some(start_bound) if node_start.bytes() < start_bound) {\n                return FormatNode::NotInRange;\n            }\n        }\n        // Check comments\n        let leading_trivia = node.surrounding_trivia().0;",
     "range-answer-before-ignore-scan"),
    ("verify-only-when-writing", "C14", "src/cli/main.rs",
     "    let verify_output = if opt.verify {", "    let verify_output = if opt.verify && !opt.check {", "verification-choice-depends-on-more-than-verify"),
    ("search-start-canonical", "C15", "src/cli/config.rs",
     "        let absolute_path = self.current_directory.join(path);",
     "        let absolute_path = self.current_directory.join(path);\n        let absolute_path = absolute_path.canonicalize().unwrap_or(absolute_path);",
     "search-start-directory"),
    ("glob-root-dot", "C16", "src/cli/main.rs",
     "            let mut overrides = OverrideBuilder::new(cwd);", "            let mut overrides = OverrideBuilder::new(\".\");", "glob-override-root-not-current_dir"),
    ("quote-bypass-on-newline", "C11", "src/formatters/general.rs",
     "            if let StringLiteralQuoteType::Brackets = quote_type {",
     "            if matches!(quote_type, StringLiteralQuoteType::Brackets) || literal.contains('\\n') {",
     "quoted-string-path-without-get_quote_to_use"),
    # ---- R-RAW -------------------------------------------------------------------------------------------------
    ("raw-semicolon-comment-unsanitised", "C10", "src/formatters/block.rs",
     """                                    vec![
                                        Token::new(TokenType::spaces(1)),
                                        format_moved_comment(&ctx, x, shape),
                                    ]
                                }),
                        )
                        .chain(std::iter::once(create_newline_trivia(&ctx)))
                        .collect();

                    stmt = stmt""",
     """                                    vec![Token::new(TokenType::spaces(1)), x.to_owned()]
                                }),
                        )
                        .chain(std::iter::once(create_newline_trivia(&ctx)))
                        .collect();

                    stmt = stmt""", "raw-trivia-attached"),
    ("raw-field-equal-comments-unsanitised", "C10", "src/formatters/table.rs",
     "        .chain(equal_sign_comments.map(|x| format_moved_comment(ctx, x, shape)))",
     "        .chain(equal_sign_comments.map(|x| x.to_owned()))", "raw-trivia-attached via=handle_field_key_equals_comments"),
    ("raw-hang-binop-rhs-comments", "C10", "src/formatters/expression.rs",
     """    let mut expression_leading_comments = rhs
        .leading_comments()
        .iter()
        .flat_map(|x| {
            vec![
                create_newline_trivia(ctx),
                create_indent_trivia(ctx, shape),
                format_moved_comment(ctx, x, shape),
            ]""",
     """    let mut expression_leading_comments = rhs
        .leading_comments()
        .iter()
        .flat_map(|x| {
            vec![
                create_newline_trivia(ctx),
                create_indent_trivia(ctx, shape),
                x.to_owned(),
            ]""", "hang_binop raw-trivia-attached"),
    ("loopexit-metadata", "C14", "src/cli/main.rs",
     "                    if path.is_file() {", "                    if fs::metadata(&path)?.is_file() {", "walk-loop-aborts-on"),
    ("worker-skip-send", "C14", "src/cli/main.rs",
     "            fs::write(path, formatted_contents)\n                .with_context(|| format!(\"could not write to {}\", path.display()))?;\n        }",
     "        }\n        fs::write(path, formatted_contents)\n            .with_context(|| format!(\"could not write to {}\", path.display()))?;",
     "write-not-guarded-by-difference"),
    ("ec-stdin-pseudo-name", "C20", "src/cli/config.rs",
     'PathBuf::from("*.lua")', 'PathBuf::from("stdin")', "editorconfig-path-not-a-file from literal"),
    ("ec-file-parent-dir", "C20", "src/cli/config.rs",
     "editorconfig::parse(Config::default(), path)", "editorconfig::parse(Config::default(), parent_path)",
     "editorconfig-path-not-a-file"),
    ("check-verdict-equal-shortcut", "C18", "src/cli/main.rs",
     """    if opt.check {
        let diff = create_diff(
            opt,
            &contents,""", """    if opt.check {
        if contents.len() == formatted_contents.len() {
            return Ok(FormatResult::Complete);
        }
        let diff = create_diff(
            opt,
            &contents,""", "check-verdict-without-diff result=Complete"),
    ("check-verdict-stdin-some-complete", "C13", "src/cli/main.rs",
     """        let diff = create_diff(opt, &input, &formatted_contents, "stdin")
            .context("failed to create diff")?;

        match diff {
            Some(diff) => Ok(FormatResult::Diff(diff)),""", """        let diff = create_diff(opt, &input, &formatted_contents, "stdin")
            .context("failed to create diff")?;

        match diff {
            Some(diff) if diff.is_empty() => Ok(FormatResult::Complete),
            Some(diff) => Ok(FormatResult::Diff(diff)),""", "check-verdict-without-diff result=Complete"),
    ("interp-literal-trimmed", "C04", "src/formatters/general.rs",
     """        TokenType::InterpolatedString { literal, kind } => TokenType::InterpolatedString {
            literal: literal.to_owned(),""", """        TokenType::InterpolatedString { literal, kind } => TokenType::InterpolatedString {
            literal: literal.replace("\\\\z", "").into(),""", "interpolated-literal-rewritten"),
    ("sort-kind-gated-arm-dropped", "C12", "src/sort_requires.rs",
     """        #[cfg(feature = "luau")]
        Expression::TypeAssertion { expression, .. } => get_expression_kind(expression),
""", "", "gated-arm-removed=TypeAssertion"),
    ("read-file-lossy", "C17", "src/cli/main.rs",
     """        fs::read_to_string(path).with_context(|| format!("failed to read {}", path.display()))?;""",
     """        fs::read(path).map(|b| String::from_utf8_lossy(&b).into_owned()).with_context(|| format!("failed to read {}", path.display()))?;""",
     "lossy-input-decoding"),
    ("once-rehang-formatted-item", "C07", "src/formatters/assignment.rs",
     """                    output_expr.push(formatted.map(|_| {
                        let expression =
                            hang_expression(ctx, original, shape, calculate_hang_level(original));""",
     """                    output_expr.push(formatted.map(|value| {
                        let _ = original;
                        let expression =
                            hang_expression(ctx, &value, shape, calculate_hang_level(&value));""",
     "formatted-node-formatted-again"),
    ("diffbytes-strip-cr", "C18", "src/cli/main.rs",
     "opt::OutputFormat::Unified => output_diff::output_diff_unified(original, expected),",
     "opt::OutputFormat::Unified => output_diff::output_diff_unified(original, expected).map(|o| o.map(|mut v| { v.retain(|b| *b != b'\\r'); v })),",
     "diff-bytes-modified producer=output_diff_unified"),
    ("errstatus-broken-pipe-diff", "C13", "src/cli/main.rs",
     "                            Ok(_) => (),\n                            Err(err) => {\n                                EXIT_CODE.store(2, Ordering::SeqCst);\n                                error!(\"{:#}\", err)\n                            }",
     "                            Ok(_) => (),\n                            Err(err) if err.kind() == std::io::ErrorKind::BrokenPipe => (),\n                            Err(err) => {\n                                EXIT_CODE.store(2, Ordering::SeqCst);\n                                error!(\"{:#}\", err)\n                            }",
     "error-handled-without-status-2 on=result-of-write_all"),
    ("sort-other-partition-short-toggle", "C12", "src/sort_requires.rs",
     """                for stmt in list.iter() {
                    ctx = ctx.check_toggle_formatting(stmt);
                }
                stmts.append(&mut list)""",
     """                if list.len() > 1 {
                    for stmt in list.iter() {
                        ctx = ctx.check_toggle_formatting(stmt);
                    }
                }
                stmts.append(&mut list)""", "partition-emitted-without-toggle-walk"),
    ("parens-omit-only-outside-heuristics", "C11", "src/formatters/functions.rs",
     "                && arguments.len() == 1\n                && !matches!(call_next_node, FunctionCallNextNode::ObscureWithoutParens)\n            {",
     "                && arguments.len() == 1\n                && !shape.using_simple_heuristics()\n                && !matches!(call_next_node, FunctionCallNextNode::ObscureWithoutParens)\n            {",
     "[Parentheses kept]"),
    ("layout-punctuated-comments-only-if-wide", "C03", "src/formatters/general.rs",
     "    if format_multiline {\n        format_punctuated_multiline(ctx, old, shape, value_formatter, hang_level)",
     "    if format_multiline && shape.test_over_budget(old) {\n        format_punctuated_multiline(ctx, old, shape, value_formatter, hang_level)",
     "comment-test-does-not-force-layout punctuated_inline_comments"),
    ("dedup-insert-only-for-files", "C19", "src/cli/main.rs",
     "                    seen_files.insert(path.clone());\n", "                    if path.is_dir() {\n                        seen_files.insert(path.clone());\n                    }\n",
     "dedup-not-enforced"),
    ("builder-do-token-left", "C10", "src/formatters/stmt.rs",
     "    do_block\n        .to_owned()\n        .with_do_token(do_token)\n        .with_block(block)",
     "    let _ = do_token;\n    do_block\n        .to_owned()\n        .with_block(block)",
     "builder-leaves-input-fields Do"),
    ("waste-hoisted-hang", "C07", "src/formatters/table.rs",
     """    if trivia_util::can_hang_expression(expression) {
        if expression.has_inline_comments() {
            hang_expression(ctx, expression, shape, Some(1)).update_trailing_trivia(trailing_trivia)
        } else {""",
     """    let hung = hang_expression(ctx, expression, shape, Some(1));
    if trivia_util::can_hang_expression(expression) {
        if expression.has_inline_comments() {
            hung.update_trailing_trivia(trailing_trivia)
        } else {""", "formatter-result-unused-on-a-path callee=hang_expression"),
    ("walker-root-only-if-exists", "C16", "src/cli/main.rs",
     "        walker_builder.add(file_path);\n", "        if file_path.exists() {\n            walker_builder.add(file_path);\n        }\n",
     "path-argument-not-added-as-root"),
    ("return-comment-not-hung", "C02", "src/formatters/block.rs",
     "        let comment_between_token_and_returns = return_token_trailing_comments\n            || returns\n",
     "        let comment_between_token_and_returns = returns\n",
     "comment-test-does-not-force-layout has_trailing_comments"),
    ("f24-store-only-when-logged", "C13", "src/cli/main.rs",
     "            if output.is_err() {\n                EXIT_CODE.store(2, Ordering::SeqCst);\n            }\n",
     "            if output.is_err() && log::log_enabled!(log::Level::Error) {\n                EXIT_CODE.store(2, Ordering::SeqCst);\n            }\n",
     "error-handled-without-status-2"),
    ("f24-walker-store-dropped", "C14", "src/cli/main.rs",
     "        if result.is_err() {\n            EXIT_CODE.store(2, Ordering::SeqCst);\n        }\n", "", "walker-error-without-status-2"),
    ("pair-binop-getter-reads-lhs", "C03", "src/formatters/trivia_util.rs",
     "            Expression::BinaryOperator { rhs, .. } => rhs.trailing_trivia(),",
     "            Expression::BinaryOperator { lhs, .. } => lhs.trailing_trivia(),",
     "getter-updater-child-mismatch Expression reads=arg:1.BinaryOperator.lhs"),
    ("pair-binop-leading-getter-reads-rhs", "C03", "src/formatters/trivia_util.rs",
     "            Expression::BinaryOperator { lhs, .. } => lhs.leading_trivia(),",
     "            Expression::BinaryOperator { rhs, .. } => rhs.leading_trivia(),",
     "R-TRIVIAPAIR(leading)"),
    ("ignoreguard-extra-condition", "C17", "src/cli/main.rs",
     "                            opt.respect_ignores\n                                && path_is_stylua_ignored(path, opt.search_parent_directories)?",
     "                            opt.respect_ignores\n                                && !opt.check\n                                && path_is_stylua_ignored(path, opt.search_parent_directories)?",
     "ignore-lookup-behind-extra-condition"),
]


def run(names):
    scratch = tempfile.mkdtemp(prefix="stylua-mut-")
    copy = os.path.join(scratch, "repo")
    results = []
    try:
        for m in MUTANTS:
            name, prop, rel, old, new, expect = m
            if names and not any(n in name for n in names):
                continue
            if os.environ.get("MUT_PROPS") and prop not in os.environ["MUT_PROPS"].split(","):
                continue
            if os.path.exists(copy):
                shutil.rmtree(copy)
            os.makedirs(copy)
            for item in ("src", "Cargo.toml", "Cargo.lock", "benches"):
                s = os.path.join(REPO, item)
                if os.path.isdir(s):
                    shutil.copytree(s, os.path.join(copy, item))
                else:
                    shutil.copy2(s, os.path.join(copy, item))
            p = os.path.join(copy, rel)
            src = open(p).read()
            if src.count(old) != 1:
                results.append((name, prop, "MUTANT-STALE", f"pattern occurs {src.count(old)}x"))
                print(f"{name}: stale mutant (pattern occurs {src.count(old)} times)")
                continue
            open(p, "w").write(src.replace(old, new))
            r = subprocess.run([os.path.join(VERIF, "check"), prop, "--repo", copy, "--tier", "quick"],
                               stdout=subprocess.PIPE, stderr=subprocess.STDOUT, text=True)
            out = r.stdout
            viol = [l for l in out.splitlines() if "violation:" in l]
            build_failed = "build failed" in out
            if build_failed:
                status = "DOES-NOT-COMPILE"
            elif expect is None:
                status = "CAUGHT" if r.returncode == 1 and viol else "MISSED"
            else:
                status = "CAUGHT" if any(expect in l for l in viol) else ("OTHER-VIOLATION" if viol else "MISSED")
            results.append((name, prop, status, viol[0][:200] if viol else ""))
            print(f"{name} [{prop}]: {status}  {viol[0][:160] if viol else ''}", flush=True)
    finally:
        shutil.rmtree(scratch, ignore_errors=True)
    bad = [r for r in results if r[2] != "CAUGHT"]
    print(f"\n{len(results) - len(bad)}/{len(results)} mutants caught")
    return 1 if bad else 0


if __name__ == "__main__":
    sys.exit(run(sys.argv[1:]))
