#!/usr/bin/env python3
"""Replay kept seeded changes and behaviour-preserving refactorings against scratch copies of /repo.

  python3 selftest/replay.py seeds  [substr..]   every seeded/<id>/patch.diff must make the property's quick check FAIL
  python3 selftest/replay.py refactors [substr..] every selftest/refactors/*.diff must leave EVERY quick check silent

Nothing in /repo is touched: each patch is applied (git apply) to a copy of src/ + Cargo files under a temp dir and
the checks run with `--repo <copy>` (evidence goes to a scratch dir). Workers use their own extraction caches
(VERIF_CACHE) so that they can run in parallel and do not evict the main cache. The graders' protocol
(git -C /repo apply; ./check; git -C /repo checkout -- .) is what run_seeded.sh / run_refactors.sh do; this is the
parallel, non-intrusive equivalent.
"""
import json
import os
import shutil
import subprocess
import sys
import tempfile
from concurrent.futures import ThreadPoolExecutor

VERIF = os.path.dirname(os.path.dirname(os.path.abspath(__file__)))
REPO = "/repo"
WORKERS = int(os.environ.get("REPLAY_WORKERS", "4"))


def make_copy(dst):
    os.makedirs(dst)
    for item in ("src", "Cargo.toml", "Cargo.lock", "benches", "tests"):
        s = os.path.join(REPO, item)
        if os.path.isdir(s):
            shutil.copytree(s, os.path.join(dst, item))
        elif os.path.exists(s):
            shutil.copy2(s, os.path.join(dst, item))


def check(prop, copy, cache, tier=None):
    env = dict(os.environ, VERIF_CACHE=cache, VERIF_SCRATCH_OUT="1")
    r = subprocess.run([os.path.join(VERIF, "check"), prop, "--repo", copy, "--tier", tier or os.environ.get("REPLAY_TIER", "quick")], env=env,
                       stdout=subprocess.PIPE, stderr=subprocess.STDOUT, text=True)
    return r.returncode, r.stdout


def job(kind, name, patch, props, slot):
    cache = f"/tmp/verif-replay-cache-{slot}"
    scratch = tempfile.mkdtemp(prefix="stylua-replay-")
    copy = os.path.join(scratch, "repo")
    try:
        make_copy(copy)
        r = subprocess.run(["git", "apply", patch], cwd=copy, stdout=subprocess.PIPE, stderr=subprocess.STDOUT, text=True)
        if r.returncode != 0:
            return name, "PATCH-DOES-NOT-APPLY", r.stdout.strip()[:200]
        if kind == "seeds":
            tier = None
            mp = os.path.join(os.path.dirname(patch), "meta.json")
            if os.path.exists(mp):
                try:
                    tier = json.load(open(mp)).get("replay_tier")
                except Exception:
                    tier = None
            rc, out = check(props[0], copy, cache, tier)
            viol = [l for l in out.splitlines() if "violation:" in l]
            if "build failed" in out:
                return name, "DOES-NOT-COMPILE", out[-300:]
            return name, ("CAUGHT" if rc == 1 and viol else "MISSED"), (viol[0][:170] if viol else out.splitlines()[-1][:170])
        bad = []
        for p in props:
            rc, out = check(p, copy, cache)
            if rc != 0:
                viol = [l for l in out.splitlines() if "violation:" in l]
                bad.append(f"{p}: {viol[0][:150] if viol else out.splitlines()[-1][:150]}")
        return name, ("SILENT" if not bad else "FALSE-ALARM"), " || ".join(bad)
    finally:
        shutil.rmtree(scratch, ignore_errors=True)


def main():
    kind = sys.argv[1]
    subs = sys.argv[2:]
    man = json.load(open(os.path.join(VERIF, "MANIFEST.json")))
    allprops = [c["property_id"] for c in man["checks"]]
    jobs = []
    if kind == "seeds":
        base = os.path.join(VERIF, "seeded")
        for d in sorted(os.listdir(base)):
            if subs and not any(s in d for s in subs):
                continue
            jobs.append((d, os.path.join(base, d, "patch.diff"), [d.split("-")[0]]))
    else:
        base = os.path.join(VERIF, "selftest", "refactors")
        for n in sorted(os.listdir(base)):
            if n.endswith(".diff") and (not subs or any(s in n for s in subs)):
                jobs.append((n[:-5], os.path.join(base, n), allprops))
    results = []
    with ThreadPoolExecutor(max_workers=WORKERS) as ex:
        futs = [ex.submit(job, kind, n, p, props, i % WORKERS) for i, (n, p, props) in enumerate(jobs)]
        for f in futs:
            r = f.result()
            results.append(r)
            print(f"{r[0]}: {r[1]}  {r[2]}", flush=True)
    want = "CAUGHT" if kind == "seeds" else "SILENT"
    bad = [r for r in results if r[1] != want]
    print(f"\n{len(results) - len(bad)}/{len(results)} {want.lower()}")
    return 1 if bad else 0


if __name__ == "__main__":
    sys.exit(main())
