#!/bin/bash
# confirm a seeded change in its scratch worktree: builds in 3 feature sets, pinned suite passes,
# demo fails with the change and passes without it. usage: confirm_seed.sh <worktree> ; prints a JSON line.
# (uses `git apply -R` / `git apply` of seed/patch.diff, never the stash, which worktrees share)
set -u
W=$1
cd "$W" || exit 2
export CARGO_TARGET_DIR=$W/target CARGO_NET_OFFLINE=true
if git diff --quiet -- src Cargo.toml; then git apply seed/patch.diff || { echo "{\"worktree\":\"$W\",\"error\":\"patch does not apply\"}"; exit 1; }; fi
b1=$(cargo build --offline >/dev/null 2>&1 && echo ok || echo FAIL)
b2=$(cargo build --offline --features luau >/dev/null 2>&1 && echo ok || echo FAIL)
b3=$(cargo build --offline --all-features >/dev/null 2>&1 && echo ok || echo FAIL)
tests=$(cargo test --offline 2>&1 | grep -E "^test result" | awk '{p+=$4; f+=$6} END{print p"/"f}')
bash seed/demo.sh >/tmp/demo_with.$$ 2>&1; with=$?
git apply -R seed/patch.diff
bash seed/demo.sh >/tmp/demo_without.$$ 2>&1; without=$?
git apply seed/patch.diff
rm -f /tmp/demo_with.$$ /tmp/demo_without.$$
echo "{\"worktree\":\"$W\",\"build_default\":\"$b1\",\"build_luau\":\"$b2\",\"build_all\":\"$b3\",\"tests_pass_fail\":\"$tests\",\"demo_exit_with_change\":$with,\"demo_exit_without_change\":$without}"
