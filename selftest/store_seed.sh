#!/bin/bash
# store a confirmed seeded change: store_seed.sh <worktree-tag> <seed-id> "<caught_by text>"
# reads /tmp/seed-<tag>/seed/{patch.diff,demo.sh,meta.json,...} and /tmp/confirm-<tag>.json (from confirm_seed.sh)
set -e
tag=$1; id=$2; caught=$3
cd "$(dirname "$0")/.."
src=/tmp/seed-$tag/seed
conf=/tmp/confirm-$tag.json
grep -q '"tests_pass_fail":"153/0","demo_exit_with_change":1,"demo_exit_without_change":0' $conf || { echo "not confirmed: $(cat $conf)"; exit 1; }
grep -q '"build_default":"ok","build_luau":"ok","build_all":"ok"' $conf || { echo "builds not ok"; exit 1; }
rm -rf seeded/$id; mkdir -p seeded/$id
cp -r $src/. seeded/$id/
rm -rf seeded/$id/target
python3 - "$id" "$tag" "$caught" <<'PY'
import json,sys
id,tag,caught=sys.argv[1:4]
p=f'/verif/seeded/{id}/meta.json'
m=json.load(open(p))
c=json.load(open(f'/tmp/confirm-{tag}.json'))
m['breaks_property']=id.split('-')[0]
m['seed_id']=id
m['confirmed_by_me']={"ran":"selftest/confirm_seed.sh <scratch worktree> (cargo build default/luau/all-features, cargo test --offline, seed/demo.sh with and without the change)", **{k:v for k,v in c.items() if k!='worktree'}}
m['caught_by']=caught
m['note']=f"demo.sh paths refer to the scratch worktree the change was authored in (/tmp/seed-{tag}); to replay: git -C /repo apply seeded/{id}/patch.diff, run the check, git -C /repo checkout -- ."
json.dump(m,open(p,'w'),indent=1)
PY
echo stored seeded/$id
