#!/bin/bash
# sequentially re-confirm every kept seed in a fresh scratch worktree recreated at the path its demo.sh expects
cd "$(dirname "$0")/.."
for d in seeded/*/; do
  id=$(basename "$d"); w=$(grep -o '/tmp/seed-[A-Za-z0-9]*' "$d/demo.sh" | head -1)
  [ -z "$w" ] && w=/tmp/seed-${id%%-*}
  git -C /repo worktree remove --force "$w" 2>/dev/null
  git -C /repo worktree add -q "$w" HEAD || continue
  mkdir -p "$w/seed" && cp -r "$d"/* "$w/seed/"
  echo "$id $(./selftest/confirm_seed.sh "$w")"
  git -C /repo worktree remove --force "$w"
done
