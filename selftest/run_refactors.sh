#!/bin/bash
# Behaviour-preserving refactorings written by fresh sub-agents (before/after output byte-identical over the test
# corpus, 153 tests pass). No check may raise an alarm on them: apply each to /repo, run every quick check, undo.
cd "$(dirname "$0")/.."
rc=0
for d in selftest/refactors/*.diff; do
  name=$(basename "$d" .diff)
  if ! git -C /repo apply "$PWD/$d" 2>/dev/null; then echo "$name: patch does not apply (tree moved on)"; rc=1; continue; fi
  bad=""
  for p in $(python3 -c "import json;print(' '.join(c['property_id'] for c in json.load(open('MANIFEST.json'))['checks']))"); do
    VERIF_SCRATCH_OUT=1 ./check "$p" >/tmp/refac_out.$$ 2>&1 || bad="$bad $p"
  done
  git -C /repo checkout -- .
  if [ -z "$bad" ]; then echo "$name: silent (all checks pass)"; else echo "$name: FALSE ALARM in$bad"; rc=1; fi
done
rm -f /tmp/refac_out.$$
exit $rc
