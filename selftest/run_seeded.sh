#!/bin/bash
# Replay every kept seeded change against /repo: apply, run the property's quick check, undo. Expect exit 1 each.
cd "$(dirname "$0")/.."
rc=0
for d in seeded/*/; do
  id=$(basename "$d"); prop=${id%%-*}
  if ! git -C /repo apply "$PWD/$d/patch.diff" 2>/dev/null; then echo "$id: patch does not apply (tree moved on)"; rc=1; continue; fi
  out=$(VERIF_SCRATCH_OUT=1 ./check "$prop" 2>&1); r=$?
  git -C /repo checkout -- .
  v=$(echo "$out" | grep -m1 "violation:" | cut -c1-170)
  if [ $r -eq 1 ]; then echo "$id: CAUGHT  $v"; else echo "$id: MISSED"; rc=1; fi
done
exit $rc
