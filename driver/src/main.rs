// stylua-facts: a rustc_private driver that dumps, for the crate being compiled,
// a JSON document of MIR-level facts (CFG, resolved callees, discriminant switches,
// aggregates, constants, ADT tables, macro provenance). It is injected with
// RUSTC_WORKSPACE_WRAPPER under `cargo +nightly check`, so it sees exactly the
// crates, cfgs and flags of the real build. It never runs the analysed program.
#![feature(rustc_private)]

extern crate rustc_abi;
extern crate rustc_driver;
extern crate rustc_hir;
extern crate rustc_interface;
extern crate rustc_middle;
extern crate rustc_span;

use rustc_driver::Compilation;
use rustc_hir::def::DefKind;
use rustc_hir::def_id::{DefId, LOCAL_CRATE};
use rustc_middle::mir::{
    self, AggregateKind, BasicBlock, Body, ConstOperand, Operand, Place, PlaceElem, Rvalue,
    StatementKind, TerminatorKind,
};
use rustc_middle::ty::{self, print::with_no_trimmed_paths, Ty, TyCtxt, TypingEnv};
use rustc_span::Span;
use std::collections::{BTreeMap, HashSet};
use std::fmt::Write as _;

fn esc(s: &str) -> String {
    let mut o = String::with_capacity(s.len() + 2);
    o.push('"');
    for c in s.chars() {
        match c {
            '"' => o.push_str("\\\""),
            '\\' => o.push_str("\\\\"),
            '\n' => o.push_str("\\n"),
            '\r' => o.push_str("\\r"),
            '\t' => o.push_str("\\t"),
            c if (c as u32) < 0x20 => {
                let _ = write!(o, "\\u{:04x}", c as u32);
            }
            c => o.push(c),
        }
    }
    o.push('"');
    o
}

struct Cx<'tcx> {
    tcx: TyCtxt<'tcx>,
    adts: BTreeMap<String, String>, // path -> json
    adt_queue: Vec<DefId>,
    adt_seen: HashSet<DefId>,
    adt_forced: HashSet<DefId>,
}

impl<'tcx> Cx<'tcx> {
    fn path(&self, did: DefId) -> String {
        with_no_trimmed_paths!(self.tcx.def_path_str(did))
    }
    fn ty_str(&self, t: Ty<'tcx>) -> String {
        with_no_trimmed_paths!(t.to_string())
    }
    fn note_ty(&mut self, t: Ty<'tcx>) {
        for arg in t.walk() {
            if let Some(t) = arg.as_type() {
                if let ty::Adt(def, _) = t.kind() {
                    let did = def.did();
                    if self.adt_seen.insert(did) {
                        self.adt_queue.push(did);
                    }
                }
            }
        }
    }
    fn interesting_crate(&self, did: DefId) -> bool {
        let name = self.tcx.crate_name(did.krate);
        let n = name.as_str();
        n == "full_moon" || n == "stylua_lib" || n == "stylua" || n == "verif_selftest" || did.is_local()
    }
    fn flush_adts(&mut self) {
        while let Some(did) = self.adt_queue.pop() {
            if !self.interesting_crate(did) && !self.adt_forced.contains(&did) {
                continue;
            }
            let tcx = self.tcx;
            let def = tcx.adt_def(did);
            let path = self.path(did);
            let kind = if def.is_enum() {
                "enum"
            } else if def.is_union() {
                "union"
            } else {
                "struct"
            };
            let mut s = String::new();
            let _ = write!(
                s,
                "{{\"kind\":{},\"non_exhaustive\":{},\"crate\":{},\"variants\":[",
                esc(kind),
                def.is_variant_list_non_exhaustive(),
                esc(tcx.crate_name(did.krate).as_str())
            );
            let mut first = true;
            for (vidx, v) in def.variants().iter_enumerated() {
                if !first {
                    s.push(',');
                }
                first = false;
                let discr = if def.is_enum() {
                    def.discriminant_for_variant(tcx, vidx).val
                } else {
                    0
                };
                let _ = write!(
                    s,
                    "{{\"name\":{},\"idx\":{},\"discr\":{},\"fields\":[",
                    esc(v.name.as_str()),
                    vidx.as_usize(),
                    discr
                );
                let mut ff = true;
                for f in v.fields.iter() {
                    if !ff {
                        s.push(',');
                    }
                    ff = false;
                    let fty = tcx.type_of(f.did).instantiate_identity().skip_norm_wip();
                    let _ = write!(
                        s,
                        "{{\"name\":{},\"ty\":{}}}",
                        esc(f.name.as_str()),
                        esc(&self.ty_str(fty))
                    );
                    // queue nested ADTs
                    for arg in fty.walk() {
                        if let Some(t) = arg.as_type() {
                            if let ty::Adt(d2, _) = t.kind() {
                                if self.adt_seen.insert(d2.did()) {
                                    self.adt_queue.push(d2.did());
                                }
                            }
                        }
                    }
                }
                s.push_str("]}");
            }
            s.push_str("]}");
            self.adts.insert(path, s);
        }
    }

    fn span_json(&self, sp: Span) -> String {
        let sm = self.tcx.sess.source_map();
        // outermost call site in user code
        let root = sp.source_callsite();
        let lo = sm.lookup_char_pos(root.lo());
        let file = match &lo.file.name {
            rustc_span::FileName::Real(r) => match r.local_path() {
                Some(p) => p.display().to_string(),
                None => format!("{:?}", lo.file.name),
            },
            other => format!("{:?}", other),
        };
        let mut macros: Vec<String> = Vec::new();
        if sp.from_expansion() {
            for ed in sp.macro_backtrace() {
                match ed.kind {
                    rustc_span::ExpnKind::Macro(_, name) => macros.push(name.to_string()),
                    rustc_span::ExpnKind::Desugaring(d) => macros.push(format!("desugar:{:?}", d)),
                    rustc_span::ExpnKind::AstPass(p) => macros.push(format!("astpass:{:?}", p)),
                    rustc_span::ExpnKind::Root => {}
                }
            }
        }
        let mut s = String::new();
        let _ = write!(s, "{{\"f\":{},\"l\":{}", esc(&file), lo.line);
        if !macros.is_empty() {
            s.push_str(",\"m\":[");
            for (i, m) in macros.iter().enumerate() {
                if i > 0 {
                    s.push(',');
                }
                s.push_str(&esc(m));
            }
            s.push(']');
            // innermost expansion-site line too (the line inside the macro definition)
            let ilo = sm.lookup_char_pos(sp.lo());
            let _ = write!(s, ",\"il\":{}", ilo.line);
        }
        s.push('}');
        s
    }

    fn place_json(&mut self, body: &Body<'tcx>, p: &Place<'tcx>) -> String {
        let tcx = self.tcx;
        let mut s = String::new();
        let _ = write!(s, "{{\"l\":{}", p.local.as_usize());
        if !p.projection.is_empty() {
            s.push_str(",\"p\":[");
            let mut pty = mir::PlaceTy::from_ty(body.local_decls[p.local].ty);
            for (i, elem) in p.projection.iter().enumerate() {
                if i > 0 {
                    s.push(',');
                }
                match elem {
                    PlaceElem::Deref => s.push_str("\"*\""),
                    PlaceElem::Field(f, _fty) => {
                        let name = match pty.ty.kind() {
                            ty::Adt(def, _) => {
                                let vi = pty.variant_index.unwrap_or(rustc_abi::FIRST_VARIANT);
                                if def.is_enum() && pty.variant_index.is_none() {
                                    format!("{}", f.as_usize())
                                } else {
                                    def.variant(vi).fields[f].name.to_string()
                                }
                            }
                            _ => format!("{}", f.as_usize()),
                        };
                        let _ = write!(s, "{{\"f\":{}}}", esc(&name));
                    }
                    PlaceElem::Downcast(_, vidx) => {
                        let name = match pty.ty.kind() {
                            ty::Adt(def, _) => def.variant(vidx).name.to_string(),
                            _ => format!("{}", vidx.as_usize()),
                        };
                        let _ = write!(s, "{{\"v\":{}}}", esc(&name));
                    }
                    PlaceElem::Index(l) => {
                        let _ = write!(s, "{{\"i\":{}}}", l.as_usize());
                    }
                    PlaceElem::ConstantIndex { offset, from_end, .. } => {
                        let _ = write!(s, "{{\"ci\":{},\"fe\":{}}}", offset, from_end);
                    }
                    PlaceElem::Subslice { .. } => s.push_str("\"subslice\""),
                    PlaceElem::OpaqueCast(_) => s.push_str("\"opaque\""),
                    PlaceElem::UnwrapUnsafeBinder(_) => s.push_str("\"unbinder\""),
                }
                pty = pty.projection_ty(tcx, elem);
            }
            s.push(']');
        }
        s.push('}');
        s
    }

    fn const_json(&mut self, owner: DefId, c: &ConstOperand<'tcx>) -> String {
        let tcx = self.tcx;
        let ty = c.const_.ty();
        let mut s = String::new();
        let _ = write!(s, "{{\"c\":1,\"ty\":{}", esc(&self.ty_str(ty)));
        match ty.kind() {
            ty::FnDef(did, args) => {
                let (decl, res) = self.resolve(owner, *did, args);
                let _ = write!(s, ",\"fn\":{}", esc(&decl));
                if let Some(r) = res {
                    let _ = write!(s, ",\"rfn\":{}", esc(&r));
                }
            }
            _ => {
                // static?
                if let Some(did) = c.check_static_ptr(tcx) {
                    let _ = write!(s, ",\"static\":{}", esc(&self.path(did)));
                } else {
                    // promoted?
                    if let mir::Const::Unevaluated(uv, _) = c.const_ {
                        if let Some(p) = uv.promoted {
                            let _ = write!(s, ",\"promoted\":{}", p.as_usize());
                        } else {
                            let _ = write!(s, ",\"uneval\":{}", esc(&self.path(uv.def)));
                        }
                    }
                    let typing_env = TypingEnv::post_analysis(tcx, owner);
                    if let Ok(val) = c.const_.eval(tcx, typing_env, c.span) {
                        // scalar
                        if let Some(si) = val.try_to_scalar_int() {
                            let bits = si.to_bits_unchecked();
                            match ty.kind() {
                                ty::Bool => {
                                    let _ = write!(s, ",\"v\":{}", if bits != 0 { "true" } else { "false" });
                                }
                                ty::Char => {
                                    let ch = char::from_u32(bits as u32).unwrap_or('?');
                                    let _ = write!(s, ",\"v\":{}", esc(&ch.to_string()));
                                }
                                ty::Int(_) => {
                                    let size = si.size();
                                    let v = size.sign_extend(bits);
                                    let _ = write!(s, ",\"v\":{}", v);
                                }
                                ty::Uint(_) => {
                                    let _ = write!(s, ",\"v\":{}", bits);
                                }
                                _ => {
                                    let _ = write!(s, ",\"bits\":{}", bits);
                                }
                            }
                        }
                        // strings and destructurable consts
                        let pretty = with_no_trimmed_paths!(format!("{}", c.const_));
                        if let ty::Ref(_, inner, _) = ty.kind() {
                            if inner.is_str() {
                                if let Some(bytes) = val.try_get_slice_bytes_for_diagnostics(tcx) {
                                    let st = String::from_utf8_lossy(bytes).to_string();
                                    let _ = write!(s, ",\"s\":{}", esc(&st));
                                }
                            }
                        }
                        if let ty::Adt(def, _) = ty.kind() {
                            if def.is_enum() {
                                if let Some(d) = tcx.try_destructure_mir_constant_for_user_output(val, ty) {
                                    if let Some(vi) = d.variant {
                                        let _ = write!(s, ",\"variant\":{}", esc(def.variant(vi).name.as_str()));
                                    }
                                }
                            }
                        }
                        let _ = write!(s, ",\"pp\":{}", esc(&pretty));
                    } else {
                        let pretty = with_no_trimmed_paths!(format!("{}", c.const_));
                        let _ = write!(s, ",\"pp\":{}", esc(&pretty));
                    }
                }
            }
        }
        s.push('}');
        s
    }

    fn operand_json(&mut self, owner: DefId, body: &Body<'tcx>, o: &Operand<'tcx>) -> String {
        match o {
            Operand::Copy(p) => format!("{{\"cp\":{}}}", self.place_json(body, p)),
            Operand::Move(p) => format!("{{\"mv\":{}}}", self.place_json(body, p)),
            Operand::Constant(c) => self.const_json(owner, c),
            #[allow(unreachable_patterns)]
            _ => "{\"other\":1}".to_string(),
        }
    }

    /// returns (declared path with args, resolved path with args if resolvable and different)
    fn resolve(&mut self, owner: DefId, did: DefId, args: ty::GenericArgsRef<'tcx>) -> (String, Option<String>) {
        let tcx = self.tcx;
        let decl = with_no_trimmed_paths!(tcx.def_path_str_with_args(did, args));
        let typing_env = TypingEnv::post_analysis(tcx, owner);
        let res = match ty::Instance::try_resolve(tcx, typing_env, did, args) {
            Ok(Some(inst)) => {
                let rd = inst.def_id();
                let r = with_no_trimmed_paths!(tcx.def_path_str_with_args(rd, inst.args));
                Some(r)
            }
            _ => None,
        };
        (decl, res)
    }

    fn body_json(&mut self, owner: DefId, body: &Body<'tcx>, out: &mut String) {
        let tcx = self.tcx;
        // locals
        out.push_str("\"locals\":[");
        for (i, (_l, d)) in body.local_decls.iter_enumerated().enumerate() {
            if i > 0 {
                out.push(',');
            }
            self.note_ty(d.ty);
            out.push_str(&esc(&self.ty_str(d.ty)));
        }
        out.push_str("],");
        let _ = write!(out, "\"argc\":{},", body.arg_count);
        // debug names
        out.push_str("\"names\":{");
        let mut first = true;
        for vdi in &body.var_debug_info {
            if let mir::VarDebugInfoContents::Place(p) = &vdi.value {
                if !first {
                    out.push(',');
                }
                first = false;
                let pj = self.place_json(body, p);
                let _ = write!(out, "{}:{}", esc(vdi.name.as_str()), pj);
            }
        }
        out.push_str("},");
        out.push_str("\"blocks\":[");
        for (bi, (_bb, data)) in body.basic_blocks.iter_enumerated().enumerate() {
            if bi > 0 {
                out.push(',');
            }
            let _ = write!(out, "{{\"cleanup\":{},\"st\":[", data.is_cleanup);
            let mut firsts = true;
            for st in &data.statements {
                let js = match &st.kind {
                    StatementKind::Assign(b) => {
                        let (place, rv) = &**b;
                        let dst = self.place_json(body, place);
                        let rvj = self.rvalue_json(owner, body, rv);
                        Some(format!(
                            "{{\"k\":\"assign\",\"dst\":{},\"rv\":{},\"sp\":{}}}",
                            dst,
                            rvj,
                            self.span_json(st.source_info.span)
                        ))
                    }
                    StatementKind::SetDiscriminant { place, variant_index } => {
                        let dst = self.place_json(body, place);
                        Some(format!(
                            "{{\"k\":\"setdiscr\",\"dst\":{},\"vi\":{}}}",
                            dst,
                            variant_index.as_usize()
                        ))
                    }
                    _ => None,
                };
                if let Some(js) = js {
                    if !firsts {
                        out.push(',');
                    }
                    firsts = false;
                    out.push_str(&js);
                }
            }
            out.push_str("],\"term\":");
            let term = data.terminator();
            let sp = self.span_json(term.source_info.span);
            let bbn = |b: BasicBlock| b.as_usize();
            match &term.kind {
                TerminatorKind::Goto { target } => {
                    let _ = write!(out, "{{\"k\":\"goto\",\"t\":{}}}", bbn(*target));
                }
                TerminatorKind::SwitchInt { discr, targets } => {
                    let d = self.operand_json(owner, body, discr);
                    let dty = discr.ty(&body.local_decls, tcx);
                    let _ = write!(out, "{{\"k\":\"switch\",\"on\":{},\"ty\":{},\"targets\":[", d, esc(&self.ty_str(dty)));
                    for (i, (v, t)) in targets.iter().enumerate() {
                        if i > 0 {
                            out.push(',');
                        }
                        let _ = write!(out, "[{},{}]", v, bbn(t));
                    }
                    let _ = write!(out, "],\"otherwise\":{},\"sp\":{}}}", bbn(targets.otherwise()), sp);
                }
                TerminatorKind::Return => {
                    let _ = write!(out, "{{\"k\":\"return\",\"sp\":{}}}", sp);
                }
                TerminatorKind::Unreachable => out.push_str("{\"k\":\"unreachable\"}"),
                TerminatorKind::UnwindResume => out.push_str("{\"k\":\"resume\"}"),
                TerminatorKind::UnwindTerminate(_) => out.push_str("{\"k\":\"terminate\"}"),
                TerminatorKind::Drop { place, target, unwind, .. } => {
                    let p = self.place_json(body, place);
                    let uw = match unwind {
                        mir::UnwindAction::Cleanup(b) => format!("{}", bbn(*b)),
                        _ => "null".to_string(),
                    };
                    let _ = write!(out, "{{\"k\":\"drop\",\"place\":{},\"t\":{},\"uw\":{}}}", p, bbn(*target), uw);
                }
                TerminatorKind::Call { func, args, destination, target, unwind, fn_span, .. } => {
                    let fty = func.ty(&body.local_decls, tcx);
                    let mut fj = String::new();
                    match fty.kind() {
                        ty::FnDef(did, gargs) => {
                            let (decl, res) = self.resolve(owner, *did, gargs);
                            let _ = write!(fj, "\"fn\":{},\"fnbase\":{}", esc(&decl), esc(&self.path(*did)));
                            if let Some(r) = res {
                                let _ = write!(fj, ",\"rfn\":{}", esc(&r));
                            }
                            // resolved base (without generic args)
                            let typing_env = TypingEnv::post_analysis(tcx, owner);
                            if let Ok(Some(inst)) = ty::Instance::try_resolve(tcx, typing_env, *did, gargs) {
                                let _ = write!(fj, ",\"rbase\":{}", esc(&self.path(inst.def_id())));
                            }
                        }
                        _ => {
                            let o = self.operand_json(owner, body, func);
                            let _ = write!(fj, "\"fnptr\":{},\"fnty\":{}", o, esc(&self.ty_str(fty)));
                        }
                    }
                    let _ = write!(out, "{{\"k\":\"call\",{},\"args\":[", fj);
                    for (i, a) in args.iter().enumerate() {
                        if i > 0 {
                            out.push(',');
                        }
                        let aj = self.operand_json(owner, body, &a.node);
                        out.push_str(&aj);
                    }
                    let dst = self.place_json(body, destination);
                    let t = match target {
                        Some(b) => format!("{}", bbn(*b)),
                        None => "null".to_string(),
                    };
                    let uw = match unwind {
                        mir::UnwindAction::Cleanup(b) => format!("{}", bbn(*b)),
                        _ => "null".to_string(),
                    };
                    let _ = write!(
                        out,
                        "],\"dst\":{},\"t\":{},\"uw\":{},\"sp\":{},\"fsp\":{}}}",
                        dst,
                        t,
                        uw,
                        sp,
                        self.span_json(*fn_span)
                    );
                }
                TerminatorKind::Assert { cond, expected, target, msg, .. } => {
                    let c = self.operand_json(owner, body, cond);
                    let m = format!("{:?}", msg);
                    let _ = write!(
                        out,
                        "{{\"k\":\"assert\",\"cond\":{},\"expected\":{},\"t\":{},\"msg\":{},\"sp\":{}}}",
                        c,
                        expected,
                        bbn(*target),
                        esc(&m),
                        sp
                    );
                }
                TerminatorKind::FalseEdge { real_target, .. } => {
                    let _ = write!(out, "{{\"k\":\"goto\",\"t\":{}}}", bbn(*real_target));
                }
                TerminatorKind::FalseUnwind { real_target, .. } => {
                    let _ = write!(out, "{{\"k\":\"goto\",\"t\":{}}}", bbn(*real_target));
                }
                other => {
                    let _ = write!(out, "{{\"k\":\"other\",\"dbg\":{}}}", esc(&format!("{:?}", other)));
                }
            }
            out.push('}');
        }
        out.push(']');
    }

    fn rvalue_json(&mut self, owner: DefId, body: &Body<'tcx>, rv: &Rvalue<'tcx>) -> String {
        let tcx = self.tcx;
        match rv {
            Rvalue::Use(o, ..) => format!("{{\"k\":\"use\",\"o\":{}}}", self.operand_json(owner, body, o)),
            Rvalue::Ref(_, bk, p) => {
                let m = matches!(bk, mir::BorrowKind::Mut { .. });
                format!("{{\"k\":\"ref\",\"mut\":{},\"p\":{}}}", m, self.place_json(body, p))
            }
            Rvalue::RawPtr(_, p) => format!("{{\"k\":\"rawptr\",\"p\":{}}}", self.place_json(body, p)),
            Rvalue::CopyForDeref(p) => format!("{{\"k\":\"use\",\"o\":{{\"cp\":{}}}}}", self.place_json(body, p)),
            Rvalue::Discriminant(p) => {
                let pty = p.ty(&body.local_decls, tcx).ty;
                if let ty::Adt(def, _) = pty.kind() {
                    // switched-on enums are always tabulated (Option, Result, ControlFlow, ...)
                    if self.adt_forced.insert(def.did()) && self.adt_seen.contains(&def.did()) {
                        self.adt_queue.push(def.did());
                    }
                }
                self.note_ty(pty);
                let en = match pty.kind() {
                    ty::Adt(def, _) => self.path(def.did()),
                    _ => self.ty_str(pty),
                };
                format!("{{\"k\":\"discr\",\"p\":{},\"enum\":{}}}", self.place_json(body, p), esc(&en))
            }
            Rvalue::Cast(kind, o, t) => {
                format!(
                    "{{\"k\":\"cast\",\"ck\":{},\"o\":{},\"ty\":{}}}",
                    esc(&format!("{:?}", kind)),
                    self.operand_json(owner, body, o),
                    esc(&self.ty_str(*t))
                )
            }
            Rvalue::BinaryOp(op, b) => {
                let (a, c) = &**b;
                format!(
                    "{{\"k\":\"binop\",\"op\":{},\"a\":{},\"b\":{}}}",
                    esc(&format!("{:?}", op)),
                    self.operand_json(owner, body, a),
                    self.operand_json(owner, body, c)
                )
            }
            Rvalue::UnaryOp(op, a) => {
                format!(
                    "{{\"k\":\"unop\",\"op\":{},\"a\":{}}}",
                    esc(&format!("{:?}", op)),
                    self.operand_json(owner, body, a)
                )
            }
            Rvalue::Aggregate(kind, ops) => {
                let mut s = String::from("{\"k\":\"agg\",");
                match &**kind {
                    AggregateKind::Adt(did, vidx, _args, _, _) => {
                        let def = tcx.adt_def(*did);
                        if self.adt_seen.insert(*did) {
                            self.adt_queue.push(*did);
                        }
                        let _ = write!(
                            s,
                            "\"adt\":{},\"variant\":{},",
                            esc(&self.path(*did)),
                            esc(def.variant(*vidx).name.as_str())
                        );
                    }
                    AggregateKind::Closure(did, _) => {
                        let _ = write!(s, "\"closure\":{},", esc(&self.path(*did)));
                    }
                    AggregateKind::Coroutine(did, _) | AggregateKind::CoroutineClosure(did, _) => {
                        let _ = write!(s, "\"closure\":{},", esc(&self.path(*did)));
                    }
                    AggregateKind::Tuple => s.push_str("\"tuple\":1,"),
                    AggregateKind::Array(_) => s.push_str("\"array\":1,"),
                    AggregateKind::RawPtr(..) => s.push_str("\"rawptr\":1,"),
                }
                s.push_str("\"ops\":[");
                for (i, o) in ops.iter().enumerate() {
                    if i > 0 {
                        s.push(',');
                    }
                    s.push_str(&self.operand_json(owner, body, o));
                }
                s.push_str("]}");
                s
            }
            Rvalue::Repeat(o, _) => format!("{{\"k\":\"repeat\",\"o\":{}}}", self.operand_json(owner, body, o)),
            other => format!("{{\"k\":\"other\",\"dbg\":{}}}", esc(&format!("{:?}", other))),
        }
    }
}

struct Cb;

impl rustc_driver::Callbacks for Cb {
    fn after_analysis<'tcx>(&mut self, _c: &rustc_interface::interface::Compiler, tcx: TyCtxt<'tcx>) -> Compilation {
        let outdir = match std::env::var("STYLUA_FACTS_OUT") {
            Ok(d) => d,
            Err(_) => return Compilation::Continue,
        };
        let krate = tcx.crate_name(LOCAL_CRATE).to_string();
        let wanted = std::env::var("STYLUA_FACTS_CRATES").unwrap_or_else(|_| "stylua_lib,stylua,verif_selftest".to_string());
        if !wanted.split(',').any(|w| w == krate) {
            return Compilation::Continue;
        }
        let config = std::env::var("STYLUA_FACTS_CONFIG").unwrap_or_else(|_| "unknown".to_string());
        let mut cx = Cx { tcx, adts: BTreeMap::new(), adt_queue: Vec::new(), adt_seen: HashSet::new(), adt_forced: HashSet::new() };
        let mut out = String::new();
        let _ = write!(out, "{{\"crate\":{},\"config\":{},\"fns\":[", esc(&krate), esc(&config));
        let mut nfn = 0usize;
        for ldid in tcx.hir_body_owners() {
            let did = ldid.to_def_id();
            let kind = tcx.def_kind(did);
            let is_fn = matches!(kind, DefKind::Fn | DefKind::AssocFn | DefKind::Closure);
            let is_static = matches!(kind, DefKind::Static { .. });
            if !is_fn && !is_static {
                continue;
            }
            if !tcx.is_mir_available(did) {
                continue;
            }
            let body: &Body<'tcx> = if is_fn {
                if tcx.is_const_fn(did) {
                    tcx.mir_for_ctfe(did)
                } else {
                    tcx.optimized_mir(did)
                }
            } else {
                tcx.mir_for_ctfe(did)
            };
            if nfn > 0 {
                out.push(',');
            }
            nfn += 1;
            let path = cx.path(did);
            let parent = tcx.opt_parent(did).map(|p| cx.path(p));
            let kind_s = format!("{:?}", kind);
            let _ = write!(
                out,
                "{{\"path\":{},\"kind\":{},\"span\":{},",
                esc(&path),
                esc(&kind_s),
                cx.span_json(tcx.def_span(did))
            );
            if let Some(p) = parent {
                let _ = write!(out, "\"parent\":{},", esc(&p));
            }
            // impl info
            if matches!(kind, DefKind::AssocFn) {
                if let Some(impl_did) = tcx.impl_of_assoc(did) {
                    let self_ty = tcx.type_of(impl_did).instantiate_identity().skip_norm_wip();
                    let _ = write!(out, "\"impl_self\":{},", esc(&cx.ty_str(self_ty)));
                    if let Some(tr) = tcx.impl_opt_trait_ref(impl_did) {
                        let tr = tr.instantiate_identity().skip_norm_wip();
                        let _ = write!(out, "\"impl_trait\":{},", esc(&cx.path(tr.def_id)));
                    }
                }
            }
            if matches!(kind, DefKind::Closure) {
                // upvar types
                let cty = tcx.type_of(did).instantiate_identity().skip_norm_wip();
                if let ty::Closure(_, cargs) = cty.kind() {
                    out.push_str("\"upvars\":[");
                    for (i, t) in cargs.as_closure().upvar_tys().iter().enumerate() {
                        if i > 0 {
                            out.push(',');
                        }
                        cx.note_ty(t);
                        out.push_str(&esc(&cx.ty_str(t)));
                    }
                    out.push_str("],");
                }
            }
            cx.body_json(did, body, &mut out);
            // promoteds
            if is_fn && !tcx.is_const_fn(did) {
                let proms = tcx.promoted_mir(did);
                if !proms.is_empty() {
                    out.push_str(",\"promoted\":[");
                    for (i, pb) in proms.iter().enumerate() {
                        if i > 0 {
                            out.push(',');
                        }
                        out.push('{');
                        cx.body_json(did, pb, &mut out);
                        out.push('}');
                    }
                    out.push(']');
                }
            }
            out.push('}');
        }
        out.push_str("],\"adts\":{");
        cx.flush_adts();
        let mut first = true;
        for (k, v) in &cx.adts {
            if !first {
                out.push(',');
            }
            first = false;
            let _ = write!(out, "{}:{}", esc(k), v);
        }
        out.push_str("}}");
        let file = format!("{}/{}.json", outdir, krate);
        let tmp = format!("{}.tmp{}", file, std::process::id());
        std::fs::write(&tmp, out.as_bytes()).expect("write facts");
        std::fs::rename(&tmp, &file).expect("rename facts");
        Compilation::Continue
    }
}

fn main() {
    let mut args: Vec<String> = std::env::args().collect();
    // wrapper mode: argv[1] is the path of rustc
    if args.len() > 1 && (args[1].ends_with("rustc") || args[1].contains("/rustc")) {
        args.remove(1);
    }
    let mut cb = Cb;
    rustc_driver::run_compiler(&args, &mut cb);
}
