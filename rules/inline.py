"""MIR-level inlining of calls to local functions (facts only, nothing is executed).

Rules that reason about one function (who may write the exit status *in the output thread*, the range test *in
should_format_node*, the verification block *in format_ast*, ...) must not depend on whether a maintainer has moved a
piece of that function into a private helper. `inlined(prog, f, ...)` returns a new Fn whose calls to selected
same-crate functions are replaced by the callee's blocks:

    bbK:  ...; _d = call h(a1, .., an) -> bbT          bbK:  ...; p1 = a1; ..; pn = an; goto bbH0
                                                ==>    bbH*: callee blocks, locals shifted, `return` => _d = move r; goto bbT

Locals, block numbers and promoted-constant indices of the callee are shifted past the caller's. Closures are not
inlined (their captured environment is a different calling convention); recursion is cut by the depth bound. The
result keeps the caller's path / kind / argc so that keys in reports do not change.
"""
import copy
from facts import Fn, callee


def _shift_place(p, loff):
    q = {"l": p["l"] + loff}
    if "p" in p:
        q["p"] = [({"i": e["i"] + loff} if isinstance(e, dict) and "i" in e else e) for e in p["p"]]
    return q


def _shift_operand(o, loff, poff):
    if not isinstance(o, dict):
        return o
    if "cp" in o:
        return {"cp": _shift_place(o["cp"], loff)}
    if "mv" in o:
        return {"mv": _shift_place(o["mv"], loff)}
    if "promoted" in o:
        o = dict(o)
        o["promoted"] = o["promoted"] + poff
        return o
    return o


def _shift_rvalue(rv, loff, poff):
    rv = dict(rv)
    for k in ("o", "a", "b"):
        if k in rv:
            rv[k] = _shift_operand(rv[k], loff, poff)
    if "p" in rv and isinstance(rv["p"], dict):
        rv["p"] = _shift_place(rv["p"], loff)
    if "ops" in rv:
        rv["ops"] = [_shift_operand(x, loff, poff) for x in rv["ops"]]
    return rv


def _shift_block(blk, loff, boff, poff, dst, target, sp):
    nb = {"cleanup": blk["cleanup"], "st": []}
    for s in blk["st"]:
        s2 = dict(s)
        if "dst" in s2:
            s2["dst"] = _shift_place(s2["dst"], loff)
        if "rv" in s2:
            s2["rv"] = _shift_rvalue(s2["rv"], loff, poff)
        nb["st"].append(s2)
    t = dict(blk["term"])
    k = t["k"]
    if k == "goto":
        t["t"] += boff
    elif k == "switch":
        t["on"] = _shift_operand(t["on"], loff, poff)
        t["targets"] = [[v, b + boff] for v, b in t["targets"]]
        t["otherwise"] += boff
    elif k == "call":
        t["args"] = [_shift_operand(a, loff, poff) for a in t["args"]]
        t["dst"] = _shift_place(t["dst"], loff)
        if t.get("t") is not None:
            t["t"] += boff
        if t.get("uw") is not None:
            t["uw"] += boff
        if "fnptr" in t:
            t["fnptr"] = _shift_operand(t["fnptr"], loff, poff)
    elif k == "drop":
        t["place"] = _shift_place(t["place"], loff)
        t["t"] += boff
        if t.get("uw") is not None:
            t["uw"] += boff
    elif k == "assert":
        t["cond"] = _shift_operand(t["cond"], loff, poff)
        t["t"] += boff
    elif k == "return":
        nb["st"].append({"k": "assign", "dst": dst, "rv": {"k": "use", "o": {"mv": {"l": loff}}}, "sp": t.get("sp", sp)})
        t = {"k": "goto", "t": target} if target is not None else {"k": "unreachable"}
    nb["term"] = t
    return nb


def _is_const(o):
    return isinstance(o, dict) and "c" in o


def inlined(prog, f, select, depth=2, max_blocks=6000, allow_closures=False):
    """select(caller_fn, callee_fn, call_term) -> bool. Returns f itself when nothing is inlined."""
    d = {"path": f.path, "kind": f.kind, "span": f.span, "parent": f.parent, "locals": list(f.locals), "argc": f.argc,
         "names": dict(f.names) if isinstance(f.names, dict) else f.names, "blocks": copy.deepcopy(f.blocks),
         "promoted": list(f.promoted), "impl_self": f.impl_self, "impl_trait": f.impl_trait, "upvars": f.upvars}
    changed = False
    origin = {}            # block -> inlining depth at which it was created
    stack = []             # paths currently being expanded, to cut recursion
    for _ in range(depth):
        todo = []
        for bi, blk in enumerate(d["blocks"]):
            t = blk["term"]
            if t["k"] != "call" or blk.get("cleanup"):
                continue
            h = prog.fn(f.crate, callee(t))
            if h is None or h.path == f.path:
                continue
            if h.kind == "Closure":
                # a direct call of a local closure: (env, (a1, .., an)) - the body takes the arguments untupled
                if not (allow_closures and len(t["args"]) == 2 and not _is_const(t["args"][1])):
                    continue
            elif len(t["args"]) != h.argc:
                continue
            if not select(f, h, t):
                continue
            todo.append((bi, h))
        if not todo:
            break
        for bi, h in todo:
            if len(d["blocks"]) + len(h.blocks) > max_blocks:
                continue
            blk = d["blocks"][bi]
            t = blk["term"]
            loff = len(d["locals"])
            boff = len(d["blocks"])
            poff = len(d["promoted"])
            d["locals"] += list(h.locals)
            d["promoted"] += list(h.promoted)
            for hb in h.blocks:
                d["blocks"].append(_shift_block(hb, loff, boff, poff, t["dst"], t.get("t"), t.get("sp")))
            if h.kind == "Closure":
                blk["st"].append({"k": "assign", "dst": {"l": loff + 1}, "rv": {"k": "use", "o": t["args"][0]}, "sp": t.get("sp")})
                tup = t["args"][1].get("mv") or t["args"][1].get("cp")
                for k in range(h.argc - 1):
                    src = {"l": tup["l"], "p": list(tup.get("p", [])) + [{"f": str(k)}]}
                    blk["st"].append({"k": "assign", "dst": {"l": loff + 2 + k}, "rv": {"k": "use", "o": {"cp": src}},
                                      "sp": t.get("sp")})
            else:
                for k, a in enumerate(t["args"]):
                    blk["st"].append({"k": "assign", "dst": {"l": loff + 1 + k}, "rv": {"k": "use", "o": a}, "sp": t.get("sp")})
            blk["term"] = {"k": "goto", "t": boff, "inlined": h.path}
            changed = True
    if not changed:
        return f
    return Fn(prog, f.crate, d)


def callers_count(prog, crate):
    """{callee path: number of call sites in the crate} (cached on the program object)"""
    cache = getattr(prog, "_callers_count", None)
    if cache is None:
        cache = {}
        try:
            prog._callers_count = cache
        except AttributeError:
            pass
    if crate not in cache:
        cnt = {}
        for g in prog.fns(crate):
            for b, t in g.calls():
                c = callee(t)
                cnt[c] = cnt.get(c, 0) + 1
        cache[crate] = cnt
    return cache[crate]


def small_helper(prog, keep=None, max_blocks=120, max_callers=3):
    """selection policy: a same-crate, non-closure function with few blocks and few call sites whose name the rule does
    not reason about (`keep` = regex of callee paths that must stay calls)"""
    import re as _re
    keep_re = _re.compile(keep) if keep else None

    def select(caller, h, t):
        if keep_re is not None and keep_re.search(h.path):
            return False
        if len(h.blocks) > max_blocks:
            return False
        return callers_count(prog, caller.crate).get(h.path, 0) <= max_callers
    return select


# ---------------------------------------------------------------------------------------------------------------
# A whole-crate view in which functions the rules do not know by name are transparent.
KNOWN_STYLUA = {
    "config::read_config_file", "config::read_and_apply_overrides", "config::ConfigResolver::<'_>::new",
    "config::ConfigResolver::<'_>::get_configuration_search_root", "config::ConfigResolver::<'_>::load_configuration",
    "config::ConfigResolver::<'_>::load_configuration_for_stdin",
    "config::ConfigResolver::<'_>::lookup_config_file_in_directory", "config::ConfigResolver::<'_>::find_config_file",
    "config::ConfigResolver::<'_>::search_config_locations", "config::find_toml_file", "config::find_ignore_file_path",
    "config::load_overrides", "opt::Color::should_use_color", "opt::Color::should_use_color_stderr",
    "output_diff::output_diff", "output_diff::output_diff_unified", "output_diff::output_diff_json",
    "convert_parse_error_to_json", "create_diff", "format_file", "format_string", "get_ignore", "is_explicitly_provided",
    "should_respect_ignores", "path_is_stylua_ignored", "format", "main",
}


class _CrateView:
    def __init__(self, name, config, adts, fns):
        self.name = name
        self.config = config
        self.adts = adts
        self.fns = fns
        self.by_path = {}
        for f in fns:
            self.by_path.setdefault(f.path, f)


def crate_view(prog, crate, known, max_blocks=200, max_callers=3):
    """a copy of `prog` in which every function of `crate` that is *not* in `known` (new private helpers: few call
    sites, small, not a closure, not a trait impl) is inlined into its callers and removed from the function list"""
    cached = getattr(prog, "_views", None)
    if cached is None:
        cached = {}
        prog._views = cached
    key = (crate, max_blocks, max_callers)
    if key in cached:
        return cached[key]
    cnt = callers_count(prog, crate)
    c0 = prog.crates[crate]
    helpers = set()
    for h in c0.fns:
        if h.kind == "Closure" or h.path in known or h.path.startswith("<") or "::{" in h.path or "::tests::" in h.path:
            continue
        if h.impl_trait or len(h.blocks) > max_blocks or len(h.blocks) < 1:
            continue
        n = cnt.get(h.path, 0)
        if 1 <= n <= max_callers:
            helpers.add(h.path)
    if not helpers:
        cached[key] = prog
        return prog
    view = copy.copy(prog)
    view.crates = dict(prog.crates)
    view._views = {}
    view._callers_count = None
    # closures defined inside an inlined-away helper belong, for the rules, to the function the helper was inlined into
    owner = {}
    for g0 in c0.fns:
        for b, t in g0.calls():
            if callee(t) in helpers and g0.path not in helpers:
                owner.setdefault(callee(t), g0.path)
    changed = True
    while changed:          # helper called from another helper
        changed = False
        for g0 in c0.fns:
            if g0.path in helpers and g0.path in owner:
                for b, t in g0.calls():
                    if callee(t) in helpers and callee(t) not in owner:
                        owner[callee(t)] = owner[g0.path]
                        changed = True
    newfns = []
    aliases = {}
    for f in c0.fns:
        if f.path in helpers:
            continue
        hp = next((h for h in helpers if f.path.startswith(h + "::{closure")), None)
        if hp is not None and hp in owner:
            g = copy.copy(f)
            g._succ = g._pred = g._dom = g._pdom = g._defs = g._reach = None
            g.path = owner[hp] + "::{closure@" + hp.split("::")[-1] + f.path[len(hp) + len("::{closure"):]
            g.prog = view
            aliases[f.path] = g
            newfns.append(g)
            continue
        g = inlined(prog, f, lambda caller, h, t: h.path in helpers, depth=3)
        if g is not f:
            g.prog = view
        newfns.append(g)
    cv = _CrateView(c0.name, c0.config, c0.adts, newfns)
    for oldp, g in aliases.items():
        cv.by_path.setdefault(oldp, g)      # aggregates still name the closure by its original path
    view.crates[crate] = cv
    try:
        view._callers_count = None
    except AttributeError:
        pass
    view.inlined_helpers = sorted(helpers)
    cached[key] = view
    return view


# ---------------------------------------------------------------------------------------------------------------
KNOWN_FILE = __import__("os").path.join(__import__("os").path.dirname(__import__("os").path.abspath(__file__)), "known_fns.json")


def known_names(crate):
    import json
    import os
    if not os.path.exists(KNOWN_FILE):
        return None
    return set(json.load(open(KNOWN_FILE)).get(crate, []))


def transparent_view(prog):
    """the program with every *new* private helper (a function whose name is not in known_fns.json, small, at most 3 call
    sites) inlined into its callers, for both crates: the rules reason about the functions they know by name, and moving a
    piece of one of them into a fresh helper must not change any verdict"""
    kl = known_names("stylua_lib")
    ks = known_names("stylua")
    v = prog
    if kl is not None:
        v = crate_view(v, "stylua_lib", kl, max_blocks=160, max_callers=3)
    v = crate_view(v, "stylua", (ks or set()) | KNOWN_STYLUA)
    return v


def freeze_known():
    import json
    import extract
    from facts import Program
    files, _ = extract.extract(extract.THOROUGH, verbose=False)
    out = {"stylua_lib": set(), "stylua": set()}
    for cfg in extract.THOROUGH:
        prog = Program(cfg, files[cfg])
        for crate in out:
            for f in prog.fns(crate):
                if f.kind != "Closure":
                    out[crate].add(f.path)
    with open(KNOWN_FILE, "w") as fh:
        json.dump({k: sorted(v) for k, v in out.items()}, fh, indent=0)
    print({k: len(v) for k, v in out.items()})


if __name__ == "__main__":
    import sys
    if "--freeze" in sys.argv:
        sys.path.insert(0, __import__("os").path.dirname(__import__("os").path.abspath(__file__)))
        freeze_known()
