"""R-CFG: configuration carriers agree (C20) and CLI overrides are applied last (C15)."""
from engine import Report


def _view(prog):
    from inline import crate_view, KNOWN_STYLUA
    return crate_view(prog, "stylua", KNOWN_STYLUA)

from facts import *

CONFIG_ENUMS = ["LuaVersion", "LineEndings", "IndentType", "QuoteStyle", "CallParenType",
                "CollapseSimpleStatement", "SpaceAfterFunctionNames"]


def value_desc(fn, o):
    """describe the operand assigned to a config field."""
    if is_const(o):
        if "variant" in o:
            return ("variant", o["ty"].split("::")[-1], o["variant"])
        return ("const", o.get("v", o.get("pp")))
    p = op_place(o)
    if p.get("p") and not _only_derefs_local(p):
        fs = proj_fields(p)
        return ("payload",) + tuple(x[1] for x in fs)
    ds = fn.defs().get(p["l"], [])
    if len(ds) == 1 and ds[0][1] != "term":
        rv = ds[0][2]["rv"]
        if rv["k"] == "agg" and "adt" in rv:
            if rv["ops"]:
                return ("struct", rv["adt"].split("::")[-1], rv["variant"],
                        tuple(value_desc(fn, x) for x in rv["ops"]))
            return ("variant", rv["adt"].split("::")[-1], rv["variant"])
        if rv["k"] == "use":
            return value_desc(fn, rv["o"])
    if len(ds) == 1 and ds[0][1] == "term":
        t = ds[0][2]
        return ("call", callee(t)) + tuple(value_desc(fn, a) for a in t["args"][:1])
    return ("unknown",)


def _only_derefs_local(p):
    return all(e == "*" for e in p.get("p", []))


def field_writes(fn, base_local):
    """[(bi, field, operand, stmt)] for assignments `base.field = operand`."""
    out = []
    for bi, si, s in fn.stmts():
        if s["k"] != "assign":
            continue
        d = s["dst"]
        if d["l"] != base_local or not d.get("p"):
            continue
        fs = proj_fields(d)
        if len(fs) >= 1 and fs[0][0] == "f" and s["rv"]["k"] == "use":
            out.append((bi, ".".join(x[1] for x in fs), s["rv"]["o"], s))
        elif len(fs) >= 1 and fs[0][0] == "f":
            out.append((bi, ".".join(x[1] for x in fs), None, s))
    return out


def rule_convert(ctx, prop):
    rep = Report(prop, "R-CFG(a)", "flag enums <-> config enums: conversions are total and name preserving in both "
                                   "directions; variant sets equal; flag value names equal config value names")
    for cfg, prog in ctx.programs.items():
        prog = _view(prog)
        n = 0
        for f in prog.fns("stylua"):
            if f.impl_trait != "std::convert::From" or not f.path.endswith("::from"):
                continue
            src_ty = f.locals[1] if f.argc >= 1 else ""
            dst_ty = f.locals[0]
            if not (("opt::Arg" in src_ty) ^ ("opt::Arg" in dst_ty)):
                continue
            n += 1
            sa = prog.adt(src_ty, "stylua")
            da = prog.adt(dst_ty, "stylua")
            if not rep.anchor(sa is not None and da is not None, f"ADT tables for {src_ty}/{dst_ty}", cfg):
                continue
            sv = [v["name"] for v in sa["variants"]]
            dv = [v["name"] for v in da["variants"]]
            ok_sets = sorted(sv) == sorted(dv)
            rep.inst(f"{f.key} variant-sets-equal", {"src": sv, "dst": dv}, cfg, ok=ok_sets)
            if not ok_sets:
                rep.violation(f"{f.key} variant-sets-differ",
                              f"{src_ty} has variants {sv} but {dst_ty} has {dv} in configuration {cfg}: a value "
                              f"exists on one carrier and not on the other", f.loc(), cfg)
            # the switch
            sws = [switch_info(f, bi) for bi in range(len(f.blocks))]
            sws = [s for s in sws if s and s["enum"] == src_ty and s["place"]["l"] == 1]
            if len(sws) != 1:
                # not a variant-to-variant match (e.g. a round trip through names / serde): which value a flag maps to cannot
                # be read off the code, and a name mismatch (clap `LuaJit` vs `LuaJIT`) silently becomes a default
                via = sorted({callee(t).split("::")[-1] for b, t in f.calls()})[:8]
                rep.inst(f"{f.key} is a variant-to-variant match", {"calls": via}, cfg, ok=False)
                rep.violation(f"{f.key} conversion-not-a-match",
                              f"{f.path} does not convert by matching on the flag's variants (it goes through {via}): the "
                              f"flag value and the config-file value of the same name can no longer be shown to mean the "
                              f"same option value (fail closed)", f.loc(), cfg)
                continue
            si = sws[0]
            alltargets = dict(si["targets"])
            for v in si["otherwise_variants"] or []:
                alltargets[v] = si["otherwise"]
            for v, tb in alltargets.items():
                made = None
                for b in f.reach_from(tb):
                    for s in f.blocks[b]["st"]:
                        if s["k"] == "assign" and s["dst"]["l"] == 0 and s["rv"]["k"] == "agg":
                            made = s["rv"].get("variant")
                        if s["k"] == "assign" and s["dst"]["l"] == 0 and s["rv"]["k"] == "use" and is_const(s["rv"]["o"]):
                            made = s["rv"]["o"].get("variant")
                    if made:
                        break
                ok = made == v
                rep.inst(f"{f.key} {v}->{v}", {"fn": f.key, "from": v, "to": made}, cfg, ok=ok)
                if not ok:
                    rep.violation(f"{f.key} name-not-preserved {v}->{made}",
                                  f"{src_ty}::{v} converts to {dst_ty}::{made}: the flag and the config file would "
                                  f"mean different things", f.loc(), cfg)
        rep.floor("flag<->config From impls", n, 14, cfg)
        # flag value names (clap ArgEnum::to_possible_value) == variant names (case-insensitively)
        m = 0
        for f in prog.fns("stylua"):
            if not re.search(r"^<opt::Arg\w+ as clap::(ArgEnum|ValueEnum)>::to_possible_value$", f.path):
                continue
            m += 1
            en = f.impl_self
            for bi in range(len(f.blocks)):
                si = switch_info(f, bi)
                if not si or si["enum"] != en:
                    continue
                for v, tb in si["targets"].items():
                    names = []
                    for b in f.reach_from(tb, avoid=set(si["targets"].values()) - {tb}):
                        t = f.blocks[b]["term"]
                        if t["k"] == "call" and re.search(r"PossibleValue::<'help>::new$|PossibleValue.*::new$", callee(t)):
                            for a in t["args"]:
                                names += [r[1][2:] for r in provenance(f, a, through=None)
                                          if r[0] == "const" and r[1].startswith("s:")]
                    ok = len(names) == 1 and names[0].lower() == v.lower()
                    rep.inst(f"{f.key} flag-name {v}", {"variant": v, "flag_value": names}, cfg, ok=ok)
                    if not ok:
                        rep.violation(f"{f.key} flag-value-name {v}->{names}",
                                      f"the command-line spelling of {en}::{v} is {names}, not `{v}` "
                                      f"(case-insensitively): the flag and stylua.toml disagree", f.loc(), cfg)
        rep.floor("ArgEnum impls of flag enums", m, 7, cfg)
        # config file value names: derived Deserialize of the config enums use the variant names
        k = 0
        for en in CONFIG_ENUMS:
            a = prog.adt(en, "stylua_lib")
            fv = [f for f in prog.fns("stylua_lib")
                  if re.search(r"Deserialize<'de> for " + en + r">::deserialize::__FieldVisitor as .*>::visit_str$", f.path)]
            if not rep.anchor(a is not None and len(fv) == 1, f"derived Deserialize visitor of {en}", cfg):
                continue
            k += 1
            strs = set()
            for b, t in fv[0].calls():
                if callee(t).endswith("PartialEq for str>::eq") or callee(t).endswith("::eq"):
                    for x in t["args"]:
                        if is_const(x) and "s" in x:
                            strs.add(x["s"])
            want = {v["name"] for v in a["variants"]}
            ok = strs == want
            rep.inst(f"stylua_lib::{en} toml-value-names", {"found": sorted(strs)}, cfg, ok=ok)
            if not ok:
                rep.violation(f"stylua_lib::{en} toml-value-names",
                              f"stylua.toml accepts {sorted(strs)} for {en} but the variants are {sorted(want)}",
                              fv[0].loc(), cfg)
        rep.floor("config enums with derived Deserialize", k, 7, cfg)
        # ignore_case = true on every arg_enum flag of FormatOpts
        aug = [f for f in prog.fns("stylua") if re.search(r"^<opt::FormatOpts as clap::Args>::augment_args$", f.path)]
        if rep.anchor(len(aug) == 1, "<FormatOpts as clap::Args>::augment_args", cfg):
            g = aug[0]
            ic = [t for b, t in g.calls() if re.search(r"Arg::<'help>::ignore_case$|::ignore_case$", callee(t))]
            okic = len(ic) >= 7 and all(is_const(t["args"][1]) and t["args"][1].get("v") is True for t in ic)
            rep.inst("stylua::opt::FormatOpts ignore_case(true) on enum flags", {"count": len(ic)}, cfg, ok=okic)
            if not okic:
                rep.violation("stylua::opt::FormatOpts ignore_case-missing",
                              f"only {len(ic)} of the 7 enum flags are case-insensitive (documented as "
                              f"`--syntax lua52` etc.)", g.loc(), cfg)
    return rep


def rule_overrides(ctx, prop):
    rep = Report(prop, "R-CFG(b)", "load_overrides: every FormatOpts field is read and written to the Config field of "
                                   "the same name; every Config field (except the deprecated no_call_parentheses) has "
                                   "such a write")
    for cfg, prog in ctx.programs.items():
        prog = _view(prog)
        f = prog.fn("stylua", "config::load_overrides")
        fo = prog.adt("opt::FormatOpts", "stylua")
        ca = prog.adt("stylua_lib::Config", "stylua")
        if not rep.anchor(f is not None and fo is not None and ca is not None, "load_overrides / FormatOpts / Config", cfg):
            continue
        fo_fields = [x["name"] for x in fo["variants"][0]["fields"]]
        c_fields = [x["name"] for x in ca["variants"][0]["fields"]]
        # the Config value being updated: whichever Config-typed local has its fields written (the parameter itself
        # or a copy of it) - identified by type, not by name
        cands = [l for l in range(1, len(f.locals)) if f.locals[l] == "stylua_lib::Config" and field_writes(f, l)]
        if not rep.anchor(len(cands) == 1, f"the Config local updated by load_overrides ({len(cands)} candidates)", cfg):
            continue
        nc = cands[0]
        writes = field_writes(f, nc)
        written = {}
        for bi, fld, o, s in writes:
            top = fld.split(".")[0]
            # dominating test on opt.format_opts.<F>
            guard = None
            for sb in sorted(f.dominators().get(bi, ()), reverse=True):
                t = f.blocks[sb]["term"]
                if t["k"] != "switch":
                    continue
                si = switch_info(f, sb)
                pl = None
                if si:
                    pl = si["place"]
                    tb = si["targets"].get("Some")
                    if tb is None or not f.dominates(tb, bi):
                        continue
                else:
                    # bool field
                    l = op_local(t["on"])
                    for st in f.blocks[sb]["st"]:
                        if st["k"] == "assign" and st["dst"]["l"] == l and st["rv"]["k"] == "use" and not is_const(st["rv"]["o"]):
                            pl = op_place(st["rv"]["o"])
                    if pl is None or not f.dominates(t["otherwise"], bi):
                        continue
                fs = [x[1] for x in proj_fields(pl) if x[0] == "f"]
                if "format_opts" in fs and pl["l"] == f.names.get("opt", {}).get("l"):
                    guard = fs[fs.index("format_opts") + 1] if len(fs) > fs.index("format_opts") + 1 else None
                    break
            ok = guard == top
            # the value comes from the same opt field (or is a constant struct for sort_requires)
            if ok and o is not None and not is_const(o):
                pr = origins(f, op_local(o))
                src_fields = set()

                def collect(l, depth=0):
                    if depth > 6:
                        return
                    for og in origins(f, l):
                        if og[0] == "proj":
                            fs2 = [x[1] for x in proj_fields(og[1]) if x[0] == "f"]
                            if "format_opts" in fs2:
                                src_fields.add(fs2[fs2.index("format_opts") + 1])
                            else:
                                collect(og[1]["l"], depth + 1)
                        elif og[0] == "call" and og[2]["args"]:
                            a0 = og[2]["args"][0]
                            if not is_const(a0):
                                collect(op_local(a0), depth + 1)
                collect(op_local(o))
                if src_fields and src_fields != {top}:
                    ok = False
            written[top] = written.get(top, True) and ok
            rep.inst(f"{f.key} new_config.{top} <- opt.format_opts.{guard}", {"field": top, "guard": guard}, cfg, ok=ok)
            if not ok:
                rep.violation(f"{f.key} cross-wired-field {top}<-{guard}",
                              f"new_config.{top} is written under / from opt.format_opts.{guard}: the flag overrides "
                              f"a different option", f.loc(s["sp"]), cfg)
        missing_opts = [x for x in fo_fields if x not in written]
        missing_cfg = [x for x in c_fields if x not in written and x != "no_call_parentheses"]
        rep.inst(f"{f.key} all-FormatOpts-fields-applied", {"fields": fo_fields}, cfg, ok=not missing_opts)
        rep.inst(f"{f.key} all-Config-fields-overridable", {"fields": c_fields}, cfg, ok=not missing_cfg)
        for x in missing_opts:
            rep.violation(f"{f.key} flag-not-applied {x}", f"--{x.replace('_', '-')} is parsed but never applied to the "
                                                            f"configuration", f.loc(), cfg)
        for x in missing_cfg:
            rep.violation(f"{f.key} config-field-not-overridable {x}",
                          f"Config.{x} can be set in stylua.toml but has no command-line override", f.loc(), cfg)
        # path clause: no path returns without having looked at a flag - a path that does not reach the write of field F knows
        # (from a test on that very field) that the flag is absent
        from paths import Enumerator, TooManyPaths
        wblocks = {}
        for bi, fld, o, s_ in writes:
            wblocks.setdefault(fld.split(".")[0], set()).add(bi)
        try:
            pres = Enumerator(f, max_paths=60000).run()
        except TooManyPaths:
            pres = None
            rep.note(f"@{cfg}: load_overrides has too many paths for the skip clause (not evaluated)")
        if pres is not None:
            skipped = {}
            for st in pres:
                trail = set(st.trail)
                absent = set()
                for k, v in st.disc.items():
                    m = re.search(r"\.format_opts\.(\w+)$", k) or re.search(r"\.(\w+)$", k)
                    if m and v in ("None", "false") and m.group(1) in fo_fields:
                        absent.add(m.group(1))
                for cb, dec in st.decisions.items():
                    t = f.blocks[cb]["term"]
                    c = callee(t)
                    if re.search(r"Option::<.*>::is_(none|some)$", c) and t["args"]:
                        for fs2 in _field_paths(f, t["args"][0]):
                            if "format_opts" in fs2 and len(fs2) > fs2.index("format_opts") + 1:
                                if dec == c.endswith("is_none"):
                                    absent.add(fs2[fs2.index("format_opts") + 1])
                    else:
                        # `opt.format_opts.is_empty()`: a helper over the flags; what its answer establishes is read off its paths
                        h = prog.fn("stylua", c)
                        if h is not None and h.locals[0] == "bool" and h.argc == 1 and "FormatOpts" in h.locals[1] and t["args"] and \
                                any([x[1] for x in proj_fields(o2) if x[0] == "f"][-1:] == ["format_opts"] for o2 in _operand_places(f, t["args"][0])):
                            absent |= _helper_absent(h, dec)
                for fld in fo_fields:
                    if fld in written and not (wblocks.get(fld, set()) & trail) and fld not in absent:
                        # the flag may be present on this path (never tested, or tested present) and is not applied
                        tested = any(re.search(r"\." + fld + "$", k) for k in st.disc)
                        if not tested:
                            skipped.setdefault(fld, st)
            rep.inst(f"{f.key} no path returns without looking at every flag", {"paths": len(pres)}, cfg, ok=not skipped)
            for fld, st in sorted(skipped.items()):
                rep.violation(f"{f.key} flag-skipped-on-a-path {fld}",
                              f"load_overrides has a path to its return on which opt.format_opts.{fld} is never tested and "
                              f"new_config.{fld} is not written (an early return decided on other flags): "
                              f"--{fld.replace('_', '-')} given alone is silently ignored, while the same value in stylua.toml "
                              f"or .editorconfig applies", f.loc(), cfg)
        # the function returns new_config which starts as a copy of the `config` parameter
        pr = provenance(f, 0, through=None, into_aggs=False)
        cfg_args = [i for i in range(1, f.argc + 1) if f.locals[i] == "stylua_lib::Config"]
        okr = any(("arg", i) in pr for i in cfg_args)
        rep.inst(f"{f.key} returns-updated-copy-of-config", None, cfg, ok=okr)
        if not okr:
            rep.violation(f"{f.key} does-not-start-from-config", "load_overrides does not start from its `config` "
                                                                 "argument", f.loc(), cfg)
    return rep


def _helper_absent(h, answer):
    """fields of `self: &FormatOpts` known to be None / false on every path of h that returns `answer`"""
    from paths import Enumerator, TooManyPaths
    try:
        res = Enumerator(h, max_paths=20000, summaries=False).run()
    except TooManyPaths:
        return set()
    common = None
    for st in res:
        v0 = st.vals.get(0)
        if not (v0 and v0[0] == "const" and isinstance(v0[1], bool)):
            return set()
        if v0[1] != answer:
            continue
        ab = set()
        for k, v in st.disc.items():
            m = re.match(r"arg:1\.(\w+)$", k)
            if m and v in ("None", "false"):
                ab.add(m.group(1))
        for cb, dec in st.decisions.items():
            t = h.blocks[cb]["term"]
            c = callee(t)
            if re.search(r"Option::<.*>::is_(none|some)$", c) and t["args"] and dec == c.endswith("is_none"):
                for o2 in _operand_places(h, t["args"][0]):
                    fs2 = [x[1] for x in proj_fields(o2) if x[0] == "f"]
                    if o2["l"] == 1 and len(fs2) == 1:
                        ab.add(fs2[0])
        common = ab if common is None else (common & ab)
    return common or set()


def _field_paths(f, o, depth=0):
    """field-name paths (from a parameter or local root) the operand's referent may have, composed through references:
    `_p = &(*opt).format_opts; _q = &(*_p).syntax` gives [.., 'format_opts', 'syntax'] for `_q`"""
    out = []
    if is_const(o) or depth > 8:
        return out
    pl = op_place(o)
    own = [x[1] for x in proj_fields(pl) if x[0] == "f"]
    bases = []
    for bi, si, s in f.defs().get(pl["l"], []):
        if si == "term":
            continue
        rv = s["rv"]
        if rv["k"] in ("ref", "rawptr"):
            bases += _field_paths(f, {"cp": rv["p"]}, depth + 1)
        elif rv["k"] in ("use", "cast") and not is_const(rv["o"]):
            bases += _field_paths(f, rv["o"], depth + 1)
    if not bases:
        return [own]
    return [b + own for b in bases]


def _operand_places(f, o, depth=0):
    """places an operand (a reference, possibly copied) may denote"""
    out = []
    if is_const(o) or depth > 6:
        return out
    pl = op_place(o)
    out.append(pl)
    for bi, si, s in f.defs().get(pl["l"], []):
        if si == "term":
            continue
        rv = s["rv"]
        if rv["k"] in ("ref", "rawptr"):
            out.append(rv["p"])
            out += _operand_places(f, {"cp": rv["p"]}, depth + 1)[1:]
        elif rv["k"] in ("use", "cast") and not is_const(rv["o"]):
            out += _operand_places(f, rv["o"], depth + 1)
    return out


def rule_deny_unknown(ctx, prop):
    rep = Report(prop, "R-CFG(c)", "derived Deserialize of Config and SortRequiresConfig rejects unknown keys and knows "
                                   "exactly the struct's field names")
    for cfg, prog in ctx.programs.items():
        prog = _view(prog)
        for st in ("Config", "SortRequiresConfig"):
            a = prog.adt(st, "stylua_lib")
            fv = [f for f in prog.fns("stylua_lib")
                  if re.search(r"Deserialize<'de> for " + st + r">::deserialize::__FieldVisitor as .*>::visit_str$", f.path)]
            if not rep.anchor(a is not None and len(fv) == 1, f"derived Deserialize field visitor of {st}", cfg):
                continue
            g = fv[0]
            unk = [t for b, t in g.calls() if callee(t).endswith("de::Error>::unknown_field") or
                   callee(t).endswith("::unknown_field")]
            ok = len(unk) >= 1
            rep.inst(f"stylua_lib::{st} deny_unknown_fields", {"visitor": g.key}, cfg, ok=ok)
            if not ok:
                rep.violation(f"stylua_lib::{st} unknown-keys-accepted",
                              f"the derived Deserialize of {st} has no unknown_field error: a misspelt key in "
                              f"stylua.toml is silently ignored", g.loc(), cfg)
            strs = set()
            for b, t in g.calls():
                if callee(t).endswith("::eq"):
                    for x in t["args"]:
                        if is_const(x) and "s" in x:
                            strs.add(x["s"])
            want = {x["name"] for x in a["variants"][0]["fields"]}
            ok = strs == want
            rep.inst(f"stylua_lib::{st} toml-keys = field-names", {"keys": sorted(strs)}, cfg, ok=ok)
            if not ok:
                rep.violation(f"stylua_lib::{st} toml-keys-differ",
                              f"stylua.toml keys {sorted(strs)} differ from {st}'s fields {sorted(want)}", g.loc(), cfg)
        # the option enums: an unknown value is an error, and the accepted spellings are exactly the variant names
        cfg_adt = prog.adt("Config", "stylua_lib")
        cfg_tys = " ".join(x.get("ty", "") for x in cfg_adt["variants"][0]["fields"]) if cfg_adt else ""
        nen = 0
        for g in prog.fns("stylua_lib"):
            m = re.search(r"Deserialize<'de> for (\w+)>::deserialize::__FieldVisitor as .*>::visit_str$", g.path)
            if not m or m.group(1) in ("Config", "SortRequiresConfig"):
                continue
            en = m.group(1)
            a = prog.adt(en, "stylua_lib")
            if a is None or a.get("kind") != "enum" or (cfg_tys and en not in cfg_tys):
                continue
            nen += 1
            unk = [t for b, t in g.calls() if callee(t).endswith("::unknown_variant")]
            strs = {x["s"] for b, t in g.calls() if callee(t).endswith("::eq") for x in t["args"] if is_const(x) and "s" in x}
            want = {v["name"] for v in a["variants"]}
            ok = len(unk) >= 1 and strs == want
            rep.inst(f"stylua_lib::{en} rejects unknown values; spellings = variant names", {"accepted": sorted(strs)}, cfg, ok=ok)
            if not unk:
                rep.violation(f"stylua_lib::{en} unknown-values-accepted",
                              f"the derived Deserialize of {en} has no unknown_variant error (a catch-all such as "
                              f"#[serde(other)]): a misspelt or unsupported value in stylua.toml is silently mapped to some "
                              f"variant instead of being rejected like the same value on the command line", g.loc(), cfg)
            elif strs != want:
                rep.violation(f"stylua_lib::{en} toml-values-differ accepted={sorted(strs)}",
                              f"stylua.toml accepts {sorted(strs)} for {en}, whose variants are {sorted(want)}", g.loc(), cfg)
        rep.floor("option enums with a derived Deserialize", nen, 5, cfg)
        # read_config_file: the toml error is propagated (not defaulted)
        r = prog.fn("stylua", "config::read_config_file")
        if rep.anchor(r is not None, "config::read_config_file", cfg):
            ts = [t for b, t in r.calls() if callee(t).startswith("toml::") and "from_str" in callee(t)]
            bad = [callee(t) for b, t in r.calls() if re.search(r"unwrap_or|ok\(\)$|::ok$|unwrap_or_default", callee(t))]
            ok = len(ts) == 1 and not bad
            rep.inst("stylua::config::read_config_file propagates-toml-errors", None, cfg, ok=ok)
            if not ok:
                rep.violation("stylua::config::read_config_file swallows-errors",
                              f"read_config_file does not propagate deserialisation errors ({bad})", r.loc(), cfg)
    return rep


# EditorConfig mapping: (property enum suffix, variant) -> (config field, expected value description)
EC_TABLE = {
    ("EndOfLine", "Lf"): ("line_endings", ("variant", "LineEndings", "Unix")),
    ("EndOfLine", "Cr"): ("line_endings", ("variant", "LineEndings", "Unix")),
    ("EndOfLine", "CrLf"): ("line_endings", ("variant", "LineEndings", "Windows")),
    ("IndentStyle", "Tabs"): ("indent_type", ("variant", "IndentType", "Tabs")),
    ("IndentStyle", "Spaces"): ("indent_type", ("variant", "IndentType", "Spaces")),
    ("IndentSize", "Value"): ("indent_width", ("payload", "Value", "0")),
    ("MaxLineLen", "Value"): ("column_width", ("payload", "Value", "0")),
    ("MaxLineLen", "Off"): ("column_width", ("const", 18446744073709551615)),
    ("QuoteTypeChoice", "Double"): ("quote_style", ("variant", "QuoteStyle", "AutoPreferDouble")),
    ("QuoteTypeChoice", "Single"): ("quote_style", ("variant", "QuoteStyle", "AutoPreferSingle")),
    ("QuoteTypeChoice", "Auto"): (None, None),
    ("SortRequiresChoice", "True"): ("sort_requires", ("struct", "SortRequiresConfig", "SortRequiresConfig", (("const", True),))),
    ("SortRequiresChoice", "False"): ("sort_requires", ("struct", "SortRequiresConfig", "SortRequiresConfig", (("const", False),))),
}
for _v in ("Always", "NoSingleString", "NoSingleTable", "None"):
    EC_TABLE[("CallParenthesesChoice", _v)] = ("call_parentheses", ("variant", "CallParenType", _v))
for _v in ("Always", "Definitions", "Calls", "Never"):
    EC_TABLE[("SpaceAfterFunctionNamesChoice", _v)] = ("space_after_function_names", ("variant", "SpaceAfterFunctionNames", _v))
for _v in ("Never", "FunctionOnly", "ConditionalOnly", "Always"):
    EC_TABLE[("CollapseSimpleStatementChoice", _v)] = ("collapse_simple_statement", ("variant", "CollapseSimpleStatement", _v))

EC_KEYS = {"QuoteTypeChoice": "quote_type", "CallParenthesesChoice": "call_parentheses",
           "SpaceAfterFunctionNamesChoice": "space_after_function_names",
           "CollapseSimpleStatementChoice": "collapse_simple_statement", "SortRequiresChoice": "sort_requires"}


def rule_editorconfig(ctx, prop):
    import extract
    rep = Report(prop, "R-CFG(d)", ".editorconfig mapping: each property value writes the Config field/value of the "
                                   "documented option; keys and value spellings as documented")
    for cfg, prog in ctx.programs.items():
        prog = _view(prog)
        f = prog.fn("stylua_lib", "editorconfig::load")
        if f is None and cfg == "nodefault":
            rep.note("@nodefault: editorconfig feature not compiled in (no mapping to check)")
            continue
        if not rep.anchor(f is not None, "editorconfig::load", cfg):
            continue
        from inline import inlined, small_helper
        f = inlined(prog, f, small_helper(prog, keep=r"^editorconfig::(parse|properties_of)$|^<", max_blocks=60), depth=1)
        cl = f.names.get("config", {}).get("l")
        writes = field_writes(f, cl)
        seen = set()
        for bi in range(len(f.blocks)):
            if f.blocks[bi]["cleanup"]:
                continue
            si = switch_info(f, bi)
            if not si or si.get("unknown_adt"):
                continue
            en = si["enum"].split("::")[-1]
            if not any(k[0] == en for k in EC_TABLE):
                continue
            alltargets = dict(si["targets"])
            for v in si["otherwise_variants"] or []:
                alltargets[v] = si["otherwise"]
            for v, tb in alltargets.items():
                if (en, v) not in EC_TABLE:
                    if en == "IndentSize" and v == "UseTabWidth":
                        # indent_width <- TabWidth::Value payload
                        ws = [(b, fl, o) for b, fl, o, s in writes if f.dominates(tb, b)]
                        ok = len(ws) == 1 and ws[0][1] == "indent_width" and \
                            any(callee(t).endswith("Properties::get") and "TabWidth" in (t.get("fn") or "")
                                for b2, t in f.calls() if f.dominates(tb, b2))
                        if not ok:
                            # through a helper: TabWidth is read under this arm and the single indent_width write derives from it
                            iw = [(b, o) for b, fl, o, s_ in writes if fl == "indent_width" and o is not None]
                            ok = len(iw) == 1 and any(callee(t).endswith("Properties::get") and "TabWidth" in (t.get("fn") or "")
                                                      and f.dominates(tb, b2) for b2, t in f.calls()) and \
                                any("TabWidth" in (f.blocks[r[2]]["term"].get("fn") or "")
                                    for r in provenance(f, iw[0][1], through=None) if r[0] == "call")
                        seen.add((en, v))
                        rep.inst(f"{f.key} {en}::{v} -> indent_width=tab_width", None, cfg, ok=ok)
                        if not ok:
                            rep.violation(f"{f.key} editorconfig-mapping {en}::{v}",
                                          "indent_size = tab does not take indent_width from tab_width", f.loc(), cfg)
                        continue
                    rep.violation(f"{f.key} editorconfig-unknown-value {en}::{v}",
                                  f"{en}::{v} has no row in the documented mapping table", f.loc(), cfg)
                    continue
                seen.add((en, v))
                wfield, wval = EC_TABLE[(en, v)]
                shared = [vv for vv, bb in alltargets.items() if bb == tb]
                region = f.reach_from(tb, avoid=set(alltargets.values()) - {tb})
                ws = [(b, fl, o) for b, fl, o, s in writes if b in region and f.dominates(tb, b)]
                flow = []
                if not ws:
                    # `config.field = match value { V => X, .. }`: the arm assigns a temporary that is written after the match
                    for wb, wfl, wo, wst in writes:
                        if wo is None or is_const(wo) or op_place(wo).get("p"):
                            continue
                        wdefs = f.defs().get(op_place(wo)["l"], [])
                        if len(wdefs) == 1 and wdefs[0][1] != "term" and wdefs[0][2]["rv"]["k"] == "agg" and \
                                "adt" in wdefs[0][2]["rv"] and wdefs[0][2]["rv"]["ops"] and not f.dominates(tb, wdefs[0][0]):
                            # a struct built after the match from temporaries the arm assigned
                            rvs = wdefs[0][2]["rv"]
                            vals_ = []
                            from_arm = False
                            for x in rvs["ops"]:
                                if is_const(x) or op_place(x).get("p"):
                                    vals_.append(value_desc(f, x))
                                    continue
                                xd = [d for d in f.defs().get(op_place(x)["l"], []) if d[1] != "term" and d[0] in region
                                      and f.dominates(tb, d[0]) and d[2]["rv"]["k"] == "use"]
                                if len(xd) == 1:
                                    from_arm = True
                                vals_.append(value_desc(f, xd[0][2]["rv"]["o"]) if len(xd) == 1 else ("unknown",))
                            if from_arm:
                                flow.append((wfl, ("struct", rvs["adt"].split("::")[-1], rvs["variant"], tuple(vals_))))
                            continue
                        for db_, dsi_, ds_ in wdefs:
                            if dsi_ == "term" or db_ not in region or not f.dominates(tb, db_):
                                continue
                            rv_ = ds_["rv"]
                            if rv_["k"] == "use":
                                d_ = value_desc(f, rv_["o"])
                                # `Auto => config.quote_style`: the field keeps its value
                                if not is_const(rv_["o"]) and op_place(rv_["o"])["l"] == cl and \
                                        ".".join(x[1] for x in proj_fields(op_place(rv_["o"]))) == wfl:
                                    continue
                            elif rv_["k"] == "agg" and "adt" in rv_:
                                d_ = ("variant", rv_["adt"].split("::")[-1], rv_["variant"]) if not rv_["ops"] else \
                                    ("struct", rv_["adt"].split("::")[-1], rv_["variant"], tuple(value_desc(f, x) for x in rv_["ops"]))
                            else:
                                d_ = ("unknown",)
                            flow.append((wfl, d_))
                if wfield is None:
                    ok = not ws and not flow
                    got = [(fl,) for b, fl, o in ws] + [(fl,) for fl, d_ in flow]
                else:
                    got = [(fl, value_desc(f, o) if o is not None else ("agg",)) for b, fl, o in ws] + flow
                    ok = got == [(wfield, wval)]
                if not ok and en == "IndentSize" and v == "Value":
                    # the width may travel through an Option-returning helper: the only write of indent_width takes a value
                    # that derives from the IndentSize property
                    iw = [(b, o) for b, fl, o, s_ in writes if fl == "indent_width" and o is not None]
                    ok = len(iw) == 1 and any("IndentSize" in (f.blocks[r[2]]["term"].get("fn") or "")
                                              for r in provenance(f, iw[0][1], through=None) if r[0] == "call")
                rep.inst(f"{f.key} {en}::{v} -> {wfield}={wval}", {"property": f"{en}::{v}", "writes": str(got)},
                         cfg, ok=ok)
                if not ok:
                    rep.violation(f"{f.key} editorconfig-mapping {en}::{v}",
                                  f".editorconfig value {en}::{v} writes {got}, documented meaning is "
                                  f"{wfield} = {wval}", f.loc(), cfg, {"got": str(got), "want": str((wfield, wval))})
        missing = [k for k in EC_TABLE if k not in seen]
        rep.inst(f"{f.key} all-documented-values-handled", {"rows": len(EC_TABLE)}, cfg, ok=not missing)
        for k in missing:
            rep.violation(f"{f.key} editorconfig-value-not-handled {k[0]}::{k[1]}",
                          f"the documented .editorconfig value {k[0]}::{k[1]} is not handled by editorconfig::load",
                          f.loc(), cfg)
        # keys and value spellings of the custom properties
        for en, key in EC_KEYS.items():
            kf = [g for g in prog.fns("stylua_lib") if g.path == f"<editorconfig::{en} as ec4rs::PropertyKey>::key"]
            pf = [g for g in prog.fns("stylua_lib") if g.path == f"<editorconfig::{en} as ec4rs::PropertyValue>::parse"]
            if not rep.anchor(len(kf) == 1 and len(pf) == 1, f"PropertyKey/PropertyValue impls of {en}", cfg):
                continue
            ks = [s["rv"]["o"].get("s") for b, si_, s in kf[0].stmts()
                  if s["k"] == "assign" and s["rv"]["k"] == "use" and is_const(s["rv"]["o"]) and "s" in s["rv"]["o"]]
            ok = ks == [key]
            rep.inst(f"stylua_lib::editorconfig::{en} key={key}", {"found": ks}, cfg, ok=ok)
            if not ok:
                rep.violation(f"stylua_lib::editorconfig::{en} key", f".editorconfig key of {en} is {ks}, documented "
                                                                     f"`{key}`", kf[0].loc(), cfg)
            # parse: string -> variant with lower(variant) == string
            g = pf[0]
            pairs = {}
            for b, t in g.calls():
                if callee(t).endswith("::eq") or "PartialEq" in callee(t):
                    strs = [x["s"] for x in t["args"] if is_const(x) and "s" in x]
                    e = bool_edge(g, b)
                    if strs and e:
                        made = None
                        for bb in g.reach_from(e[0]):
                            for s in g.blocks[bb]["st"]:
                                if s["k"] == "assign" and s["rv"]["k"] == "agg" and s["rv"].get("adt", "").endswith(en):
                                    made = s["rv"]["variant"]
                            if made:
                                break
                        pairs[strs[0]] = made
            a = prog.adt(f"editorconfig::{en}", "stylua_lib")
            want = {v["name"].lower(): v["name"] for v in a["variants"]} if a else {}
            ok = pairs == want
            rep.inst(f"stylua_lib::editorconfig::{en} value-spellings", {"found": pairs}, cfg, ok=ok)
            if not ok:
                rep.violation(f"stylua_lib::editorconfig::{en} value-spellings",
                              f"{en}::parse maps {pairs}, expected {want}", g.loc(), cfg)
        # parse() applies load() to the config it was given and returns it
        p = prog.fn("stylua_lib", "editorconfig::parse")
        if rep.anchor(p is not None, "editorconfig::parse", cfg):
            lc = [t for b, t in p.calls() if callee(t) == "editorconfig::load"]
            ok = len(lc) == 1 and ("arg", p.names.get("config", {}).get("l")) in provenance(p, lc[0]["args"][0], through=None)
            rep.inst("stylua_lib::editorconfig::parse load(config, ..)", None, cfg, ok=ok)
            if not ok:
                rep.violation("stylua_lib::editorconfig::parse does-not-load-into-config",
                              "editorconfig::parse does not apply load() to the configuration it was given", p.loc(), cfg)
    return rep


RAW_PRODUCERS = re.compile(r"^(toml::.*from_str|toml::de::from_str|config::read_config_file|stylua_lib::editorconfig::parse|"
                           r"stylua_lib::editorconfig::load|<stylua_lib::Config as std::default::Default>::default|"
                           r"stylua_lib::Config::new|stylua_lib::Config::with_.*)")
MAPPERS = re.compile(r"::map$|::and_then$|::map_or$|::map_or_else$|::or_else$")


def config_producers(prog, fn, x, depth=0):
    """terminal producers of the Config value in operand x: set of ('call', callee) | ('field', name) | ('arg', n) ...
    `Result::map(v, closure)` is replaced by the closure's own producers (with its parameter mapped back to v)."""
    out = set()
    through = re.compile(PROV_THROUGH.pattern + r"|::transpose$")
    roots = provenance(fn, x, through=through)
    for r in roots:
        if r[0] == "call":
            c = r[1]
            if MAPPERS.search(c) and depth < 4:
                t = fn.blocks[r[2]]["term"]
                clos = None
                if len(t["args"]) >= 2:
                    for rr in provenance(fn, t["args"][1], through=None, into_aggs=False):
                        if rr[0] == "agg" and rr[1].startswith("closure "):
                            clos = prog.fn(fn.crate, rr[1][len("closure "):])
                        if rr[0] == "const" and rr[1].startswith("fn:"):
                            out.add(("call", rr[1][3:]))
                if clos is not None:
                    sub = config_producers(prog, clos, 0, depth + 1)
                    for s in sub:
                        if s[0] == "arg" and s[1] >= 2:
                            out |= config_producers(prog, fn, t["args"][0], depth + 1)
                        elif s[0] in ("arg", "upvar"):
                            continue
                        else:
                            out.add(s)
                elif not any(rr[0] == "const" and rr[1].startswith("fn:") for rr in
                             provenance(fn, t["args"][1], through=None, into_aggs=False)):
                    out |= config_producers(prog, fn, t["args"][0], depth + 1)
            else:
                out.add(("call", c))
        elif r[0] == "arg":
            out.add(r)
        elif r[0] == "upvar":
            out.add(r)
    # field-sensitive roots: copies out of self.<field>
    return out


def self_field_reads(fn, x):
    """names of fields of `self` (arg 1) that flow into operand/local x (through copies and pass-through calls)."""
    fields = set()
    seen = set()

    def visit_local(l):
        if l in seen:
            return
        seen.add(l)
        for bi, si, s in fn.defs().get(l, []):
            if si == "term":
                if PROV_THROUGH.search(callee(s)) and s["args"]:
                    visit_op(s["args"][0])
            else:
                rv = s["rv"]
                if rv["k"] in ("use", "cast"):
                    visit_op(rv["o"])
                elif rv["k"] in ("ref", "discr"):
                    visit_place(rv["p"])
                elif rv["k"] == "agg":
                    for o in rv["ops"]:
                        visit_op(o)

    def visit_place(p):
        fs = [x[1] for x in proj_fields(p) if x[0] == "f"]
        if p["l"] == 1 and fs:
            fields.add(fs[0])
            return
        visit_local(p["l"])

    def visit_op(o):
        if o is None or is_const(o):
            return
        visit_place(op_place(o))

    if isinstance(x, int):
        visit_local(x)
    else:
        visit_op(x)
    return fields


def rule_override_last(ctx, prop):
    rep = Report(prop, "R-CFG(e)", "override-last: every Config that leaves the resolver was produced by load_overrides "
                                   "(directly, through a cache/field filled from it) with no other Config-transforming "
                                   "call applied afterwards")
    OK_CALLS = re.compile(r"^(config::load_overrides|config::read_and_apply_overrides|"
                          r"config::ConfigResolver::<'_>::(find_config_file|lookup_config_file_in_directory|"
                          r"search_config_locations|load_configuration)|"
                          r"std::collections::HashMap::<K, V, S, A>::get|std::option::Option::<T>::transpose|"
                          r"std::env::current_dir|std::collections::HashMap::<K, V>::new)$")
    OK_FIELDS = {"forced_configuration", "default_configuration", "config_cache", "opt", "current_directory"}
    for cfg, prog in ctx.programs.items():
        prog = _view(prog)
        fns = [f for f in prog.fns("stylua") if f.path.startswith("config::") and
               ("stylua_lib::Config" in f.locals[0]) and f.kind != "Closure"]
        rep.floor("resolver functions returning a Config", len(fns), 7, cfg)
        for f in fns:
            if f.path in ("config::read_config_file", "config::load_overrides"):
                continue
            prods = config_producers(prog, f, 0)
            fields = self_field_reads(f, 0) if "ConfigResolver" in (f.locals[1] if f.argc else "") else set()
            bad = sorted(c for k, c, *_ in [p + (None,) for p in prods] if k == "call" and not OK_CALLS.search(c)
                         and not re.search(r"anyhow::|Result::<T, F>::from_residual|from_residual|PathBuf|Path::|"
                                           r"std::env::|ToOwned|HashMap", c))
            raw = [c for c in bad if RAW_PRODUCERS.search(c)]
            other = [c for c in bad if not RAW_PRODUCERS.search(c)]
            okf = fields <= OK_FIELDS
            ok = not raw and not other and okf
            rep.inst(f"{f.key} returned-config-producers", {"fn": f.key, "producers": sorted(c for k, c, *_ in
                                                                                       [p + (None,) for p in prods] if k == "call"),
                                                            "self_fields": sorted(fields)}, cfg, ok=ok)
            for c in raw:
                rep.violation(f"{f.key} config-not-overridden-last producer={c}",
                              f"{f.path} can return a Config whose last transformation is {c}, not load_overrides: "
                              f"command-line format options do not override it", f.loc(), cfg, {"producers": sorted(map(str, prods))})
            for c in other:
                rep.violation(f"{f.key} unknown-config-producer producer={c}",
                              f"{f.path} returns a Config produced by {c}, which is not in the override-closed set "
                              f"(fail closed)", f.loc(), cfg)
            if not okf:
                rep.violation(f"{f.key} config-from-unexpected-field {sorted(fields - OK_FIELDS)}",
                              "a Config is taken from an unexpected resolver field", f.loc(), cfg)
        # fields and cache are filled from override-closed producers
        n = prog.fn("stylua", "config::ConfigResolver::<'_>::new")
        if rep.anchor(n is not None, "ConfigResolver::new", cfg):
            for b, si_, s in n.stmts():
                if s["k"] == "assign" and s["rv"]["k"] == "agg" and s["rv"].get("adt", "").endswith("ConfigResolver"):
                    a = prog.adt("config::ConfigResolver", "stylua")
                    names = [x["name"] for x in a["variants"][0]["fields"]]
                    for nm, o in zip(names, s["rv"]["ops"]):
                        if nm not in ("forced_configuration", "default_configuration"):
                            continue
                        prods = config_producers(prog, n, o)
                        calls = {c for k, c, *_ in [p + (None,) for p in prods] if k == "call"}
                        raw = [c for c in calls if RAW_PRODUCERS.search(c)]
                        good = any(c in ("config::load_overrides", "config::read_and_apply_overrides") for c in calls)
                        # Config::default() is fine as the *input* of load_overrides: provenance goes through
                        # load_overrides's argument only if load_overrides is a pass-through, which it is not
                        ok = good and not raw
                        rep.inst(f"{n.key} field {nm} override-closed", {"producers": sorted(calls)}, cfg, ok=ok)
                        if not ok:
                            rep.violation(f"{n.key} field-not-override-closed {nm}",
                                          f"ConfigResolver.{nm} is initialised from {sorted(calls)} without "
                                          f"load_overrides being applied last", n.loc(s["sp"]), cfg)
        fc = prog.fn("stylua", "config::ConfigResolver::<'_>::find_config_file")
        if rep.anchor(fc is not None, "find_config_file", cfg):
            ins = [t for b, t in fc.calls() if callee(t).endswith("::insert") and "HashMap" in callee(t)]
            for t in ins:
                prods = config_producers(prog, fc, t["args"][2])
                calls = {c for k, c, *_ in [p + (None,) for p in prods] if k == "call"}
                raw = [c for c in calls if RAW_PRODUCERS.search(c)]
                ok = not raw and bool(calls)
                rep.inst(f"{fc.key} cache-insert override-closed", {"producers": sorted(calls)}, cfg, ok=ok)
                if not ok:
                    rep.violation(f"{fc.key} cache-filled-with-raw-config",
                                  f"config_cache receives a Config from {sorted(calls)}", fc.loc(), cfg)
        ra = prog.fn("stylua", "config::read_and_apply_overrides")
        if rep.anchor(ra is not None, "read_and_apply_overrides", cfg):
            prods = config_producers(prog, ra, 0)
            calls = {c for k, c, *_ in [p + (None,) for p in prods] if k == "call"}
            ok = "config::load_overrides" in calls and not [c for c in calls if RAW_PRODUCERS.search(c)]
            rep.inst(f"{ra.key} = read_config_file . load_overrides", {"producers": sorted(calls)}, cfg, ok=ok)
            if not ok:
                rep.violation(f"{ra.key} overrides-not-applied",
                              f"read_and_apply_overrides returns a Config produced by {sorted(calls)}", ra.loc(), cfg)
        # read_config_file is only reachable through read_and_apply_overrides
        callers = {g.path for g, b, t in call_sites(prog, r"^config::read_config_file$", "stylua")} | \
                  {g.path for g, b, o in fn_refs(prog, r"^config::read_config_file$", "stylua")}
        ok = callers <= {"config::read_and_apply_overrides"} and callers
        rep.inst("stylua::config::read_config_file callers", {"callers": sorted(callers)}, cfg, ok=bool(ok))
        if not ok:
            rep.violation("stylua::config::read_config_file unexpected-caller",
                          f"read_config_file is called from {sorted(callers)}: a configuration file can be loaded "
                          f"without the command-line overrides", None, cfg)
    return rep


def rule_search(ctx, prop):
    rep = Report(prop, "R-CFG(f)", "search wiring: forced configuration first; file names stylua.toml then .stylua.toml; "
                                   "--no-editorconfig guards the editorconfig call")
    for cfg, prog in ctx.programs.items():
        prog = _view(prog)
        import extract
        # CONFIG_FILE_NAME constant
        st = prog.fn("stylua", "config::CONFIG_FILE_NAME")
        if rep.anchor(st is not None, "static CONFIG_FILE_NAME", cfg):
            names = []
            for b, si_, s in st.stmts():
                if s["k"] == "assign" and s["rv"]["k"] == "agg" and "array" in s["rv"]:
                    for o in s["rv"]["ops"]:
                        if is_const(o) and "s" in o:
                            names.append(o["s"])
                        else:
                            for r in provenance(st, o, through=None):
                                if r[0] == "const" and r[1].startswith("s:"):
                                    names.append(r[1][2:])
            ok = names == ["stylua.toml", ".stylua.toml"]
            rep.inst("stylua::config::CONFIG_FILE_NAME", {"names": names}, cfg, ok=ok)
            if not ok:
                rep.violation("stylua::config::CONFIG_FILE_NAME names",
                              f"configuration file names searched are {names}, documented: stylua.toml, .stylua.toml",
                              st.loc(), cfg)
        for fn_name in ("config::ConfigResolver::<'_>::load_configuration",
                        "config::ConfigResolver::<'_>::load_configuration_for_stdin"):
            f = prog.fn("stylua", fn_name)
            if not rep.anchor(f is not None, fn_name, cfg):
                continue
            # first switch is on self.forced_configuration; Some edge returns it without any call
            si = switch_info(f, 0)
            ok = False
            if si and si["enum"].endswith("option::Option"):
                fs = [x[1] for x in proj_fields(si["place"]) if x[0] == "f"]
                sb = si["targets"].get("Some")
                if fs[:1] == ["forced_configuration"] and sb is not None:
                    region = f.reach_from(sb)
                    calls = [callee(f.blocks[b]["term"]) for b in region if f.blocks[b]["term"]["k"] == "call"]
                    ok = not calls
            rep.inst(f"{f.key} forced-configuration-first", None, cfg, ok=ok)
            if not ok:
                rep.violation(f"{f.key} forced-config-not-first",
                              "--config-path is not tested first / does not short-circuit the search", f.loc(), cfg)
            # editorconfig::parse call guarded by !opt.no_editorconfig
            ecs = [(b, t) for b, t in f.calls() if callee(t) == "stylua_lib::editorconfig::parse"]
            if "nodefault" == cfg:
                continue
            if fn_name.endswith("load_configuration") or ecs:
                if rep.anchor(len(ecs) == 1, f"editorconfig::parse call in {fn_name}", cfg):
                    from r_cli import field_switches
                    sw = field_switches(f, "no_editorconfig")
                    ok = any(fl is not None and f.dominates(fl, ecs[0][0]) and ecs[0][0] not in f.reach_from(tr)
                             for _, tr, fl, _ in sw)
                    rep.inst(f"{f.key} editorconfig-behind-not-no_editorconfig", None, cfg, ok=ok)
                    if not ok:
                        rep.violation(f"{f.key} editorconfig-not-guarded",
                                      "editorconfig::parse is not guarded by `!opt.no_editorconfig`", f.loc(ecs[0][1]["sp"]), cfg)
                    # and only on the None edge of find_config_file's result
                    okn = False
                    for sbk in f.dominators().get(ecs[0][0], ()):
                        s2 = switch_info(f, sbk)
                        if s2 and s2["enum"].endswith("option::Option") and s2["targets"].get("None") is not None:
                            pr = provenance(f, s2["place"])
                            if any(c.endswith("find_config_file") for c in prov_calls(pr)) and \
                                    f.dominates(s2["targets"]["None"], ecs[0][0]):
                                okn = True
                    rep.inst(f"{f.key} editorconfig-only-if-no-config-file", None, cfg, ok=okn)
                    if not okn:
                        rep.violation(f"{f.key} editorconfig-overrides-config-file",
                                      ".editorconfig is consulted even when a stylua.toml was found", f.loc(ecs[0][1]["sp"]), cfg)
    return rep


FS_RESOLVING = re.compile(r"(^|::)fs::|canonicalize|read_link|metadata|(^|::)env::|absolutize|normalize|realpath|dunce")


def _deep_calls(f, o, depth=0, seen=None):
    """all calls a value derives from, following the receiver (first argument) of every call"""
    seen = set() if seen is None else seen
    out = set()
    if depth > 12:
        return out
    for r in provenance(f, o, through=None):
        if r[0] == "call" and r[2] not in seen:
            seen.add(r[2])
            out.add(r[1])
            t = f.blocks[r[2]]["term"]
            for a in t["args"][:1]:
                out |= _deep_calls(f, a, depth + 1, seen)
    return out


def rule_search_start(ctx, prop):
    """the directory the upward search starts in is the lexical parent of `current_directory.join(path)`"""
    rep = Report(prop, "R-CFG(i)", "the upward search for a configuration file starts in the lexical parent directory of "
                                   "current_directory.join(path): no file-system dependent resolution (symlinks) of the path")
    for cfg, prog in ctx.programs.items():
        prog = _view(prog)
        n = 0
        for f in prog.fns("stylua"):
            if not re.search(r"^config::ConfigResolver::<'_>::load_configuration(_for_stdin)?$", f.path):
                continue
            for b, t in f.calls():
                if not callee(t).endswith("find_config_file"):
                    continue
                n += 1
                calls = sorted(_deep_calls(f, t["args"][1]))
                denied = [c for c in calls if FS_RESOLVING.search(c)]
                if f.path.endswith("load_configuration"):
                    pos = any(c.endswith("Path::join") for c in calls) and any(c.endswith("Path::parent") for c in calls)
                else:
                    pos = True     # stdin without a file path: the current directory itself
                ok = pos and not denied
                # the root (where the upward walk stops) is the resolver's own answer for the option, in file mode and
                # in stdin mode alike
                rcalls = sorted(_deep_calls(f, t["args"][2])) if len(t["args"]) > 2 else []
                rok = any(c.endswith("get_configuration_search_root") for c in rcalls)
                rep.inst(f"{f.key} search root = get_configuration_search_root()", {"root_from": [c.split("::")[-1] for c in rcalls]}, cfg, ok=rok)
                if not rok:
                    rep.violation(f"{f.key} search-root-not-from-option",
                                  f"{f.path} hands find_config_file a search root that is not get_configuration_search_root() "
                                  f"(derived through {[c.split('::')[-1] for c in rcalls] or 'a local value'}): "
                                  f"--search-parent-directories is ignored (or always on) on this path, so stdin and file mode "
                                  f"resolve different configurations for the same directory", f.loc(t["sp"]), cfg)
                rep.inst(f"{f.key} search starts at parent(cwd.join(path))", {"derived_through": [c.split("::")[-1] for c in calls]}, cfg, ok=ok)
                if not ok:
                    what = f"resolved-through {','.join(c.split('::')[-1] for c in denied)}" if denied else "not-parent-of-joined-path"
                    rep.violation(f"{f.key} search-start-directory {what}",
                                  f"{f.path} starts the configuration search in a directory {what.replace('-', ' ')} instead of "
                                  f"the lexical parent of current_directory.join(path): for a symlinked file or directory the "
                                  f"walk leaves the project (and never meets the working-directory stop), so another "
                                  f"stylua.toml is applied", f.loc(t["sp"]), cfg)
        rep.floor("find_config_file call sites", n, 2, cfg)
    return rep


def rule_walkup(ctx, prop):
    rep = Report(prop, "R-CFG(g)", "upward search shape: root is the cwd unless --search-parent-directories; a directory is "
                                   "looked up before its parent; the walk stops at the root / file-system root; the XDG/HOME "
                                   "fallback only with --search-parent-directories; stdin uses --stdin-filepath or the cwd")
    for cfg, prog in ctx.programs.items():
        prog = _view(prog)
        from paths import Enumerator, TooManyPaths, access_path, path_key
        g = prog.fn("stylua", "config::ConfigResolver::<'_>::get_configuration_search_root")
        if rep.anchor(g is not None, "get_configuration_search_root", cfg):
            res = Enumerator(g).run()
            table = {}
            for st in res:
                k = [kk for kk in st.disc if kk.endswith("search_parent_directories")]
                v = st.vals.get(0)
                out = v[2] if v and v[0] in ("agg", "variant") else "?"
                src = None
                if out == "Some":
                    pr = provenance(g, 0)
                    # the payload comes from self.current_directory
                    src = "current_directory" in {x for b, si_, s in g.stmts() if s["k"] == "assign" and s["rv"]["k"] == "ref"
                                                  for x in [f_[1] for f_ in proj_fields(s["rv"]["p"])]}
                table[st.disc.get(k[0]) if k else None] = (out, src)
            ok = table.get("true", ("?",))[0] == "None" and table.get("false") == ("Some", True)
            rep.inst(f"{g.key} search-root table", {"table": {str(k): str(v) for k, v in table.items()}}, cfg, ok=ok)
            if not ok:
                rep.violation(f"{g.key} search-root-table {sorted((str(k), str(v)) for k, v in table.items())}",
                              "the search root is not (None with --search-parent-directories, Some(cwd) otherwise): the "
                              "upward search is no longer bounded by the working directory", g.loc(), cfg)
        f = prog.fn("stylua", "config::ConfigResolver::<'_>::find_config_file")
        if rep.anchor(f is not None, "find_config_file", cfg):
            look = [b for b, t in f.calls() if callee(t).endswith("lookup_config_file_in_directory")]
            rec = [(b, t) for b, t in f.calls() if callee(t).endswith("::find_config_file")]
            xdg = [b for b, t in f.calls() if callee(t).endswith("search_config_locations")]
            eqs = [(b, t) for b, t in f.calls() if re.search(r"PartialEq>?::(eq|ne)$", callee(t)) and "Option<&std::path::Path>" in (t.get("fn") or "")]
            eq_negated = bool(eqs) and callee(eqs[0][1]).endswith("::ne")      # `Some(directory) != root`: the same test, read inverted
            isn = [(b, t) for b, t in f.calls() if callee(t).endswith("Option::<T>::is_none")]
            shape_ok = rep.anchor(len(look) == 1 and len(rec) == 1 and len(xdg) == 1,
                                  f"find_config_file shape (lookup={len(look)} rec={len(rec)} xdg={len(xdg)})", cfg)
            if shape_ok and not (len(eqs) == 1):
                # the stop test is not `Some(directory) == root || parent.is_none()`: say what decides instead
                deciding = sorted({callee(t).split("::")[-1] for b, t in f.calls()
                                   if f.local_ty(t["dst"]["l"]) == "bool" and bool_edge(f, b) is not None
                                   and not span_macros(t.get("sp"))})
                rep.inst(f"{f.key} stops-at-root-or-fs-root", {"deciding_calls": deciding}, cfg, ok=False)
                rep.violation(f"{f.key} stop-condition decided-by={deciding}",
                              f"the upward walk of find_config_file is no longer stopped by `Some(directory) == root || "
                              f"parent.is_none()` (equality tests with the root: {len(eqs)}, is_none tests: {len(isn)}; the "
                              f"branch is decided by {deciding}): for a directory that is not below the search root a "
                              f"different test stops the walk early or never", f.loc(), cfg)
                shape_ok = False
            if shape_ok:
                # the directory itself is looked up before anything else, with the directory parameter
                dl = f.names.get("directory", {}).get("l")
                ok = f.dominates(look[0], rec[0][0]) and f.dominates(look[0], xdg[0]) and \
                    ("arg", dl) in provenance(f, f.blocks[look[0]]["term"]["args"][1], through=None)
                rep.inst(f"{f.key} own-directory-looked-up-first", None, cfg, ok=ok)
                if not ok:
                    rep.violation(f"{f.key} lookup-order", "the directory itself is not looked up before its parent / the "
                                                           "fallback locations: the nearest configuration file does not win",
                                  f.loc(), cfg)
                # stop test as a path table: the walk recurses exactly when `Some(directory) == root` is false *and* a parent
                # exists (whatever the spelling: `x || parent.is_none()`, `parent.filter(|_| !is_root)`, a match, ..)
                from paths import Enumerator, TooManyPaths
                ok = False
                try:
                    pres = Enumerator(f, summaries=False, max_paths=60000).run()
                except TooManyPaths:
                    pres = None
                    rep.anchor(False, "find_config_file: too many paths", cfg)
                if pres is not None:
                    eb = eqs[0][0]
                    rb = rec[0][0]
                    parentish = {b_ for b_, t_ in f.calls() if re.search(r"Path::parent$|Option::<.*>::filter$|Option::<.*>::is_none$|Option::<.*>::is_some$", callee(t_))}
                    rows = set()
                    for st in pres:
                        if not any(b_ == look[0] for b_, c_, t_ in st.calls):
                            continue
                        lk = st.disc.get(f"call:{look[0]}")
                        # only paths on which the directory's own lookup found nothing decide about walking up
                        found_cfg = any(v == "Some" for k, v in st.disc.items() if k.startswith(f"call:{look[0]}") or
                                        "lookup" in k)
                        recursed = any(b_ == rb for b_, c_, t_ in st.calls)
                        eqv = st.decisions.get(eb)
                        if eq_negated and eqv is not None:
                            eqv = not eqv
                        psides = set()
                        for k, v in st.disc.items():
                            if k.startswith("call:") and "." not in k and int(k[5:]) in parentish and v in ("Some", "None"):
                                psides.add(v)
                        for b_, d_ in st.decisions.items():
                            c_ = callee(f.blocks[b_]["term"])
                            if c_.endswith("::is_none") and b_ in parentish:
                                psides.add("None" if d_ else "Some")
                            if c_.endswith("::is_some") and b_ in parentish:
                                psides.add("Some" if d_ else "None")
                        rows.add((recursed, eqv, tuple(sorted(psides))))
                    bad_rows = []
                    seen_rec = seen_stop_root = seen_stop_fs = False
                    for recursed, eqv, ps in rows:
                        if recursed:
                            seen_rec = True
                            if eqv is not False or "None" in ps and "Some" not in ps:
                                bad_rows.append((recursed, eqv, ps))
                        else:
                            if eqv is True:
                                seen_stop_root = True
                            if "None" in ps:
                                seen_stop_fs = True
                    ok = not bad_rows and seen_rec and seen_stop_root and seen_stop_fs
                # operands of the equality: directory and root
                a0 = provenance(f, eqs[0][1]["args"][0])
                a1 = provenance(f, eqs[0][1]["args"][1])
                rl = f.names.get("root", {}).get("l")
                ok_ops = (("arg", dl) in a0 and ("arg", rl) in a1) or (("arg", dl) in a1 and ("arg", rl) in a0)
                rep.inst(f"{f.key} stops-at-root-or-fs-root", None, cfg, ok=bool(ok and ok_ops))
                if not (ok and ok_ops):
                    rep.violation(f"{f.key} stop-condition", "the upward walk is not stopped by `Some(directory) == root || "
                                                             "parent.is_none()`", f.loc(), cfg)
                # recursion goes to the parent with the same root
                rt = rec[0][1]
                pa = prov_calls(provenance(f, rt["args"][1], through=re.compile(PROV_THROUGH.pattern + r"|Option::<.*>::filter$")))
                ok = "std::path::Path::parent" in pa and ("arg", rl) in provenance(f, rt["args"][2])
                rep.inst(f"{f.key} recurses-into-parent-with-same-root", None, cfg, ok=ok)
                if not ok:
                    rep.violation(f"{f.key} recursion-arguments", "the recursive search does not go to `directory.parent()` "
                                                                  "with the same root", f.loc(rt["sp"]), cfg)
                # XDG/HOME only with --search-parent-directories
                from r_cli import field_switches
                sw = field_switches(f, "search_parent_directories")
                ok = any(f.dominates(tr, xdg[0]) and (fl is None or xdg[0] not in f.reach_from(fl, avoid={look[0]}))
                         for _, tr, fl, _ in sw)
                rep.inst(f"{f.key} fallback-locations-only-with-search-parent-directories", None, cfg, ok=ok)
                if not ok:
                    rep.violation(f"{f.key} fallback-not-gated", "XDG/HOME configuration locations are consulted without "
                                                                 "--search-parent-directories", f.loc(), cfg)
        # find_toml_file iterates CONFIG_FILE_NAME in order and returns the first existing
        t_ = prog.fn("stylua", "config::find_toml_file")
        if rep.anchor(t_ is not None, "find_toml_file", cfg):
            members = [t_] + [h for h in prog.fns("stylua") if h.path.startswith("config::find_toml_file::{closure")]
            uses_static = any(is_const(s["rv"]["o"]) and s["rv"]["o"].get("static") == "config::CONFIG_FILE_NAME"
                              for h in members for b, si_, s in h.stmts() if s["k"] == "assign" and s["rv"]["k"] == "use")
            allcalls = [callee(t) for h in members for b, t in h.calls()]
            joins = [c for c in allcalls if c.endswith("Path::join")]
            exists = [c for c in allcalls if c.endswith("Path::exists") or c.endswith("Path::is_file")]
            rev = [c for c in allcalls if re.search(r"::rev$|::rposition$|::rfind$|::last$|::max\w*$|::min\w*$", c)]
            ok = uses_static and len(joins) >= 1 and len(exists) >= 1 and not rev
            rep.inst("stylua::config::find_toml_file first-existing-name-in-order", None, cfg, ok=ok)
            if not ok:
                rep.violation("stylua::config::find_toml_file shape", "find_toml_file no longer returns the first existing "
                                                                      "name of CONFIG_FILE_NAME in order", t_.loc(), cfg)
        # stdin: Some(filepath) -> load_configuration(filepath); None -> find_config_file(current_directory)
        s_ = prog.fn("stylua", "config::ConfigResolver::<'_>::load_configuration_for_stdin")
        if rep.anchor(s_ is not None, "load_configuration_for_stdin", cfg):
            ok1 = ok2 = False
            for bi in range(len(s_.blocks)):
                si = switch_info(s_, bi)
                if si and si["enum"].endswith("option::Option") and \
                        access_path(s_, si["place"])[1][-1:] == (("f", "stdin_filepath"),):
                    sb, nb = si["targets"].get("Some"), si["targets"].get("None", si["otherwise"])
                    for b, t in s_.calls():
                        if callee(t).endswith("::load_configuration") and sb is not None and s_.dominates(sb, b):
                            ap = access_path(s_, t["args"][1])
                            ok1 = any(st == ("f", "stdin_filepath") for st in ap[1])
                        if callee(t).endswith("::find_config_file") and nb is not None and s_.dominates(nb, b):
                            pr = provenance(s_, t["args"][1])
                            ok2 = any(callee(tt).endswith("to_owned") or True for _, tt in s_.calls()) and \
                                "current_directory" in str([proj_fields(s2["rv"]["p"]) for b2, si2, s2 in s_.stmts()
                                                            if s2["k"] == "assign" and s2["rv"]["k"] == "ref"])
            rep.inst(f"{s_.key} stdin-filepath-or-cwd", None, cfg, ok=ok1 and ok2)
            if not (ok1 and ok2):
                rep.violation(f"{s_.key} stdin-config-root", "stdin does not use --stdin-filepath (when given) / the working "
                                                             "directory (otherwise) to find its configuration", s_.loc(), cfg)
    return rep


def rule_fallback_locations(ctx, prop):
    """R-CFG(h): the XDG / HOME fallback only gives up after the HOME locations were tried."""
    from paths import Enumerator, TooManyPaths
    rep = Report(prop, "R-CFG(h)", "search_config_locations: a path that does not return a found configuration has consulted "
                                   "$HOME (after $XDG_CONFIG_HOME): an existing but empty $XDG_CONFIG_HOME does not end the search")
    for cfg, prog in ctx.programs.items():
        prog = _view(prog)
        f = prog.fn("stylua", "config::ConfigResolver::<'_>::search_config_locations")
        if not rep.anchor(f is not None, "search_config_locations", cfg):
            continue
        envs = {}
        for b, t in f.calls():
            if callee(t).endswith("std::env::var") or callee(t).endswith("env::var"):
                names = [r[1][2:] for r in provenance(f, t["args"][0], through=None) if r[0] == "const" and r[1].startswith("s:")]
                if names:
                    envs[b] = names[0]
        if not rep.anchor(set(envs.values()) == {"XDG_CONFIG_HOME", "HOME"}, f"env lookups of search_config_locations ({sorted(envs.values())})", cfg):
            continue
        try:
            res = Enumerator(f, summaries=False, max_paths=60000).run()
        except TooManyPaths:
            rep.anchor(False, "search_config_locations: too many paths", cfg)
            continue
        n = 0
        bad = set()
        for st in res:
            v0 = st.vals.get(0)
            found = False
            if v0 and v0[0] == "agg" and v0[2] == "Ok":
                # Ok(Some(..)) ?  the payload aggregate is an Option::Some built on this path
                for bb in st.trail:
                    for s_ in f.blocks[bb]["st"]:
                        if s_["k"] == "assign" and s_["rv"]["k"] == "agg" and s_["rv"].get("variant") == "Some" and \
                                s_["rv"].get("adt", "").endswith("option::Option") and "Config" in f.local_ty(s_["dst"]["l"]):
                            found = True
            errp = any(c.endswith("from_residual") for _, c, _ in st.calls)
            if found or errp:
                continue
            n += 1
            visited = {envs[b] for b, c, t in st.calls if b in envs}
            order = [envs[b] for b, c, t in st.calls if b in envs]
            ok = "HOME" in visited and (order.index("XDG_CONFIG_HOME") < order.index("HOME") if "XDG_CONFIG_HOME" in order else False)
            if not ok:
                bad.add(tuple(order))
        rep.inst(f"{f.key} gives up only after $XDG_CONFIG_HOME and then $HOME were consulted", {"giving-up paths": n}, cfg, ok=not bad and n > 0)
        for order in sorted(bad)[:2]:
            rep.violation(f"{f.key} gives-up-before-HOME consulted={list(order)}",
                          f"search_config_locations can return without a configuration after consulting only {list(order)}: "
                          f"with an existing $XDG_CONFIG_HOME that holds no stylua.toml the documented $HOME/.config and "
                          f"$HOME/.config/stylua locations are never tried", f.loc(), cfg)
        rep.floor("paths of search_config_locations that give up", n, 1, cfg)
    return rep


def rule_cache_writers(ctx, prop):
    from paths import access_path
    """the per-directory memo holds what the upward search found for that directory - nothing per-file"""
    rep = Report(prop, "R-CFG(j)", "ConfigResolver::config_cache is written only by find_config_file, with the outcome of the "
                                   "stylua.toml search for that directory (never with a per-file result such as .editorconfig's)")
    for cfg, prog in ctx.programs.items():
        prog = _view(prog)
        n = 0
        for f in prog.fns("stylua"):
            if not f.path.startswith("config::"):
                continue
            for b, t in f.calls():
                if not re.search(r"HashMap(::)?<.*>::(insert|entry|extend|get_mut|remove|clear|retain)$", callee(t)):
                    continue
                if not t["args"]:
                    continue
                root, steps = access_path(f, t["args"][0])
                if not any(st[0] == "f" and st[1] == "config_cache" for st in steps):
                    continue
                n += 1
                in_search = re.search(r"ConfigResolver::<'_>::find_config_file$", f.path) is not None
                vals = set()
                for a in t["args"][1:]:
                    vals |= _deep_calls(f, a) if not is_const(a) else set()
                per_file = sorted(c for c in vals if re.search(r"editorconfig::parse$|read_to_string$|stdin", c))
                ok = in_search and not per_file
                rep.inst(f"{f.key} config_cache.{callee(t).split('::')[-1]} by the directory search", {"value_from": sorted(c.split('::')[-1] for c in vals)[:6]},
                         cfg, ok=ok)
                if not ok:
                    why = f"a value derived through {[c.split('::')[-1] for c in per_file]}" if per_file else f"outside find_config_file (in {f.path})"
                    rep.violation(f"{f.key} config-cache-written {'per-file-value' if per_file else 'outside-search'}",
                                  f"config_cache (the per-directory memo that find_config_file consults first, also while walking "
                                  f"up from sub-directories) is written {why}: a result that holds for one file is served to its "
                                  f"siblings and to files below, which are then formatted with another file's configuration",
                                  f.loc(t["sp"]), cfg)
        rep.floor("writes to config_cache", n, 1, cfg)
    return rep


CONFIG_LAYER = re.compile(r"(^|::)config::(read_config_file|read_and_apply_overrides|ConfigResolver::<'_>::(lookup_config_file_in_directory|"
                          r"find_config_file|search_config_locations|load_configuration|load_configuration_for_stdin))$|"
                          r"editorconfig::parse$")


def _whole_uses(f, local, seen=None):
    """consumers of the *whole* value of a local (no field / variant projection), through copies and references:
    ('ret',) | ('call', block, term, argument index)"""
    seen = set() if seen is None else seen
    if local in seen:
        return []
    seen.add(local)
    out = []
    if local == 0:
        out.append(("ret",))
    for bi, blk in enumerate(f.blocks):
        for s_ in blk["st"]:
            if s_["k"] != "assign" or s_["dst"].get("p"):
                continue
            rv = s_["rv"]
            src = None
            if rv["k"] in ("use", "cast") and not is_const(rv["o"]):
                src = op_place(rv["o"])
            elif rv["k"] == "ref":
                src = rv["p"]
            if src is not None and src["l"] == local and not [e for e in src.get("p", []) if e != "*"]:
                out += _whole_uses(f, s_["dst"]["l"], seen)
        t = blk["term"]
        if t["k"] == "call":
            for ai, a in enumerate(t["args"]):
                if not is_const(a):
                    pl = op_place(a)
                    if pl["l"] == local and not [e for e in pl.get("p", []) if e != "*"]:
                        out.append(("call", bi, t, ai))
    return out


def rule_config_errors(ctx, prop):
    """a configuration file that cannot be read or decoded is an error wherever it is found - never skipped"""
    rep = Report(prop, "R-CFGERR", "every Result of the configuration-reading layer is propagated (`?`, returned, mapped into the "
                                   "caller's Result): no call site matches on Ok only and carries on when it is Err")
    for cfg, prog in ctx.programs.items():
        prog = _view(prog)
        n = 0
        for f in prog.fns("stylua"):
            for b, t in f.calls():
                c = callee(t)
                if not CONFIG_LAYER.search(c) or "p" in t["dst"]:
                    continue
                if "Result" not in f.local_ty(t["dst"]["l"]):
                    continue
                n += 1
                uses = _whole_uses(f, t["dst"]["l"])
                propagated = False
                for u in uses:
                    if u[0] == "ret":
                        propagated = True
                    elif u[0] == "call" and re.search(r"Try>::branch$|Result::<.*>::(map|map_err|and_then|context|with_context|or_else)$|"
                                                      r"Result::<T, E>::(map|map_err|and_then|or_else)$|::context$|::with_context$|"
                                                      r"Option::<.*>::transpose$", callee(u[2])):
                        propagated = True
                dropped = None
                if not propagated:
                    # a match on the discriminant: is the Err edge led to an Err return?
                    for sb in range(len(f.blocks)):
                        si = switch_info(f, sb)
                        if si and si["place"].get("l") == t["dst"]["l"] and si["enum"].endswith("result::Result"):
                            err_t = si["targets"].get("Err", si["otherwise"])
                            reach = f.reach_from(err_t) if err_t is not None else set()
                            builds_err = any(s_["k"] == "assign" and s_["rv"]["k"] == "agg" and s_["rv"].get("variant") == "Err"
                                             for x in reach for s_ in f.blocks[x]["st"])
                            if "Err" in si["targets"] and builds_err:
                                propagated = True
                            else:
                                dropped = "matched on Ok only"
                    if not propagated and dropped is None:
                        dropped = "result not propagated"
                rep.inst(f"{f.key} {c.split('::')[-1]} error propagated", {"at": f.loc(t["sp"])}, cfg, ok=propagated)
                if not propagated:
                    rep.violation(f"{f.key} config-error-dropped {c.split('::')[-1]}",
                                  f"{f.path} calls {c} and carries on when it fails ({dropped}): a configuration file that cannot be "
                                  f"read or decoded (unknown key, wrong value) is silently skipped there, the run falls back to "
                                  f"another configuration, rewrites the files and exits 0 instead of exiting 2", f.loc(t["sp"]), cfg)
        rep.floor("call sites of the configuration-reading layer", n, 8, cfg)
    return rep


EC_PATH_MAKERS = re.compile(r"PathBuf as .*From<.*>>::from$|Path::new$|PathBuf::from$|Path::join$|PathBuf::push$|Path::with_file_name$|"
                            r"Path::with_extension$")


def rule_ec_path(ctx, prop):
    """ec4rs looks for .editorconfig files starting in the *parent* of the path it is given and matches section globs against
    the path's last component: the path handed to editorconfig::parse has to name a (pseudo) file, never a directory"""
    rep = Report(prop, "R-EC(path)", "every editorconfig::parse call in the CLI is given the path of the file being formatted (a path "
                                     "parameter) or a pseudo file path built from a literal; never a value the same code uses as a directory")
    for cfg, prog in ctx.programs.items():
        prog = _view(prog)
        n = 0
        for f in prog.fns("stylua"):
            for b, t in f.calls():
                if not re.search(r"(^|::)editorconfig::parse$", callee(t)) or len(t["args"]) < 2:
                    continue
                n += 1
                roots = provenance(f, t["args"][1], into_aggs=False)
                bad = []
                for r in roots:
                    if r[0] == "arg" and r[1] >= 2 and re.search(r"Path(Buf)?\b", f.local_ty(r[1])):
                        continue
                    if r[0] == "upvar":
                        continue
                    if r[0] == "const" and r[1].startswith(("s:", "pp:")):
                        continue
                    if r[0] == "call" and EC_PATH_MAKERS.search(r[1]):
                        from r_directive import _str_consts
                        t3 = f.blocks[r[2]]["term"]
                        lits = [x for a in t3["args"] for x in _str_consts(f, a)]
                        if lits and not any(x.endswith((".lua", ".luau")) for x in lits):
                            bad.append(("literal", repr(lits[0])))
                        continue
                    bad.append(r)
                # the same value is not used as a directory elsewhere in the function
                dirs = []
                for b2, t2 in f.calls():
                    c2 = callee(t2)
                    if re.search(r"find_config_file$|lookup_config_file_in_directory$|read_dir$|set_current_dir$", c2) and len(t2["args"]) > 1:
                        dirs.append((c2, t2["args"][1]))
                mine = {r for r in roots if r[0] == "call"} | {("l", l) for l in _slice_locals(f, t["args"][1])}
                shared = []
                for c2, o2 in dirs:
                    theirs = {r for r in provenance(f, o2, into_aggs=False) if r[0] == "call"} | {("l", l) for l in _slice_locals(f, o2)}
                    if mine & theirs:
                        shared.append(c2.split("::")[-1])
                ok = not bad and not shared
                rep.inst(f"{f.key} editorconfig::parse path names a file", {"roots": sorted(str(r[:2]) for r in roots)}, cfg, ok=ok)
                if not ok:
                    why = f"also-the-directory-of {','.join(sorted(set(shared)))}" if shared else \
                        "from " + ",".join(sorted(str(r[1]).split("::")[-1] if r[0] == "call" else f"{r[0]}{r[1]}" for r in bad))
                    rep.violation(f"{f.key} editorconfig-path-not-a-file {why}",
                                  f"{f.path} hands editorconfig::parse a path that is {why.replace('-', ' ')}: ec4rs reads "
                                  f".editorconfig files from the parent of that path upwards and matches [*.lua] sections against "
                                  f"its last component, so the directory's own .editorconfig is skipped and no Lua section applies - "
                                  f"options written as .editorconfig keys are ignored on this path while the same values in "
                                  f"stylua.toml or as flags take effect", f.loc(t["sp"]), cfg)
        if cfg == "nodefault" and not n:
            rep.note("@nodefault: editorconfig feature not compiled in (no call site to check)")
        else:
            rep.floor("editorconfig::parse call sites in the CLI", n, 2, cfg)
    return rep


def _slice_locals(f, o):
    """user-visible locals (those with a debug name) the operand's value flows from, not crossing calls other than the
    borrow / clone family"""
    out, seen = set(), set()
    names = getattr(f, "var_names", None)

    def visit(l):
        if l in seen or 1 <= l <= f.argc:
            return
        seen.add(l)
        out.add(l)
        for bi, si, s in f.defs().get(l, []):
            if si == "term":
                if PROV_THROUGH.search(callee(s)) and s["args"] and not is_const(s["args"][0]):
                    visit(op_place(s["args"][0])["l"])
            else:
                rv = s["rv"]
                if rv["k"] in ("use", "cast") and not is_const(rv["o"]):
                    visit(op_place(rv["o"])["l"])
                elif rv["k"] == "ref":
                    visit(rv["p"]["l"])
    if not is_const(o):
        visit(op_place(o)["l"])
    return out


EC_CARRIERS = re.compile(r"ops::Try>::branch$|::with_context$|::context$|::map_err$|Result::<.*>::(map|and_then|ok)$|Option::<.*>::(map|and_then)$|"
                         r"::unwrap$|::expect$|::unwrap_or$|::unwrap_or_default$|::into$|::from$|Clone>::clone$|ToOwned>::to_owned$|load_overrides$")


def rule_ec_per_file(ctx, prop):
    """EditorConfig sections are matched against the file's own name: the Config derived from editorconfig::parse belongs to one
    file and must not be remembered for another (per directory, per resolver)"""
    rep = Report(prop, "R-EC(per-file)", "the value returned by editorconfig::parse (through `?`, map, context, load_overrides) is only "
                                         "returned to the caller: it is never inserted into a map or stored in the resolver")
    for cfg, prog in ctx.programs.items():
        prog = _view(prog)
        n = 0
        for f in prog.fns("stylua"):
            for b, t in f.calls():
                if not re.search(r"(^|::)editorconfig::parse$", callee(t)) or not t.get("dst"):
                    continue
                n += 1
                stored = []
                seen, work = set(), [t["dst"]["l"]]
                while work:
                    l = work.pop()
                    if l in seen:
                        continue
                    seen.add(l)
                    for u in forward_uses(f, l):
                        if u[0] == "field":
                            base = u[2]["dst"]["l"]
                            if base == 1 or any(r == ("arg", 1) for r in provenance(f, {"cp": {"l": base}}, into_aggs=False)):
                                stored.append("a field of the resolver")
                        elif u[0] == "agg":
                            work.append(u[2]["dst"]["l"])
                        elif u[0] == "call":
                            c2 = callee(u[2])
                            if re.search(r"(HashMap|BTreeMap|HashSet|Vec|VecDeque)::<.*>::(insert|push|push_back|entry|extend)$|Entry<.*>::or_insert", c2) and u[3] >= 1:
                                stored.append(c2.split("::<")[0].split("::")[-1] + "::" + c2.split("::")[-1])
                            elif EC_CARRIERS.search(c2) and u[2].get("dst") and not u[2]["dst"].get("p"):
                                work.append(u[2]["dst"]["l"])
                ok = not stored
                rep.inst(f"{f.key} editorconfig::parse result is used for this file only", {"locals_followed": len(seen)}, cfg, ok=ok)
                if not ok:
                    rep.violation(f"{f.key} editorconfig-config-remembered in={','.join(sorted(set(stored)))}",
                                  f"{f.path} stores the configuration derived from editorconfig::parse ({sorted(set(stored))}): "
                                  f".editorconfig sections are globs over the file name (`[*_spec.lua]`, `[vendor/**]`), so a Config "
                                  f"resolved for one file and reused for another ignores the sections written for the second - the "
                                  f"same values in stylua.toml or as flags still apply", f.loc(t["sp"]), cfg)
        if cfg == "nodefault" and not n:
            rep.note("@nodefault: editorconfig feature not compiled in (no call site to check)")
        else:
            rep.floor("editorconfig::parse call sites in the CLI", n, 2, cfg)
    return rep


def rule_stdin_filepath(ctx, prop):
    """--stdin-filepath seeds the configuration search: whenever it is given (and no configuration is forced), the stdin path
    resolves its configuration exactly as a file at that path would"""
    from paths import Enumerator, TooManyPaths
    rep = Report(prop, "R-CFG(k)", "every path of load_configuration_for_stdin on which opt.stdin_filepath is Some (and no configuration is "
                                   "forced) returns load_configuration(filepath); the path's existence or kind is never consulted")
    for cfg, prog in ctx.programs.items():
        prog = _view(prog)
        f = prog.fn("stylua", "config::ConfigResolver::<'_>::load_configuration_for_stdin")
        if not rep.anchor(f is not None, "ConfigResolver::load_configuration_for_stdin", cfg):
            continue
        try:
            res = Enumerator(f, max_paths=40000).run()
        except TooManyPaths:
            rep.anchor(False, "load_configuration_for_stdin: too many paths", cfg)
            continue
        n = 0
        bad = {}
        for st in res:
            k = [kk for kk in st.disc if kk.endswith(".stdin_filepath")]
            if not k or st.disc[k[0]] != "Some":
                continue
            forced = [vv for kk, vv in st.disc.items() if kk.endswith(".forced_configuration")]
            if forced and forced[0] == "Some":
                continue
            n += 1
            calls = [c for _, c, _ in st.calls]
            if not any(c.endswith("::load_configuration") for c in calls):
                via = tuple(sorted({c.split("::")[-1] for c in calls if FS_RESOLVING.search(c) or
                                    re.search(r"Path::(is_file|is_dir|exists|try_exists|metadata|symlink_metadata)$|fs::metadata$", c)}))
                bad.setdefault(via, st)
        rep.inst(f"{f.key} stdin_filepath = Some always resolves through load_configuration", {"paths": n}, cfg, ok=not bad)
        for via, st in sorted(bad.items())[:2]:
            rep.violation(f"{f.key} stdin-filepath-not-used-for-search" + (f" after={','.join(via)}" if via else ""),
                          f"load_configuration_for_stdin has a path on which --stdin-filepath is given but load_configuration(filepath) is "
                          f"not called" + (f" (after asking {list(via)})" if via else "") + ": the search starts in the working "
                          f"directory instead of the given path's directory (an unsaved buffer, a path that does not exist yet), so "
                          f"a nearer stylua.toml is ignored and the EditorConfig fall-back is asked about `*.lua`", f.loc(), cfg)
        rep.floor("paths with stdin_filepath = Some", n, 1, cfg)
    return rep
