"""R-RANGE: the range test of Context::should_format_node (C09).

The answer of should_format_node for a node that is not ignored depends on five things only: whether a range is
set, whether it has a start / an end bound, and how the node's start and end byte offsets compare with those bounds.
The function touches the offsets through order comparisons only, so its behaviour is a function of the *ordering*
of (node start s, node end e, start bound S, end bound E) - a finite set. The rule enumerates the MIR paths of the
function with their Option constraints and comparison outcomes, maps every compared operand back to one of
s / e / S / E (through tuples, `Position::bytes`, `Node::start_position` / `end_position` / `range`), and then, for
every combination of present bounds and every ordering of the present quantities (with s <= e), checks that the
path(s) taken return NotInRange exactly when `s < S` or `e > E`, and Normal otherwise. Nothing is executed.
"""
import itertools
from engine import Report
from facts import *
from paths import *

SFN = "context::Context::should_format_node"


def _resolve(f, ap, depth=0):
    """see through tuple aggregates: local:N.<i>.rest -> access path of the i-th operand + rest"""
    root, steps = ap
    while root[0] == "local" and steps and steps[0][0] == "f" and depth < 8:
        l = root[1]
        defs = [s for b, si_, s in f.stmts() if s["k"] == "assign" and s["dst"]["l"] == l and not s["dst"].get("p")]
        if len(defs) != 1 or defs[0]["rv"]["k"] != "agg" or "tuple" not in defs[0]["rv"]:
            break
        try:
            idx = int(steps[0][1])
        except ValueError:
            break
        r2, s2 = access_path(f, defs[0]["rv"]["ops"][idx])
        root, steps = r2, tuple(s2) + tuple(steps[1:])
        depth += 1
    return root, tuple(steps)


def _term(f, ap):
    """classify a resolved access path: one of 'R?' 'S?' 'E?' 's?' 'e?' 'r?' (options) or 'S' 'E' 's' 'e' (offsets)"""
    root, steps = _resolve(f, ap)
    names = [st[1] if len(st) > 1 else "[]" for st in steps]
    if root == ("arg", 1) or (root[0] == "pure"):
        pass
    if root[0] == "arg" and root[1] == 1:
        if names == ["range"]:
            return "R?"
        if names[:3] == ["range", "Some", "0"] and len(names) >= 4 and names[3] in ("start", "end"):
            b = "S" if names[3] == "start" else "E"
            rest = names[4:]
            if not rest:
                return b + "?"
            if rest == ["Some", "0"]:
                return b
        return None
    if root[0] == "call":
        t = f.blocks[root[1]]["term"]
        c = callee(t)
        if c.endswith("Position::bytes") and not names:
            return _term(f, access_path(f, t["args"][0]))
        if re.search(r"Node>?::start_position$", c) or re.search(r"Node>?::end_position$", c):
            b = "s" if "start_position" in c else "e"
            if not names:
                return b + "?"
            if names == ["Some", "0"]:
                return b
        if re.search(r"Node>?::range$", c):
            if not names:
                return "r?"
            if names == ["Some", "0", "0"]:
                return "s"
            if names == ["Some", "0", "1"]:
                return "e"
            if names == ["Some", "0"]:
                return "r"
        return None
    return None


def _key_term(f, key):
    """constraint key (path_key string) -> term"""
    parts = key.split(".")
    head = parts[0].split(":")
    if head[0] in ("local", "arg", "call"):
        root = (head[0], int(head[1]))
    else:
        return None
    steps = []
    for p in parts[1:]:
        steps.append(("v", p) if p in ("Some", "None", "Ok", "Err") else ("f", p))
    return _term(f, (root, tuple(steps)))


OPS = {"Lt": lambda a, b: a < b, "Le": lambda a, b: a <= b, "Gt": lambda a, b: a > b, "Ge": lambda a, b: a >= b,
       "Eq": lambda a, b: a == b, "Ne": lambda a, b: a != b}


def rule_range(ctx, prop):
    rep = Report(prop, "R-RANGE", "should_format_node answers NotInRange exactly when the node starts before the start "
                                  "bound or ends after the end bound (all orderings of the four offsets, all "
                                  "combinations of present bounds)")
    for cfg, prog in ctx.programs.items():
        f = prog.fn("stylua_lib", SFN)
        if not rep.anchor(f is not None, SFN, cfg):
            continue
        # a range test moved into a private helper (`fn node_outside_range(..) -> bool`) is analysed in place
        from inline import inlined, small_helper
        f = inlined(prog, f, small_helper(prog, keep=r"^context::Context::(config|check_toggle_formatting)$"))
        try:
            res = Enumerator(f, track_cmp=True, summaries=False, max_paths=20000).run()
        except TooManyPaths:
            rep.anchor(False, "should_format_node: too many paths", cfg)
            continue
        rows = {}
        unknown = set()
        for st in res:
            v0 = st.vals.get(0)
            if not (v0 and v0[0] == "variant"):
                rep.anchor(False, "should_format_node: a path whose result is not a constant FormatNode", cfg)
                continue
            if v0[2] == "Skip":
                continue
            opts = {}
            cmps = []
            okp = True
            for k, v in st.hist:
                if k == "cmp":
                    op, a, b, outcome = v
                    ta, tb = _term(f, access_path(f, a)), _term(f, access_path(f, b))
                    if ta not in ("s", "e", "S", "E") or tb not in ("s", "e", "S", "E"):
                        unknown.add(f"{op}({ta},{tb})")
                        okp = False
                        continue
                    cmps.append((op, ta, tb, outcome))
                elif v in ("Some", "None"):
                    tk = _key_term(f, k)
                    if tk in ("R?", "S?", "E?", "s?", "e?", "r?"):
                        opts[tk] = v
            if okp:
                rows[(tuple(sorted(opts.items())), tuple(cmps))] = v0[2]
        if not rep.anchor(not unknown, f"every comparison of the range test is between node offsets and bounds ({sorted(unknown)})", cfg):
            continue
        if not rep.anchor(len(rows) >= 4, "range-test paths of should_format_node", cfg):
            continue
        nsc = 0
        bad = {}
        for rng, hasS, hasE in itertools.product((True, False), repeat=3):
            if not rng and (hasS or hasE):
                continue
            for s, e, S, E in itertools.product(range(4), repeat=4):
                if s > e:
                    continue
                if not hasS and S != 0 or not hasE and E != 0:
                    continue   # an absent bound has no value: one representative
                env = {"s": s, "e": e, "S": S, "E": E}
                flags = {"R?": "Some" if rng else "None", "S?": "Some" if hasS else "None",
                         "E?": "Some" if hasE else "None", "s?": "Some", "e?": "Some", "r?": "Some"}
                got = set()
                for (opts, cmps), result in rows.items():
                    if any(flags.get(k) != v for k, v in opts):
                        continue
                    if any(OPS[op](env[a], env[b]) != outcome for op, a, b, outcome in cmps):
                        continue
                    got.add(result)
                want = "NotInRange" if (rng and ((hasS and s < S) or (hasE and e > E))) else "Normal"
                nsc += 1
                if got != {want}:
                    rel = []
                    if hasS:
                        rel.append("s<S" if s < S else "s>=S")
                        rel.append("e<S" if e < S else "e>=S")
                    if hasE:
                        rel.append("e>E" if e > E else "e<=E")
                        rel.append("s>E" if s > E else "s<=E")
                    sig = (f"range={'set' if rng else 'unset'} start-bound={'set' if hasS else 'unset'} "
                           f"end-bound={'set' if hasE else 'unset'} {' '.join(rel)}")
                    bad.setdefault((sig, want, tuple(sorted(got))), (s, e, S, E))
        rep.inst(f"{f.key} range test agrees with `s < S or e > E` on every ordering", {"scenarios": nsc, "paths": len(rows)},
                 cfg, ok=not bad)
        for (sig, want, got), (s, e, S, E) in sorted(bad.items())[:6]:
            rep.violation(f"{f.key} range-test {sig} -> {list(got)} expected {want}",
                          f"with {sig} (e.g. node bytes {s}..{e}, bounds start={S if 'start-bound=set' in sig else '-'} "
                          f"end={E if 'end-bound=set' in sig else '-'}) should_format_node answers {list(got) or 'nothing'} "
                          f"instead of {want}: a statement {'outside' if want == 'NotInRange' else 'inside'} the range is "
                          f"{'reformatted' if want == 'NotInRange' else 'left unformatted'}", f.loc(), cfg)
        rep.floor("ordering scenarios evaluated", nsc, 100, cfg)
    return rep


def rule_ignore_first(ctx, prop):
    """an ignore directive wins over the range: NotInRange / Normal are only answered after the scan of the node's
    leading comments has run to its end"""
    rep = Report(prop, "R-RANGE(order)", "should_format_node answers NotInRange / Normal only after the scan of the "
                                         "leading comments for `stylua: ignore` has completed (Skip wins over the range)")
    for cfg, prog in ctx.programs.items():
        f = prog.fn("stylua_lib", SFN)
        if not rep.anchor(f is not None, SFN, cfg):
            continue
        from inline import inlined, small_helper
        f = inlined(prog, f, small_helper(prog, keep=r"^context::Context::(config|check_toggle_formatting)$"))
        # the loop over the leading trivia: a next() whose iterator derives from surrounding_trivia / leading_trivia
        heads = []
        for b, t in f.calls():
            if re.search(r"Iterator>?::next$", callee(t)) and t["args"]:
                src = prov_calls(provenance(f, t["args"][0]))
                if any(re.search(r"surrounding_trivia$|leading_trivia$", c) for c in src) and \
                        not any(re.search(r"::lines$", c) for c in src):
                    heads.append(b)
        done = None
        if len(heads) == 1:
            hb = heads[0]
            nb = f.blocks[hb]["term"].get("t")
            si = switch_info(f, nb) if nb is not None else None
            done = si["targets"].get("None") if si else None
        elif not heads:
            # iterator form: `leading_trivia.iter().flat_map(lines).any(|line| line == "stylua: ignore")` - the scan has
            # completed without a hit on the false edge of the quantifier's answer
            def deep(o, depth=0, seen=None):
                seen = set() if seen is None else seen
                out = set()
                if depth > 10:
                    return out
                for r in provenance(f, o, through=None):
                    if r[0] == "call" and r[2] not in seen:
                        seen.add(r[2])
                        out.add(r[1])
                        tt = f.blocks[r[2]]["term"]
                        if tt["args"]:
                            out |= deep(tt["args"][0], depth + 1, seen)
                return out
            quants = []
            for b, t in f.calls():
                m = re.search(r"Iterator>?::(any|all)$", callee(t))
                if m and t["args"] and any(re.search(r"surrounding_trivia$|leading_trivia$", c) for c in deep(t["args"][0])):
                    quants.append((b, m.group(1)))
            if len(quants) == 1:
                from facts import bool_edge
                be = bool_edge(f, quants[0][0])
                if be:
                    done = be[1] if quants[0][1] == "any" else be[0]
        if done is None:
            # the scan is written in a form this clause does not read: nothing is claimed (no alarm on a shape)
            rep.notes.append(f"[{cfg}] directive scan of should_format_node not in loop / any() form: order clause not evaluated")
            continue
        n = 0
        for b, si_, s in f.stmts():
            if s["k"] == "assign" and s["dst"]["l"] == 0 and s["rv"]["k"] == "agg" and s["rv"].get("adt", "").endswith("FormatNode") \
                    and s["rv"].get("variant") in ("NotInRange", "Normal"):
                n += 1
                ok = f.dominates(done, b)
                rep.inst(f"{f.key} {s['rv']['variant']} answered after the directive scan", {"at": f.loc(s.get("sp"))}, cfg, ok=ok)
                if not ok:
                    rep.violation(f"{f.key} range-answer-before-ignore-scan {s['rv']['variant']}",
                                  f"should_format_node can answer {s['rv']['variant']} before the node's leading comments have "
                                  f"been scanned for `-- stylua: ignore`: an ignored statement that straddles the range is "
                                  f"treated as out-of-range and the statements nested in it are formatted", f.loc(s.get("sp")), cfg)
        rep.floor("NotInRange / Normal answers of should_format_node", n, 2, cfg)
    return rep


def rule_toggle_ignores_range(ctx, prop):
    """`-- stylua: ignore start` / `ignore end` open and close a region of the *file*: the walk has to see them on every
    statement it passes, inside the formatting range or not"""
    rep = Report(prop, "R-RANGE(toggle)", "Context::check_toggle_formatting does not consult the formatting range (no read of `self.range`, no "
                                          "start_position / end_position of the node): a directive on a statement outside the range still "
                                          "toggles the state for the statements that follow")
    for cfg, prog in ctx.programs.items():
        f = prog.fn("stylua_lib", "context::Context::check_toggle_formatting")
        if not rep.anchor(f is not None, "Context::check_toggle_formatting", cfg):
            continue
        reads = []
        for b, si_, s in f.stmts():
            if s["k"] != "assign":
                continue
            rv = s["rv"]
            # copying the field into the rebuilt Context (`Self { formatting_disabled, ..*self }`) is not consulting it; taking its
            # discriminant (`if let Some(range) = self.range`) is
            if rv["k"] == "discr" and ("f", "range") in proj_fields(rv["p"]):
                reads.append("self.range")
        for b, t in f.calls():
            c = callee(t)
            if re.search(r"Node>?::(start_position|end_position|range)$|node::Node::(start_position|end_position|range)$", c):
                reads.append(c.split("::")[-1])
            if t["k"] == "switch":
                pass
        for bi, blk in enumerate(f.blocks):
            t = blk["term"]
            if t["k"] == "switch" and not is_const(t["on"]) and ("f", "range") in proj_fields(op_place(t["on"])):
                reads.append("self.range")
        ok = not reads
        rep.inst(f"{f.key} is independent of the formatting range", {"blocks": len(f.blocks)}, cfg, ok=ok)
        if not ok:
            rep.violation(f"{f.key} toggle-depends-on-range via={','.join(sorted(set(reads)))}",
                          f"check_toggle_formatting reads {sorted(set(reads))}: for a node outside the formatting range it can return "
                          f"without scanning the node's comments, so an `-- stylua: ignore start` / `ignore end` attached to an "
                          f"out-of-range statement (or to a function that merely contains the selection) is missed and statements inside "
                          f"the range are formatted - or left alone - differently from a whole-file run", f.loc(), cfg)
    return rep
