"""C17 stdin mode writes the formatted text to stdout and nothing else - static necessary conditions."""
import r_cli
import r_cfg

EXPLANATION = (
    "A-WHO over crate stylua: (R-STDOUT) every stdout writer is enumerated: println! only under "
    "output_format == Summary, and the two write_all calls of the output thread whose payload is the buffer carried "
    "by FormatResult::SuccessBufferedOutput / Diff; SuccessBufferedOutput is built only in format_string from the "
    "format_code result, or from the unchanged input on the should_skip edge, and never on the error edge; (R-FS) "
    "no file-system mutation is reachable from format_string; the library never touches stdout; (R-IGNOREARG) both questions `is this path ignored?` (stdin path, walked file) pass opt.search_parent_directories itself. Not decided: "
    "partial writes (OS), exit code beyond R-EXIT."
    "Later rounds: (R-CFG(e)) overrides are applied last on the stdin fallback too; (R-CFG(k)); (R-STDOUT) a println! of format runs only under output formats that are refused without --check; (R-EXACTREAD). Rounds 17-19: (R-IGNOREMATCH); (R-ERRSTATUS via C13/C14 rules is not repeated here). Rounds 20-21: no env_logger target other than stderr. Round 23: (R-IGNOREGUARD) the stdin-mode ignore lookup is reached from the true edge of the opt.respect_ignores test by unconditional edges only.")
ASSUMPTIONS = ["std::io::Write::write_all writes exactly its argument or reports an error",
               "rustc MIR and Instance::try_resolve are trusted"]


def run(ctx):
    return [r_cli.rule_stdout(ctx, "C17", stdin_clause=True), r_cli.rule_fs(ctx, "C17", stdin_clause=True),
            r_cli.rule_ignore_arg(ctx, "C17"), r_cfg.rule_search_start(ctx, "C17"), r_cli.rule_workers(ctx, "C17"), r_cli.rule_exact_read(ctx, "C17"), r_cfg.rule_override_last(ctx, "C17"), r_cfg.rule_stdin_filepath(ctx, "C17"), r_cli.rule_ignore_match(ctx, "C17"), r_cli.rule_ignore_guard(ctx, "C17")]
