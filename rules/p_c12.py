"""C12 Require sorting only permutes statements inside a require block - static necessary conditions."""
import json
from engine import Report
from facts import *
import r_skip
import r_arms

EXPLANATION = (
    "A-WHO / A-DOM over stylua_lib: (gating) sort_requires::sort_requires is called only from format_ast, on the true "
    "edge of `config.sort_requires.enabled`, and with the option on every path to the formatter has sorted (no other condition switches it off); no other call in the library resolves to a sort/reverse/swap/rotate/"
    "dedup/retain on a collection whose element type mentions Stmt (with the option off, statement order never "
    "changes); (stability) the sort callee is a stable slice sort; (trivia) the group's leading trivia is taken from "
    "index 0 before the sort and restored to index 0 after it; (R-GROUP) a new group is started exactly on: no previous part, previous part not a require group, different kind, or line distance > 1; (R-SORTGUARD) the sort is reached only if every member is Normal; (R-SKIP d) the Context used to ask should_format_node "
    "for group members is threaded through check_toggle_formatting; (R-GROUPFILL) groups only receive "
    "LocalAssignment statements. Not decided: the permutation property itself (that the output is the stable name-ordered permutation)."
    "Later rounds: (R-SORT(toggle)) every emit of a partition's statements follows a walk showing them to check_toggle_formatting, and the toggle calls of the walk share one state; (R-ARMS) frozen feature-gated arms of the sorter's predicates. Round 22: (R-GROUP(total)) no statement is left out of the partitions. Round 23: (R-GROUP(pairend)) the adjacency of two requires is measured from end_position() of the (statement, semicolon) pair (Self type of the resolved Node::end_position call).")
ASSUMPTIONS = ["slice::sort_by_key is stable (std contract)", "rustc MIR and Instance::try_resolve are trusted"]

REORDER = re.compile(r"::(sort|sort_by|sort_by_key|sort_by_cached_key|sort_unstable|sort_unstable_by|"
                     r"sort_unstable_by_key|reverse|swap|rotate_left|rotate_right|dedup|dedup_by|dedup_by_key|"
                     r"retain|retain_mut|swap_remove|select_nth_unstable\w*)$")
STABLE = re.compile(r"::(sort|sort_by|sort_by_key|sort_by_cached_key)$")


def rule_sort(ctx, prop):
    rep = Report(prop, "R-SORT", "require sorting is gated, stable, and the only reordering of statements")
    for cfg, prog in ctx.programs.items():
        # (1) gating
        sites = list(call_sites(prog, r"^sort_requires::sort_requires$", "stylua_lib")) + \
            [(g, b, None) for g, b, o in fn_refs(prog, r"^sort_requires::sort_requires$", "stylua_lib")]
        ok = len(sites) == 1 and sites[0][0].path == "format_ast" and sites[0][2] is not None
        rep.inst("stylua_lib::sort_requires::sort_requires callers", {"callers": [g.key for g, _, _ in sites]}, cfg, ok=ok)
        if not ok:
            rep.violation("stylua_lib::sort_requires::sort_requires unexpected-caller",
                          f"sort_requires is reachable from {[g.key for g, _, _ in sites]} (expected: format_ast only)",
                          None, cfg)
        else:
            f, b, t = sites[0]
            from r_cli import field_switches
            sw = field_switches(f, "enabled")
            okg = any(f.dominates(tr, b) and (fl is None or b not in f.reach_from(fl)) and
                      ("f", "sort_requires") in proj_fields(pl) for _, tr, fl, pl in sw)
            rep.inst("stylua_lib::format_ast sort-only-if-enabled", None, cfg, ok=okg)
            if not okg:
                rep.violation("stylua_lib::format_ast sort-not-gated",
                              "sort_requires is not dominated by the true edge of config.sort_requires.enabled: "
                              "statements can be reordered with the option off", f.loc(t["sp"]), cfg)
            # path form: with the option on, *every* path of format_ast that reaches the formatter has sorted first; with
            # the option off none has (no other condition may switch the sorting off, e.g. a range)
            from paths import Enumerator, TooManyPaths
            try:
                pres = Enumerator(f, summaries=False, max_paths=5000).run()
            except TooManyPaths:
                pres = []
                rep.anchor(False, "format_ast: too many paths", cfg)
            bad_on, bad_off, npaths = set(), set(), 0
            for st in pres:
                en = [v for k, v in st.disc.items() if k.endswith("sort_requires.enabled")]
                if not en:
                    continue
                if not any(c.endswith("CodeFormatter::format") for _, c, _ in st.calls):
                    continue
                npaths += 1
                sorted_ = any(c == "sort_requires::sort_requires" for _, c, _ in st.calls)
                if en[0] == "true" and not sorted_:
                    bad_on.add(tuple(sorted(callee(f.blocks[bb]["term"]).split("::")[-1] for bb in st.decisions) +
                                     sorted(f"{callee(f.blocks[int(k.split(':')[1].split('.')[0])]['term']).split('::')[-1]}={v}"
                                            for k, v in st.disc.items() if k.startswith("call:") and isinstance(v, str) and
                                            v not in ("Ok", "Err", "Some", "None"))))
                if en[0] == "false" and sorted_:
                    bad_off.add(True)
            rep.inst("stylua_lib::format_ast option on => sorted on every path; off => never", {"paths": npaths}, cfg,
                     ok=not bad_on and not bad_off and npaths >= 2)
            for why in sorted(bad_on)[:1]:
                rep.violation(f"stylua_lib::format_ast sort-skipped-although-enabled decided-by={list(why)}",
                              f"with sort_requires enabled a path of format_ast reaches the formatter without calling "
                              f"sort_requires (decided by {list(why)}): require groups stay unsorted although the option is on",
                              f.loc(t["sp"]), cfg)
            if bad_off:
                rep.violation("stylua_lib::format_ast sort-not-gated", "sort_requires runs on a path where the option is off",
                              f.loc(t["sp"]), cfg)
            # runs before formatting: dominates the CodeFormatter::format call... (order of the two calls)
            fm = [bb for bb, tt in f.calls() if callee(tt).endswith("CodeFormatter::format")]
            okb = bool(fm) and all(bb in f.reach_from(b) for bb in fm)
            rep.inst("stylua_lib::format_ast sort-before-format", None, cfg, ok=okb)
            if not okb:
                rep.violation("stylua_lib::format_ast sort-after-format", "require sorting does not precede formatting",
                              f.loc(), cfg)
        # (2) reordering calls on Stmt collections
        n = 0
        for f, b, t in call_sites(prog, REORDER, "stylua_lib"):
            full = callee_full(t)
            recv_ty = f.local_ty(op_place(t["args"][0])["l"]) if t["args"] and not is_const(t["args"][0]) else ""
            if "Stmt" not in full and "Stmt" not in recv_ty:
                continue
            n += 1
            c = callee(t)
            inside = f.path == "sort_requires::sort_requires" or f.path.startswith("sort_requires::sort_requires::")
            ok = inside and bool(STABLE.search(c))
            rep.inst(f"{f.key} reorders-statements via {c.split('::')[-1]}", {"fn": f.key, "callee": full, "at": f.loc(t["sp"])},
                     cfg, ok=ok)
            if not inside:
                rep.violation(f"{f.key} reorders-statements {c.split('::')[-1]}",
                              f"{f.path} calls {full} on a collection of statements: statement order can change outside "
                              f"require sorting", f.loc(t["sp"]), cfg)
            elif not STABLE.search(c):
                rep.violation(f"{f.key} unstable-sort {c.split('::')[-1]}",
                              f"require groups are sorted with {c}: equal names may exchange places (duplicate names "
                              f"are not kept in input order)", f.loc(t["sp"]), cfg)
        rep.floor("reordering calls on statement collections", n, 1, cfg)
        # (3) trivia save / sort / restore order inside sort_requires
        f = prog.fn("stylua_lib", "sort_requires::sort_requires")
        if rep.anchor(f is not None, "sort_requires::sort_requires", cfg):
            sorts = [b for b, t in f.calls() if STABLE.search(callee(t)) or REORDER.search(callee(t))]
            firsts = [b for b, t in f.calls() if callee(t).endswith("::first_mut")]
            ups = [(b, t) for b, t in f.calls() if callee(t).endswith("UpdateLeadingTrivia>::update_leading_trivia")]
            # the pass moves the group's *leading* trivia and nothing else: no other trivia of a member is rewritten or stripped
            others = sorted({callee(t).split("::")[-1] for b, t in f.calls()
                             if re.search(r"UpdateTrailingTrivia>::update_trailing_trivia$|UpdateTrivia>::update_trivia$|(trivia_util|trivia)::strip_(trailing_)?trivia$|"
                                          r"strip_leading_trivia$|take_(leading|trailing)_(comments|trivia)$", callee(t))})
            rep.inst(f"{f.key} touches leading trivia only", {"other_trivia_calls": others}, cfg, ok=not others)
            if others:
                rep.violation(f"{f.key} sort-rewrites-other-trivia via={','.join(others)}",
                              f"sort_requires calls {others} on a group member: only the leading trivia of the first member is saved and "
                              f"re-attached after the sort, so anything else that is stripped (a trailing `-- comment` on the first "
                              f"require) is deleted from the file", f.loc(), cfg)
            if not others and rep.anchor(len(sorts) == 1 and len(firsts) == 2 and len(ups) == 2,
                          f"sort_requires: one sort, two first_mut, two update_leading_trivia "
                          f"({len(sorts)},{len(firsts)},{len(ups)})", cfg):
                sb = sorts[0]
                before = [b for b in firsts if f.dominates(b, sb)]
                after = [b for b in firsts if f.dominates(sb, b)]
                ok = len(before) == 1 and len(after) == 1
                rep.inst(f"{f.key} leading-trivia saved-before / restored-after sort", None, cfg, ok=ok)
                if not ok:
                    rep.violation(f"{f.key} trivia-save-restore-order",
                                  "the group's leading trivia is not taken from the first member before the sort and "
                                  "restored to the first member after it", f.loc(), cfg)
                # the restore writes the saved trivia (Replace(leading_trivia)), the save writes Replace(vec![])
                for b, t in ups:
                    pass
    return rep


def rule_group(ctx, prop):
    """R-GROUP: a new require group is started iff there is no previous part, the previous part is not a require
    group, its kind differs, or more than one line separates the two statements."""
    rep = Report(prop, "R-GROUP", "partition_nodes_into_groups starts a new group on: no previous part | previous part is "
                                  "Other | different kind | line distance > 1; requires join a group only otherwise")
    for cfg, prog in ctx.programs.items():
        f = prog.fn("stylua_lib", "sort_requires::partition_nodes_into_groups")
        if f is not None:
            from inline import inlined, small_helper
            f = inlined(prog, f, small_helper(prog, keep=r"extract_identifier_from_token$|get_expression_kind$"))
        if not rep.anchor(f is not None, "partition_nodes_into_groups", cfg):
            continue
        # decision table of one loop iteration, read off the enumerated paths: which facts about the previous part lead to
        # the construction of a new RequiresGroup before the statement is pushed
        from paths import Enumerator, TooManyPaths
        try:
            pres = Enumerator(f, track_cmp=True, summaries=False, max_visits=2, max_paths=400000).run()
        except TooManyPaths:
            rep.anchor(False, "partition_nodes_into_groups: too many paths", cfg)
            continue
        agg_blocks = {b for b, si_, s in f.stmts() if s["k"] == "assign" and s["rv"]["k"] == "agg" and
                      s["rv"].get("variant") == "RequiresGroup"}
        if not rep.anchor(len(agg_blocks) >= 1, "RequiresGroup construction", cfg):
            continue
        last_calls = {b for b, t in f.calls() if re.search(r"(slice::<impl \[T\]>|Vec::<T, A>)::last$", callee(t)) or callee(t).endswith("::last")}
        nexts = [b for b, t in f.calls() if callee(t).endswith("Iterator>::next") or callee(t).endswith("Iterator::next")]
        rows = {}
        dist_ok = True
        dist_cache = {}
        for st in pres:
            head = None
            for b, c, t in st.calls:
                if b in nexts:
                    head = b
                    break
            if head is None:
                continue
            # first iteration only: calls / constraints between the first and the second head next()
            calls1 = []
            seen_head = 0
            for b, c, t in st.calls:
                if b == head:
                    seen_head += 1
                    if seen_head == 2:
                        break
                    continue
                if seen_head == 1:
                    calls1.append((b, c, t))
            blocks1 = set()
            started = False
            for b in st.trail:
                if b == head:
                    if started:
                        break
                    started = True
                if started:
                    blocks1.add(b)
            if not any(re.search(r"extract_identifier_from_token$", c) for b, c, t in calls1):
                continue          # not the require branch
            hist1 = []
            seen_head = 0
            for k, v in st.hist:
                if k == f"call:{head}":
                    seen_head += 1
                    if seen_head == 2:
                        break
                    continue
                if seen_head == 1:
                    hist1.append((k, v))
            lastb = [b for b, c, t in calls1 if b in last_calls]
            opt = part = None
            for k, v in hist1:
                if lastb and k == f"call:{lastb[0]}" and v in ("Some", "None"):
                    opt = opt or v
                if isinstance(v, str) and v in ("Other", "RequiresGroup") and lastb and k.startswith(f"call:{lastb[0]}."):
                    part = part or v
                if isinstance(v, tuple) and v[0] == "not" and lastb and k.startswith(f"call:{lastb[0]}.") and \
                        set(v[1]) & {"Other", "RequiresGroup"}:
                    part = part or ("RequiresGroup" if "Other" in v[1] else "Other")
            ne = None
            dec1 = {int(k[4:]): v for k, v in hist1 if isinstance(k, str) and k.startswith("dec:")}
            for b, c, t in calls1:
                if (c.endswith("::ne") or c.endswith("::eq")) and "GroupKind" in (t.get("fn") or "") and b in dec1:
                    ne = dec1[b] if c.endswith("::ne") else (not dec1[b])
            gt = None
            for k, v in hist1:
                if k == "cmp":
                    op, a, b_, outcome = v
                    if is_const(b_) and b_.get("v") == 1 and op in ("Gt", "Le"):
                        gt = outcome if op == "Gt" else (not outcome)
                        ck = json.dumps(a, sort_keys=True)
                        if ck in dist_cache:
                            if not dist_cache[ck]:
                                dist_ok = False
                            continue
                        pr = provenance(f, a, through=None)
                        sub = any(r[0] == "op" and r[1].startswith("Sub") for r in pr)
                        lines = sum(1 for r in pr if r[0] == "call" and r[1].endswith("Position::line"))
                        srcs = set()
                        for r in pr:
                            if r[0] == "call" and r[1].endswith("Position::line"):
                                srcs |= {x.split("::")[-1] for x in prov_calls(provenance(f, f.blocks[r[2]]["term"]["args"][0]))
                                         if x.endswith("start_position") or x.endswith("end_position")}
                        dist_cache[ck] = sub and lines == 2 and srcs == {"start_position", "end_position"}
                        if not dist_cache[ck]:
                            dist_ok = False
                    elif op in ("Gt", "Ge", "Lt", "Le") and (is_const(b_) or is_const(a)):
                        gt = ("other", op, (b_ if is_const(b_) else a).get("v"))
            created = bool(blocks1 & agg_blocks)
            rows.setdefault((opt, part, ne, gt if not isinstance(gt, tuple) else str(gt)), set()).add(created)

        def expected(opt, part, ne, gt):
            if opt == "None":
                return True
            if part == "Other":
                return True
            if ne is True:
                return True
            if ne is False and gt is True:
                return True
            if ne is False and gt is False:
                return False
            return None
        classes = set()
        bad = []
        for (opt, part, ne, gt), outs in sorted(rows.items(), key=str):
            want = expected(opt, part, ne, gt)
            if want is None or outs != {want}:
                bad.append(((opt, part, ne, gt), sorted(outs), want))
            else:
                classes.add("no-previous-part" if opt == "None" else "previous-is-Other" if part == "Other" else
                            "kind-differs" if ne else "line-distance>1" if gt else "adjacent-same-kind-joins")
        want_classes = {"no-previous-part", "previous-is-Other", "kind-differs", "line-distance>1", "adjacent-same-kind-joins"}
        ok = not bad and classes == want_classes and dist_ok
        rep.inst(f"{f.key} new-group decision table", {"rows": {str(k): sorted(v) for k, v in rows.items()}}, cfg, ok=ok)
        if not ok:
            reasons = sorted(classes) + [f"row{r[0]}->{r[1]}" for r in bad] + ([] if dist_ok else ["distance:unexpected-operands"])
            rep.violation(f"{f.key} new-group-conditions {reasons}",
                          f"a new require group is started on {reasons}; documented: no previous part | previous part is not a "
                          f"require group | different kind | more than one line between the end of the previous require and "
                          f"the start of this one - groups separated by a blank line, another statement or a different kind "
                          f"could merge (or adjacent requires be split)", f.loc(), cfg)
        # a non-require statement closes the current group: the fall-through path pushes BlockPartition::Other
        others = [(b, s) for b, si_, s in f.stmts() if s["k"] == "assign" and s["rv"]["k"] == "agg" and s["rv"].get("variant") == "Other"]
        rep.inst(f"{f.key} non-require statements open an Other part", {"sites": len(others)}, cfg, ok=len(others) >= 1)
        if not others:
            rep.violation(f"{f.key} no-Other-part", "non-require statements no longer separate require groups", f.loc(), cfg)
    return rep



def rule_pairs(ctx, prop):
    """the sorter moves (statement, semicolon) pairs as a whole: it never builds such a pair itself"""
    rep = Report(prop, "R-SORT(pairs)", "sort_requires only re-orders the block's (Stmt, Option<semicolon>) pairs - every pair "
                                        "in its output is a clone of an input pair, none is assembled from parts")
    for cfg, prog in ctx.programs.items():
        fns = [f for f in prog.fns("stylua_lib") if f.path.startswith("sort_requires::sort_requires")]
        if not rep.anchor(bool(fns), "sort_requires", cfg):
            continue
        n = 0
        for f in fns:
            for b, si_, s in f.stmts():
                if s["k"] == "assign" and s["rv"]["k"] == "agg" and "tuple" in s["rv"]:
                    ty = f.local_ty(s["dst"]["l"])
                    n += 1
                    if re.match(r"^\(full_moon::ast::Stmt, std::option::Option<full_moon::tokenizer::TokenReference>\)$", ty):
                        parts = []
                        for o in s["rv"]["ops"]:
                            parts.append("const" if is_const(o) else ",".join(sorted(c.split("::")[-1] for c in prov_calls(provenance(f, o)))) or "value")
                        # a pair re-assembled from both halves of one input pair (`for (stmt, semi) in list { push((stmt, semi)) }`)
                        # is the same pair; what matters is a semicolon half that is not the input's
                        semi = s["rv"]["ops"][1]
                        semi_roots = provenance(f, semi, through=None) if not is_const(semi) else {("const", "None")}
                        fresh = is_const(semi) or any(r[0] == "agg" and r[1].endswith("Option::None") for r in semi_roots) or \
                            any(r[0] == "call" and re.search(r"TokenReference::(new|symbol)$", r[1]) for r in semi_roots)
                        if not fresh:
                            continue
                        rep.violation(f"{f.key} statement-pair-assembled parts={'|'.join(parts)[:60]}",
                                      f"{f.path} builds a (Stmt, semicolon) pair itself ({parts}) instead of moving the block's own pair: "
                                      f"the semicolon token of a sorted require - and every comment attached to it - is dropped or "
                                      f"replaced", f.loc(s.get("sp")), cfg)
            rep.inst(f"{f.key} builds no (Stmt, semicolon) pair", None, cfg, ok=True)
        rep.floor("functions of the sorter scanned", len(fns), 3, cfg)
    return rep

def rule_group_pairend(ctx, prop):
    """R-GROUP(pairend): the line distance to the next statement is measured from the end of the previous member *with its
    semicolon* - end_position() of the (Stmt, Option<TokenReference>) pair, not of the statement alone"""
    rep = Report(prop, "R-GROUP(pairend)", "in partition_nodes_into_groups every Node::end_position call is the one of the "
                                           "(statement, semicolon) pair: a `;` on a line of its own belongs to the previous require")
    for cfg, prog in ctx.programs.items():
        fs = [f for f in prog.fns("stylua_lib") if f.path == "sort_requires::partition_nodes_into_groups"
              or f.path.startswith("sort_requires::partition_nodes_into_groups::{closure")]
        if not rep.anchor(bool(fs), "partition_nodes_into_groups", cfg):
            continue
        n = 0
        for f in fs:
            for b, t in f.calls():
                full = t.get("rfn") or t.get("fn") or ""
                if not full.endswith("Node>::end_position"):
                    continue
                n += 1
                self_ty = full.split(" as ")[0].lstrip("<")
                ok = self_ty.startswith("(") and "Stmt" in self_ty and "Option<" in self_ty and "TokenReference" in self_ty
                rep.inst(f"{f.key} end_position of {self_ty}", {"at": f.loc(t["sp"])}, cfg, ok=ok)
                if not ok:
                    rep.violation(f"{f.key} adjacency-measured-from-statement-without-semicolon {self_ty.split('::')[-1]}",
                                  f"{f.path} measures the distance to the next statement from end_position() of `{self_ty}`, not of "
                                  f"the (statement, semicolon) pair: `local b = require(\"b\")` / `;` on its own line / `local a = "
                                  f"require(\"a\")` is split into two groups and comes out unsorted", f.loc(t["sp"]), cfg,
                                  witness={"input": 'local bee = require("b")\n;\nlocal ah = require("a")\n'})
        rep.floor("end_position calls in the grouping", n, 1, cfg)
    return rep


def run(ctx):
    import r_exh
    sub = Report("C12", "R-GROUPFILL", "require groups only receive LocalAssignment statements")
    for cfg, prog in ctx.programs.items():
        r_exh._groupfill(prog, sub, cfg)
    return [rule_pairs(ctx, "C12"), rule_sort(ctx, "C12"), rule_group(ctx, "C12"), r_skip.rule_toggle(ctx, "C12"), r_skip.rule_sort_guard(ctx, "C12"), r_skip.rule_node_type(ctx, "C12"), sub, r_arms.rule_arms(ctx, "C12", only=r"^sort_requires::"), r_skip.rule_sort_emit(ctx, "C12"), rule_group_total(ctx, "C12"), rule_group_pairend(ctx, "C12")]


def rule_group_total(ctx, prop):
    """the rebuilt block is made of the partitions: a statement that lands in none of them is deleted from the file"""
    rep = Report(prop, "R-GROUP(total)", "in partition_nodes_into_groups the loop over the block's statements cannot return to its head without "
                                         "a push: every statement is put into a require group or into an Other partition")
    for cfg, prog in ctx.programs.items():
        f = prog.fn("stylua_lib", "sort_requires::partition_nodes_into_groups")
        if not rep.anchor(f is not None, "sort_requires::partition_nodes_into_groups", cfg):
            continue
        pushes = {b for b, t in f.calls() if re.search(r"Vec::<.*>::push$|Vec<.*>::push$|Vec::<.*>::(extend|append|insert)$|Extend<.*>>::extend$", callee(t))}
        dom = f.dominators()
        heads = [b for b, t in f.calls() if re.search(r"Iterator>?::next$", callee(t)) and f.blocks[b]["term"].get("t") is not None
                 and b in f.reach_from(f.blocks[b]["term"]["t"]) and all(b in dom.get(p_, ()) for p_ in pushes)]
        if not rep.anchor(bool(heads) and bool(pushes), "statement loop and pushes in partition_nodes_into_groups", cfg):
            continue
        h = max(heads, key=lambda x: len(dom.get(x, ())))
        nxt = f.blocks[h]["term"]["t"]
        skip = h in f.reach_from(nxt, avoid=pushes)
        rep.inst(f"{f.key} every statement is pushed into a partition", {"pushes": len(pushes)}, cfg, ok=not skip)
        if skip:
            rep.violation(f"{f.key} statement-lands-in-no-partition",
                          "the loop of partition_nodes_into_groups has a path back to its head that pushes the statement nowhere (a "
                          "`continue` before the fall-through): sort_requires rebuilds the block from the partitions, so that statement - "
                          "and its comments - disappears from the output", f.loc(), cfg)
    return rep
