"""C12 Require sorting only permutes statements inside a require block - static necessary conditions."""
from engine import Report
from facts import *
import r_skip

EXPLANATION = (
    "A-WHO / A-DOM over stylua_lib: (gating) sort_requires::sort_requires is called only from format_ast, on the true "
    "edge of `config.sort_requires.enabled`, and with the option on every path to the formatter has sorted (no other condition switches it off); no other call in the library resolves to a sort/reverse/swap/rotate/"
    "dedup/retain on a collection whose element type mentions Stmt (with the option off, statement order never "
    "changes); (stability) the sort callee is a stable slice sort; (trivia) the group's leading trivia is taken from "
    "index 0 before the sort and restored to index 0 after it; (R-GROUP) a new group is started exactly on: no previous part, previous part not a require group, different kind, or line distance > 1; (R-SORTGUARD) the sort is reached only if every member is Normal; (R-SKIP d) the Context used to ask should_format_node "
    "for group members is threaded through check_toggle_formatting; (R-GROUPFILL) groups only receive "
    "LocalAssignment statements. Not decided: the permutation property itself (that the output is the stable name-ordered permutation).")
ASSUMPTIONS = ["slice::sort_by_key is stable (std contract)", "rustc MIR and Instance::try_resolve are trusted"]

REORDER = re.compile(r"::(sort|sort_by|sort_by_key|sort_by_cached_key|sort_unstable|sort_unstable_by|"
                     r"sort_unstable_by_key|reverse|swap|rotate_left|rotate_right|dedup|dedup_by|dedup_by_key|"
                     r"retain|retain_mut|swap_remove|select_nth_unstable\w*)$")
STABLE = re.compile(r"::(sort|sort_by|sort_by_key|sort_by_cached_key)$")


def rule_sort(ctx, prop):
    rep = Report(prop, "R-SORT", "require sorting is gated, stable, and the only reordering of statements")
    for cfg, prog in ctx.programs.items():
        # (1) gating
        sites = list(call_sites(prog, r"^sort_requires::sort_requires$", "stylua_lib")) + \
            [(g, b, None) for g, b, o in fn_refs(prog, r"^sort_requires::sort_requires$", "stylua_lib")]
        ok = len(sites) == 1 and sites[0][0].path == "format_ast" and sites[0][2] is not None
        rep.inst("stylua_lib::sort_requires::sort_requires callers", {"callers": [g.key for g, _, _ in sites]}, cfg, ok=ok)
        if not ok:
            rep.violation("stylua_lib::sort_requires::sort_requires unexpected-caller",
                          f"sort_requires is reachable from {[g.key for g, _, _ in sites]} (expected: format_ast only)",
                          None, cfg)
        else:
            f, b, t = sites[0]
            from r_cli import field_switches
            sw = field_switches(f, "enabled")
            okg = any(f.dominates(tr, b) and (fl is None or b not in f.reach_from(fl)) and
                      ("f", "sort_requires") in proj_fields(pl) for _, tr, fl, pl in sw)
            rep.inst("stylua_lib::format_ast sort-only-if-enabled", None, cfg, ok=okg)
            if not okg:
                rep.violation("stylua_lib::format_ast sort-not-gated",
                              "sort_requires is not dominated by the true edge of config.sort_requires.enabled: "
                              "statements can be reordered with the option off", f.loc(t["sp"]), cfg)
            # path form: with the option on, *every* path of format_ast that reaches the formatter has sorted first; with
            # the option off none has (no other condition may switch the sorting off, e.g. a range)
            from paths import Enumerator, TooManyPaths
            try:
                pres = Enumerator(f, summaries=False, max_paths=5000).run()
            except TooManyPaths:
                pres = []
                rep.anchor(False, "format_ast: too many paths", cfg)
            bad_on, bad_off, npaths = set(), set(), 0
            for st in pres:
                en = [v for k, v in st.disc.items() if k.endswith("sort_requires.enabled")]
                if not en:
                    continue
                if not any(c.endswith("CodeFormatter::format") for _, c, _ in st.calls):
                    continue
                npaths += 1
                sorted_ = any(c == "sort_requires::sort_requires" for _, c, _ in st.calls)
                if en[0] == "true" and not sorted_:
                    bad_on.add(tuple(sorted(callee(f.blocks[bb]["term"]).split("::")[-1] for bb in st.decisions) +
                                     sorted(f"{callee(f.blocks[int(k.split(':')[1].split('.')[0])]['term']).split('::')[-1]}={v}"
                                            for k, v in st.disc.items() if k.startswith("call:") and isinstance(v, str) and
                                            v not in ("Ok", "Err", "Some", "None"))))
                if en[0] == "false" and sorted_:
                    bad_off.add(True)
            rep.inst("stylua_lib::format_ast option on => sorted on every path; off => never", {"paths": npaths}, cfg,
                     ok=not bad_on and not bad_off and npaths >= 2)
            for why in sorted(bad_on)[:1]:
                rep.violation(f"stylua_lib::format_ast sort-skipped-although-enabled decided-by={list(why)}",
                              f"with sort_requires enabled a path of format_ast reaches the formatter without calling "
                              f"sort_requires (decided by {list(why)}): require groups stay unsorted although the option is on",
                              f.loc(t["sp"]), cfg)
            if bad_off:
                rep.violation("stylua_lib::format_ast sort-not-gated", "sort_requires runs on a path where the option is off",
                              f.loc(t["sp"]), cfg)
            # runs before formatting: dominates the CodeFormatter::format call... (order of the two calls)
            fm = [bb for bb, tt in f.calls() if callee(tt).endswith("CodeFormatter::format")]
            okb = bool(fm) and all(bb in f.reach_from(b) for bb in fm)
            rep.inst("stylua_lib::format_ast sort-before-format", None, cfg, ok=okb)
            if not okb:
                rep.violation("stylua_lib::format_ast sort-after-format", "require sorting does not precede formatting",
                              f.loc(), cfg)
        # (2) reordering calls on Stmt collections
        n = 0
        for f, b, t in call_sites(prog, REORDER, "stylua_lib"):
            full = callee_full(t)
            recv_ty = f.local_ty(op_place(t["args"][0])["l"]) if t["args"] and not is_const(t["args"][0]) else ""
            if "Stmt" not in full and "Stmt" not in recv_ty:
                continue
            n += 1
            c = callee(t)
            inside = f.path == "sort_requires::sort_requires" or f.path.startswith("sort_requires::sort_requires::")
            ok = inside and bool(STABLE.search(c))
            rep.inst(f"{f.key} reorders-statements via {c.split('::')[-1]}", {"fn": f.key, "callee": full, "at": f.loc(t["sp"])},
                     cfg, ok=ok)
            if not inside:
                rep.violation(f"{f.key} reorders-statements {c.split('::')[-1]}",
                              f"{f.path} calls {full} on a collection of statements: statement order can change outside "
                              f"require sorting", f.loc(t["sp"]), cfg)
            elif not STABLE.search(c):
                rep.violation(f"{f.key} unstable-sort {c.split('::')[-1]}",
                              f"require groups are sorted with {c}: equal names may exchange places (duplicate names "
                              f"are not kept in input order)", f.loc(t["sp"]), cfg)
        rep.floor("reordering calls on statement collections", n, 1, cfg)
        # (3) trivia save / sort / restore order inside sort_requires
        f = prog.fn("stylua_lib", "sort_requires::sort_requires")
        if rep.anchor(f is not None, "sort_requires::sort_requires", cfg):
            sorts = [b for b, t in f.calls() if STABLE.search(callee(t)) or REORDER.search(callee(t))]
            firsts = [b for b, t in f.calls() if callee(t).endswith("::first_mut")]
            ups = [(b, t) for b, t in f.calls() if callee(t).endswith("UpdateLeadingTrivia>::update_leading_trivia")]
            if rep.anchor(len(sorts) == 1 and len(firsts) == 2 and len(ups) == 2,
                          f"sort_requires: one sort, two first_mut, two update_leading_trivia "
                          f"({len(sorts)},{len(firsts)},{len(ups)})", cfg):
                sb = sorts[0]
                before = [b for b in firsts if f.dominates(b, sb)]
                after = [b for b in firsts if f.dominates(sb, b)]
                ok = len(before) == 1 and len(after) == 1
                rep.inst(f"{f.key} leading-trivia saved-before / restored-after sort", None, cfg, ok=ok)
                if not ok:
                    rep.violation(f"{f.key} trivia-save-restore-order",
                                  "the group's leading trivia is not taken from the first member before the sort and "
                                  "restored to the first member after it", f.loc(), cfg)
                # the restore writes the saved trivia (Replace(leading_trivia)), the save writes Replace(vec![])
                for b, t in ups:
                    pass
    return rep


def rule_group(ctx, prop):
    """R-GROUP: a new require group is started iff there is no previous part, the previous part is not a require
    group, its kind differs, or more than one line separates the two statements."""
    rep = Report(prop, "R-GROUP", "partition_nodes_into_groups starts a new group on: no previous part | previous part is "
                                  "Other | different kind | line distance > 1; requires join a group only otherwise")
    for cfg, prog in ctx.programs.items():
        f = prog.fn("stylua_lib", "sort_requires::partition_nodes_into_groups")
        if not rep.anchor(f is not None, "partition_nodes_into_groups", cfg):
            continue
        # the bool whose true edge dominates the construction of a new RequiresGroup
        aggs = [(b, s) for b, si_, s in f.stmts() if s["k"] == "assign" and s["rv"]["k"] == "agg" and
                s["rv"].get("variant") == "RequiresGroup"]
        if not rep.anchor(len(aggs) == 1, "single RequiresGroup construction", cfg):
            continue
        ab = aggs[0][0]
        flag = None
        for sb in f.dominators().get(ab, ()):
            t = f.blocks[sb]["term"]
            if t["k"] == "switch" and t["ty"] == "bool" and f.dominates(t["otherwise"], ab) and t["otherwise"] != sb:
                l = op_local(t["on"])
                ds = f.defs().get(l, [])
                while len(ds) == 1 and ds[0][1] != "term" and ds[0][2]["rv"]["k"] == "use" and not is_const(ds[0][2]["rv"]["o"]) \
                        and not op_place(ds[0][2]["rv"]["o"]).get("p"):
                    l = op_place(ds[0][2]["rv"]["o"])["l"]
                    ds = f.defs().get(l, [])
                if len(ds) >= 3:
                    flag = (l, ds)
        if not rep.anchor(flag is not None, "the create-new-group flag", cfg):
            continue
        l, ds = flag
        reasons = set()
        for dbi, dsi, s in ds:
            if dsi == "term":
                reasons.add("call:" + callee(s).split("::")[-1])
                continue
            rv = s["rv"]
            if rv["k"] == "use" and is_const(rv["o"]) and rv["o"].get("v") is True:
                if guarded_by_variant(f, dbi, "option::Option", "None"):
                    reasons.add("no-previous-part")
                elif guarded_by_variant(f, dbi, "BlockPartition", "Other"):
                    reasons.add("previous-is-Other")
                else:
                    # under the true edge of `other_kind != expression_kind`
                    ok = False
                    for sb in f.dominators().get(dbi, ()):
                        tt = f.blocks[sb]["term"]
                        if tt["k"] == "switch" and tt["ty"] == "bool" and f.dominates(tt["otherwise"], dbi):
                            pr = provenance(f, tt["on"], through=None)
                            for r in pr:
                                if r[0] == "call" and r[1].endswith("::ne") and "GroupKind" in (f.blocks[r[2]]["term"].get("fn") or ""):
                                    ok = True
                    reasons.add("kind-differs" if ok else "true:unexplained")
            elif rv["k"] == "use" and is_const(rv["o"]) and rv["o"].get("v") is False:
                reasons.add("false-constant")
            elif rv["k"] == "binop":
                b = rv["b"]
                if rv["op"] == "Gt" and is_const(b) and b.get("v") == 1:
                    # lhs = current_line - previous_line
                    pr = provenance(f, rv["a"], through=None)
                    sub = any(r[0] == "op" and r[1].startswith("Sub") for r in pr)
                    lines = sum(1 for r in pr if r[0] == "call" and r[1].endswith("Position::line"))
                    reasons.add("line-distance>1" if sub and lines == 2 else "distance:unexpected-operands")
                else:
                    reasons.add(f"compare:{rv['op']}:{b.get('v') if is_const(b) else '?'}")
            else:
                reasons.add("other:" + rv["k"])
        want = {"no-previous-part", "previous-is-Other", "kind-differs", "line-distance>1"}
        ok = reasons == want
        rep.inst(f"{f.key} new-group conditions", {"found": sorted(reasons)}, cfg, ok=ok)
        if not ok:
            rep.violation(f"{f.key} new-group-conditions {sorted(reasons)}",
                          f"a new require group is started on {sorted(reasons)}; documented: {sorted(want)} - groups "
                          f"separated by a blank line, another statement or a different kind could merge (or adjacent "
                          f"requires be split)", f.loc(), cfg)
        # a non-require statement closes the current group: the fall-through path pushes BlockPartition::Other
        others = [(b, s) for b, si_, s in f.stmts() if s["k"] == "assign" and s["rv"]["k"] == "agg" and s["rv"].get("variant") == "Other"]
        rep.inst(f"{f.key} non-require statements open an Other part", {"sites": len(others)}, cfg, ok=len(others) >= 1)
        if not others:
            rep.violation(f"{f.key} no-Other-part", "non-require statements no longer separate require groups", f.loc(), cfg)
    return rep


def run(ctx):
    import r_exh
    sub = Report("C12", "R-GROUPFILL", "require groups only receive LocalAssignment statements")
    for cfg, prog in ctx.programs.items():
        r_exh._groupfill(prog, sub, cfg)
    return [rule_sort(ctx, "C12"), rule_group(ctx, "C12"), r_skip.rule_toggle(ctx, "C12"), r_skip.rule_sort_guard(ctx, "C12"), sub]


