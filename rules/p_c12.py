"""C12 Require sorting only permutes statements inside a require block - static necessary conditions."""
from engine import Report
from facts import *
import r_skip

EXPLANATION = (
    "A-WHO / A-DOM over stylua_lib: (gating) sort_requires::sort_requires is called only from format_ast, on the true "
    "edge of `config.sort_requires.enabled`; no other call in the library resolves to a sort/reverse/swap/rotate/"
    "dedup/retain on a collection whose element type mentions Stmt (with the option off, statement order never "
    "changes); (stability) the sort callee is a stable slice sort; (trivia) the group's leading trivia is taken from "
    "index 0 before the sort and restored to index 0 after it; (R-SKIP d) the Context used to ask should_format_node "
    "for group members is threaded through check_toggle_formatting; (R-GROUPFILL) groups only receive "
    "LocalAssignment statements. Not decided: grouping by line distance, the permutation property itself.")
ASSUMPTIONS = ["slice::sort_by_key is stable (std contract)", "rustc MIR and Instance::try_resolve are trusted"]

REORDER = re.compile(r"::(sort|sort_by|sort_by_key|sort_by_cached_key|sort_unstable|sort_unstable_by|"
                     r"sort_unstable_by_key|reverse|swap|rotate_left|rotate_right|dedup|dedup_by|dedup_by_key|"
                     r"retain|retain_mut|swap_remove|select_nth_unstable\w*)$")
STABLE = re.compile(r"::(sort|sort_by|sort_by_key|sort_by_cached_key)$")


def rule_sort(ctx, prop):
    rep = Report(prop, "R-SORT", "require sorting is gated, stable, and the only reordering of statements")
    for cfg, prog in ctx.programs.items():
        # (1) gating
        sites = list(call_sites(prog, r"^sort_requires::sort_requires$", "stylua_lib")) + \
            [(g, b, None) for g, b, o in fn_refs(prog, r"^sort_requires::sort_requires$", "stylua_lib")]
        ok = len(sites) == 1 and sites[0][0].path == "format_ast" and sites[0][2] is not None
        rep.inst("stylua_lib::sort_requires::sort_requires callers", {"callers": [g.key for g, _, _ in sites]}, cfg, ok=ok)
        if not ok:
            rep.violation("stylua_lib::sort_requires::sort_requires unexpected-caller",
                          f"sort_requires is reachable from {[g.key for g, _, _ in sites]} (expected: format_ast only)",
                          None, cfg)
        else:
            f, b, t = sites[0]
            from r_cli import field_switches
            sw = field_switches(f, "enabled")
            okg = any(f.dominates(tr, b) and (fl is None or b not in f.reach_from(fl)) and
                      ("f", "sort_requires") in proj_fields(pl) for _, tr, fl, pl in sw)
            rep.inst("stylua_lib::format_ast sort-only-if-enabled", None, cfg, ok=okg)
            if not okg:
                rep.violation("stylua_lib::format_ast sort-not-gated",
                              "sort_requires is not dominated by the true edge of config.sort_requires.enabled: "
                              "statements can be reordered with the option off", f.loc(t["sp"]), cfg)
            # runs before formatting: dominates the CodeFormatter::format call... (order of the two calls)
            fm = [bb for bb, tt in f.calls() if callee(tt).endswith("CodeFormatter::format")]
            okb = bool(fm) and all(bb in f.reach_from(b) for bb in fm)
            rep.inst("stylua_lib::format_ast sort-before-format", None, cfg, ok=okb)
            if not okb:
                rep.violation("stylua_lib::format_ast sort-after-format", "require sorting does not precede formatting",
                              f.loc(), cfg)
        # (2) reordering calls on Stmt collections
        n = 0
        for f, b, t in call_sites(prog, REORDER, "stylua_lib"):
            full = callee_full(t)
            recv_ty = f.local_ty(op_place(t["args"][0])["l"]) if t["args"] and not is_const(t["args"][0]) else ""
            if "Stmt" not in full and "Stmt" not in recv_ty:
                continue
            n += 1
            c = callee(t)
            inside = f.path == "sort_requires::sort_requires" or f.path.startswith("sort_requires::sort_requires::")
            ok = inside and bool(STABLE.search(c))
            rep.inst(f"{f.key} reorders-statements via {c.split('::')[-1]}", {"fn": f.key, "callee": full, "at": f.loc(t["sp"])},
                     cfg, ok=ok)
            if not inside:
                rep.violation(f"{f.key} reorders-statements {c.split('::')[-1]}",
                              f"{f.path} calls {full} on a collection of statements: statement order can change outside "
                              f"require sorting", f.loc(t["sp"]), cfg)
            elif not STABLE.search(c):
                rep.violation(f"{f.key} unstable-sort {c.split('::')[-1]}",
                              f"require groups are sorted with {c}: equal names may exchange places (duplicate names "
                              f"are not kept in input order)", f.loc(t["sp"]), cfg)
        rep.floor("reordering calls on statement collections", n, 1, cfg)
        # (3) trivia save / sort / restore order inside sort_requires
        f = prog.fn("stylua_lib", "sort_requires::sort_requires")
        if rep.anchor(f is not None, "sort_requires::sort_requires", cfg):
            sorts = [b for b, t in f.calls() if STABLE.search(callee(t)) or REORDER.search(callee(t))]
            firsts = [b for b, t in f.calls() if callee(t).endswith("::first_mut")]
            ups = [(b, t) for b, t in f.calls() if callee(t).endswith("UpdateLeadingTrivia>::update_leading_trivia")]
            if rep.anchor(len(sorts) == 1 and len(firsts) == 2 and len(ups) == 2,
                          f"sort_requires: one sort, two first_mut, two update_leading_trivia "
                          f"({len(sorts)},{len(firsts)},{len(ups)})", cfg):
                sb = sorts[0]
                before = [b for b in firsts if f.dominates(b, sb)]
                after = [b for b in firsts if f.dominates(sb, b)]
                ok = len(before) == 1 and len(after) == 1
                rep.inst(f"{f.key} leading-trivia saved-before / restored-after sort", None, cfg, ok=ok)
                if not ok:
                    rep.violation(f"{f.key} trivia-save-restore-order",
                                  "the group's leading trivia is not taken from the first member before the sort and "
                                  "restored to the first member after it", f.loc(), cfg)
                # the restore writes the saved trivia (Replace(leading_trivia)), the save writes Replace(vec![])
                for b, t in ups:
                    pass
    return rep


def run(ctx):
    import r_exh
    sub = Report("C12", "R-GROUPFILL", "require groups only receive LocalAssignment statements")
    for cfg, prog in ctx.programs.items():
        r_exh._groupfill(prog, sub, cfg)
    return [rule_sort(ctx, "C12"), r_skip.rule_toggle(ctx, "C12"), r_skip.rule_sort_guard(ctx, "C12"), sub]
