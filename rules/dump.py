"""Debug helper: pretty-print the extracted facts of functions matching a regex.
usage: dump.py <config> <crate> <fn-regex>"""
import sys, os
sys.path.insert(0, os.path.dirname(os.path.abspath(__file__)))
from facts import *
import extract


def op_s(o):
    if o is None: return "?"
    if o.get("c") == 1:
        if "fn" in o: return f"fn {o.get('rfn') or o['fn']}"
        if "static" in o: return f"static {o['static']}"
        if "s" in o: return repr(o["s"])
        if "variant" in o: return f"{o['ty']}::{o['variant']}"
        if "v" in o: return f"{o['v']}_{o['ty']}"
        if "promoted" in o: return f"promoted[{o['promoted']}]"
        return f"const {o.get('pp')}"
    if "cp" in o: return place_str(o["cp"])
    if "mv" in o: return "move " + place_str(o["mv"])
    return str(o)


def rv_s(rv):
    k = rv["k"]
    if k == "use": return op_s(rv["o"])
    if k == "ref": return ("&mut " if rv["mut"] else "&") + place_str(rv["p"])
    if k == "rawptr": return "&raw " + place_str(rv["p"])
    if k == "discr": return f"discriminant({place_str(rv['p'])}) [{rv['enum']}]"
    if k == "cast": return f"{op_s(rv['o'])} as {rv['ty']} ({rv['ck']})"
    if k == "binop": return f"{rv['op']}({op_s(rv['a'])}, {op_s(rv['b'])})"
    if k == "unop": return f"{rv['op']}({op_s(rv['a'])})"
    if k == "agg":
        if "adt" in rv: h = f"{rv['adt']}::{rv['variant']}"
        elif "closure" in rv: h = f"closure {rv['closure']}"
        elif "tuple" in rv: h = "tuple"
        else: h = "array"
        return f"{h}({', '.join(op_s(o) for o in rv['ops'])})"
    return f"{k} {rv.get('dbg','')}"


def dump(f, out=sys.stdout):
    print(f"fn {f.crate}::{f.path}  [{f.loc()}] argc={f.argc}", file=out)
    print("  names:", {k: place_str(v) for k, v in f.names.items()}, file=out)
    for i, t in enumerate(f.locals):
        print(f"  let _{i}: {t}", file=out)
    for bi, b in enumerate(f.blocks):
        print(f"  bb{bi}{' (cleanup)' if b['cleanup'] else ''}:", file=out)
        for s in b["st"]:
            if s["k"] == "assign":
                m = span_macros(s.get("sp"))
                print(f"    {place_str(s['dst'])} = {rv_s(s['rv'])}   // {s['sp']['l']}{' '+str(m) if m else ''}", file=out)
            else:
                print(f"    {s}", file=out)
        t = b["term"]
        k = t["k"]
        if k == "call":
            m = span_macros(t.get("sp"))
            print(f"    {place_str(t['dst'])} = call {callee(t)}({', '.join(op_s(a) for a in t['args'])}) -> bb{t['t']} uw bb{t['uw']}   // {t['sp']['l']}{' '+str(m) if m else ''}  [{t.get('fn')}]", file=out)
        elif k == "switch":
            si = switch_info(f, bi)
            if si and not si.get("unknown_adt"):
                print(f"    switch {op_s(t['on'])} [{si['enum']} on {place_str(si['place'])}] {si['targets']} otherwise bb{si['otherwise']} {si['otherwise_variants']}   // {t['sp']['l']}", file=out)
            else:
                print(f"    switch {op_s(t['on'])}: {t['ty']} {t['targets']} otherwise bb{t['otherwise']}   // {t['sp']['l']}", file=out)
        elif k == "goto": print(f"    goto bb{t['t']}", file=out)
        elif k == "drop": print(f"    drop({place_str(t['place'])}) -> bb{t['t']}", file=out)
        elif k == "assert": print(f"    assert({op_s(t['cond'])} == {t['expected']}) -> bb{t['t']}", file=out)
        else: print(f"    {k}", file=out)


if __name__ == "__main__":
    cfg, crate, rx = sys.argv[1], sys.argv[2], sys.argv[3]
    files, _ = extract.extract([cfg], verbose=False)
    P = Program(cfg, files[cfg])
    for f in P.find_fns(crate, rx):
        dump(f)
