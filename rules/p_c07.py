"""C07 The formatter is total: it never panics or hangs - static necessary conditions."""
from engine import Report
from facts import *
import r_exh

EXPLANATION = (
    "Static necessary conditions of totality, decided on the MIR of every feature configuration: "
    "(R-EXH) every match on a full_moon AST enum whose wildcard arm panics handles every variant that exists "
    "in that configuration (full_moon's cfg decides variants, StyLua's cfg decides arms; the pinned suite "
    "builds default features only); (R-SUBSET) deliberate subset matches handle at least what their guarding "
    "predicate admits; (R-PARSE) format_code reaches format_ast only on the Ok edge of the parse result and "
    "builds Ok only there; (R-HEUR) trial formatting inside function_args_multiline_heuristic is bounded by the "
    "simple_heuristics flag; (R-BELIEF) the failure edge of a text conversion of token text (str::parse, "
    "from_str_radix, ...) never runs straight into unreachable!/panic!/unwrap - Lua's literal grammar is wider than "
    "Rust's parsers; (R-PAREN, role prefix) the stated belief of block::prefix_remove_leading_newlines - a formatted "
    "Prefix::Expression is always Expression::Parentheses, else unreachable!() - holds on every layout path: no context "
    "with which an expression in prefix role reaches the parenthesis gate removes parentheses of any kind. (R-ONCE) no formatter is applied to a node that already came out of a formatter (rebuilt tokens have no source position: the range test and format_field's unreachable!() depend on it). (R-SLICE) no string / slice is indexed with an offset that comes from a caller-supplied Range / usize argument. Decides these clauses, not the behaviour: value-dependent panics (usize "
    "subtraction, unwrap on positions), stack depth and running time are not decided (census reported only)."
    "Later rounds: (R-ONCE) through iterator items and closure parameters; (R-WASTE) no recursive formatter call has a result that is neither inspected nor returned on some path, beyond the ten trial-layout sites frozen in rules/frozen_waste.json (hoisted formatting is exponential in the nesting depth). Rounds 17-19: (R-TRIALSHAPE) trial layouts that used a bounded-cost shape on the pinned tree still do (rules/frozen_trialshape.json). Rounds 20-21: (R-GUARD) frozen comment tests (they also keep `--[[ stylua: ignore ]]` statements off paths that assert FormatNode::Normal).")
ASSUMPTIONS = [
    "rustc MIR and Instance::try_resolve are trusted",
    "full_moon only produces AST values its enum definitions (as compiled in the configuration) allow",
    "invariant-justified subset matches listed in r_exh.SUBSET_TABLE are trusted for the stated reason",
    "a panic reachable only for particular runtime values (arithmetic, unwrap of positions) is outside this check",
]


def rule_parse(ctx, prop):
    rep = Report(prop, "R-PARSE", "format_code: formatting and Ok(..) only on the Ok edge of the parse result; "
                                  "Err edge returns Error::ParseError")
    from paths import Enumerator, TooManyPaths
    for cfg, prog in ctx.programs.items():
        f = prog.fn("stylua_lib", "format_code")
        if not rep.anchor(f is not None, "format_code", cfg):
            continue
        parse_calls = [(b, t) for b, t in f.calls() if re.search(r"full_moon::parse(_fallible)?$", callee(t))]
        if not rep.anchor(len(parse_calls) == 1, "exactly one parse call in format_code", cfg):
            continue
        # calls whose result *is* the parse result (into_result / map_err / Try::branch chains on it)
        carriers = {parse_calls[0][0]}
        changed = True
        while changed:
            changed = False
            for b, t in f.calls():
                if b in carriers or not t["args"]:
                    continue
                c = callee(t)
                if re.search(r"into_result$|Result::<.*>::map_err$|Try>::branch$|Result::<T, E>::map_err$", c) and \
                        any(r[0] == "call" and r[2] in carriers for r in provenance(f, t["args"][0], through=None)):
                    carriers.add(b)
                    changed = True
        try:
            res = Enumerator(f, summaries=False, max_paths=20000).run()
        except TooManyPaths:
            rep.anchor(False, "format_code: too many paths", cfg)
            continue
        nok = nerr = 0
        for st in res:
            verdict = None
            for k, v in st.disc.items():
                if k.startswith("call:") and "." not in k and int(k[5:]) in carriers:
                    if v in ("Ok", "Continue"):
                        verdict = verdict or "ok"
                    elif v in ("Err", "Break"):
                        verdict = "err"
            names = [c for _, c, _ in st.calls]
            formats = any(re.search(r"(^|::)format_ast$", c) for c in names)
            v0 = st.vals.get(0)
            returns_ok = bool(v0 and v0[0] == "agg" and v0[2] == "Ok")
            if verdict == "ok":
                nok += 1
            elif verdict == "err":
                nerr += 1
                pe = any(s["k"] == "assign" and s["rv"]["k"] == "agg" and s["rv"].get("variant") == "ParseError"
                         for b in st.trail for s in f.blocks[b]["st"]) or \
                    any(c.endswith("map_err") and any(r[0] == "const" and "ParseError" in r[1]
                                                      for r in provenance(f, t["args"][1], through=None))
                        for _, c, t in st.calls if c.endswith("map_err"))
                okp = not formats and not returns_ok and pe
                rep.inst(f"{f.key} Err-edge-builds-ParseError", {"fn": f.key}, cfg, ok=okp)
                if formats or returns_ok:
                    rep.violation(f"{f.key} Ok-built-on-parse-error-edge",
                                  "format_code formats or returns Ok(..) on the parse-error edge: text that did not parse is "
                                  "reported as a success", f.loc(), cfg)
                elif not pe:
                    rep.violation(f"{f.key} parse-error-edge-does-not-build-ParseError",
                                  "the Err edge of the parse result does not construct Error::ParseError", f.loc(), cfg)
                continue
            if formats or returns_ok:
                okv = verdict == "ok"
                rep.inst(f"{f.key} call=format_ast on-Ok-edge", {"fn": f.key}, cfg, ok=okv)
                if not okv:
                    rep.violation(f"{f.key} format_ast-not-on-Ok-edge",
                                  "format_ast / Ok(..) is reachable without the parse result being Ok", f.loc(), cfg)
        rep.floor("format_code paths on the Ok edge of the parse", nok, 1, cfg)
        rep.floor("format_code paths on the Err edge of the parse", nerr, 1, cfg)
    return rep


FORMAT_CALL = re.compile(r"^formatters::.*::(format_[a-z_]+|hang_[a-z_]+)$")


def _captured_shape_is_simple(prog, g, place, depth=0):
    """the upvar `place` of closure g holds a Shape that went through Shape::with_simple_heuristics in an enclosing fn"""
    if depth > 3:
        return False
    try:
        idx = int([e["f"] for e in place.get("p", []) if isinstance(e, dict) and "f" in e][0])
    except (IndexError, ValueError, TypeError):
        return False
    parent = prog.fn(g.crate, g.path.rsplit("::{closure", 1)[0])
    if parent is None:
        return False
    for b, si_, s in parent.stmts():
        if s["k"] == "assign" and s["rv"]["k"] == "agg" and s["rv"].get("closure") == g.path and idx < len(s["rv"]["ops"]):
            stack = [s["rv"]["ops"][idx]]
            seen = set()
            while stack:
                o = stack.pop()
                for og in operand_origins(parent, o):
                    if og[0] == "call":
                        if og[1] in seen:
                            continue
                        seen.add(og[1])
                        cc = callee(og[2])
                        if cc.endswith("Shape::with_simple_heuristics"):
                            return True
                        if cc.startswith("shape::Shape::") or "shape::Shape as" in cc:
                            stack.append(og[2]["args"][0])
                    elif og[0] in ("upvar", "proj") and parent.kind == "Closure" and isinstance(og[1], dict) and og[1].get("l") == 1:
                        if _captured_shape_is_simple(prog, parent, og[1], depth + 1):
                            return True
    return False


def rule_heur(ctx, prop):
    rep = Report(prop, "R-HEUR", "trial formatting in function_args_multiline_heuristic is bounded by the "
                                 "simple_heuristics flag")
    for cfg, prog in ctx.programs.items():
        root = "formatters::functions::function_args_multiline_heuristic"
        f = prog.fn("stylua_lib", root)
        if not rep.anchor(f is not None, root, cfg):
            continue
        # (b) early return on using_simple_heuristics()
        guard = [(b, t) for b, t in f.calls() if callee(t).endswith("Shape::using_simple_heuristics")]
        if not rep.anchor(len(guard) >= 1, "call to Shape::using_simple_heuristics in the heuristic", cfg):
            continue
        gb = guard[0][0]
        edges = bool_edge(f, gb)
        if not rep.anchor(edges is not None, "branch on using_simple_heuristics()", cfg):
            continue
        tb, fb = edges
        # true edge: returns without formatting anything
        true_region = f.reach_from(tb)
        bad_true = []
        for b in true_region:
            t = f.blocks[b]["term"]
            if t["k"] == "call" and FORMAT_CALL.search(callee(t)):
                bad_true.append((b, callee(t)))
            for s in f.blocks[b]["st"]:
                if s["k"] == "assign" and s["rv"]["k"] == "agg" and "closure" in s["rv"]:
                    bad_true.append((b, s["rv"]["closure"]))
        rep.inst(f"{f.key} simple-heuristics-early-return", {"fn": f.key, "true_block": tb}, cfg, ok=not bad_true)
        for b, c in bad_true:
            rep.violation(f"{f.key} formats-under-simple-heuristics callee={c}",
                          f"with simple heuristics already on, the heuristic still reaches {c}", f.loc(), cfg)
        # every trial-format call / closure creation is dominated by the false edge
        members = [g for g in prog.fns("stylua_lib") if g.path == root or g.path.startswith(root + "::{closure")]
        ntrial = 0
        for g in members:
            for b, t in g.calls():
                c = callee(t)
                if not FORMAT_CALL.search(c):
                    continue
                # which argument is the Shape?
                shape_args = [a for a in t["args"] if not is_const(a) and
                              g.local_ty(op_place(a)["l"]).replace("&", "") == "shape::Shape"]
                if not shape_args:
                    continue
                ntrial += 1
                ok_shape = False
                for a in shape_args:
                    # follow through Shape methods taking self first
                    chain = []
                    stack = [a]
                    seen = set()
                    while stack:
                        o = stack.pop()
                        for og in operand_origins(g, o):
                            if og[0] == "call":
                                cc = callee(og[2])
                                chain.append(cc)
                                if og[1] in seen:
                                    continue
                                seen.add(og[1])
                                if cc.endswith("Shape::with_simple_heuristics"):
                                    ok_shape = True
                                elif cc.startswith("shape::Shape::") or "shape::Shape as" in cc:
                                    stack.append(og[2]["args"][0])
                            elif og[0] in ("upvar", "proj") and g.kind == "Closure" and isinstance(og[1], dict) and og[1].get("l") == 1:
                                # a shape captured from the enclosing function (`let trial_shape = shape.with_simple_heuristics()..`)
                                if _captured_shape_is_simple(prog, g, og[1]):
                                    ok_shape = True
                if g is f:
                    dom_ok = f.dominates(fb, b)
                else:
                    dom_ok = True
                rep.inst(f"{g.key} trial-call={c.split('::')[-1]}", {"fn": g.key, "callee": c, "at": g.loc(t["sp"])},
                         cfg, ok=ok_shape and dom_ok)
                if not ok_shape:
                    rep.violation(f"{g.key} trial-format-without-simple-heuristics callee={c.split('::')[-1]}",
                                  f"{c} is called for trial formatting with a shape that does not come from "
                                  f"Shape::with_simple_heuristics(): nested calls re-run the heuristic "
                                  f"(exponential in nesting depth)", g.loc(t["sp"]), cfg)
                if not dom_ok:
                    rep.violation(f"{g.key} trial-format-not-guarded callee={c.split('::')[-1]}",
                                  "trial formatting is not dominated by the !using_simple_heuristics() edge",
                                  g.loc(t["sp"]), cfg)
        for b, sidx, s in f.stmts():
            if s["k"] == "assign" and s["rv"]["k"] == "agg" and "closure" in s["rv"]:
                ok = f.dominates(fb, b)
                rep.inst(f"{f.key} closure-created-after-guard {s['rv']['closure'].split('::')[-1]}", None, cfg, ok=ok)
                if not ok:
                    rep.violation(f"{f.key} closure-not-guarded {s['rv']['closure'].split('::')[-1]}",
                                  "a trial-formatting closure is created before the simple-heuristics guard",
                                  f.loc(s["sp"]), cfg)
        rep.floor("trial-format calls under the heuristic", ntrial, 1, cfg)
        # (c) with_simple_heuristics sets the flag to true, and it is the only writer of `true`
        w = prog.fn("stylua_lib", "shape::Shape::with_simple_heuristics")
        if rep.anchor(w is not None, "Shape::with_simple_heuristics", cfg):
            adt = prog.adt("shape::Shape", "stylua_lib")
            fields = [x["name"] for x in adt["variants"][0]["fields"]] if adt else []
            if rep.anchor("simple_heuristics" in fields, "field Shape.simple_heuristics", cfg):
                idx = fields.index("simple_heuristics")
                good = False
                for b, sidx, s in w.stmts():
                    if s["k"] == "assign" and s["rv"]["k"] == "agg" and s["rv"].get("adt") == "shape::Shape":
                        o = s["rv"]["ops"][idx]
                        good = is_const(o) and o.get("v") is True
                rep.inst(f"{w.key} sets-flag-true", {"fn": w.key}, cfg, ok=good)
                if not good:
                    rep.violation(f"{w.key} does-not-set-flag",
                                  "Shape::with_simple_heuristics does not set simple_heuristics = true", w.loc(), cfg)
        u = prog.fn("stylua_lib", "shape::Shape::using_simple_heuristics")
        if rep.anchor(u is not None, "Shape::using_simple_heuristics", cfg):
            good = False
            for b, sidx, s in u.stmts():
                if s["k"] == "assign" and s["dst"]["l"] == 0 and s["rv"]["k"] == "use":
                    p = op_place(s["rv"]["o"])
                    if p and ("f", "simple_heuristics") in proj_fields(p):
                        good = True
            rep.inst(f"{u.key} returns-flag", {"fn": u.key}, cfg, ok=good)
            if not good:
                rep.violation(f"{u.key} does-not-return-flag",
                              "Shape::using_simple_heuristics does not return the simple_heuristics field", u.loc(), cfg)
    return rep


FALLIBLE_TEXT = re.compile(r"(<impl str>::parse|::from_str_radix|FromStr>::from_str|char::from_u32|"
                           r"char::methods::<impl char>::from_digit|str::from_utf8)$")


def rule_belief(ctx, prop):
    """a stated belief contradicted by the code: the failure of converting *input text* (str::parse, from_str_radix,
    ...) leads straight to unreachable!/panic!/unwrap. Lua's number grammar is wider than Rust's parsers (hex floats,
    integers wider than 64 bits, suffixes), so such a failure is reachable from valid programs."""
    rep = Report(prop, "R-BELIEF", "no explicit panic (unreachable!/panic!/unwrap/expect) is reached directly from the "
                                   "failure edge of a text conversion (str::parse, from_str_radix, ...) of token text")
    for cfg, prog in ctx.programs.items():
        n = 0
        for f in prog.fns("stylua_lib"):
            conv = [(b, t) for b, t in f.calls() if FALLIBLE_TEXT.search(callee(t).split("::<")[0]) or
                    FALLIBLE_TEXT.search(callee(t))]
            if not conv:
                continue
            conv_locals = {t["dst"]["l"]: b for b, t in conv if "p" not in t["dst"]}
            for cb, ct in conv:
                n += 1
                l = ct["dst"]["l"]
                bad = None
                # (1) unwrap / expect directly on the result
                for u in forward_uses(f, l):
                    if u[0] == "call" and re.search(r"(Result|Option)::<.*>::(unwrap|expect)$", callee(u[2])) and u[3] == 0:
                        bad = ("unwrap", u[2])
                # (2) the failure edge runs into an explicit panic without any other decision in between
                for sb in range(len(f.blocks)):
                    si = switch_info(f, sb)
                    if not si or si["place"].get("l") != l or si["place"].get("p"):
                        continue
                    fail = si["targets"].get("Err", si["targets"].get("None"))
                    if fail is None:
                        fail = si["otherwise"]
                    seen = set()
                    work = [fail]
                    while work and bad is None:
                        b = work.pop()
                        if b in seen or b is None:
                            continue
                        seen.add(b)
                        blk = f.blocks[b]
                        if blk.get("cleanup"):
                            continue
                        t = blk["term"]
                        if t["k"] == "call":
                            if is_panic_call(t):
                                bad = ("panic", t)
                                break
                            work.append(t.get("t"))
                        elif t["k"] in ("goto", "drop", "assert"):
                            work.append(t["t"])
                        elif t["k"] == "switch":
                            si2 = switch_info(f, b)
                            if si2 and si2["place"].get("l") in conv_locals and not si2["place"].get("p"):
                                # another conversion attempt: only its failure edge continues the belief
                                f2 = si2["targets"].get("Err", si2["targets"].get("None"))
                                work.append(f2 if f2 is not None else si2["otherwise"])
                            # any other decision: the panic, if any, is guarded by something we do not judge
                rep.inst(f"{f.key} {callee(ct).split('::')[-1]} failure edge does not panic", {"at": f.loc(ct["sp"])}, cfg, ok=bad is None)
                if bad:
                    rep.violation(f"{f.key} panic-on-unconvertible-text via={callee(ct).split('::')[-1]} kind={bad[0]}",
                                  f"{f.path}: when {callee(ct)} fails on token text the code panics "
                                  f"({'unwrap/expect on the result' if bad[0] == 'unwrap' else 'unreachable!/panic! on the failure edge'}); "
                                  f"Lua accepts literals Rust's parsers reject (hex floats, integers wider than 64 bits), "
                                  f"so a valid program makes the library call panic", f.loc(bad[1]["sp"]), cfg)
        rep.floor("text conversions examined", n, 2, cfg)
    return rep


def rule_census(ctx, prop):
    """informational: remaining panic sites in stylua_lib (not armed)."""
    rep = Report(prop, "R-CENSUS", "informational census of explicit panic sites in stylua_lib (not armed: whether "
                                   "they fire depends on runtime values)")
    for cfg, prog in ctx.programs.items():
        n = 0
        kinds = {}
        for f in prog.fns("stylua_lib"):
            for b, t in f.calls():
                if is_panic_call(t):
                    n += 1
                    m = (span_macros(t.get("sp")) or ["<direct>"])[-1]
                    kinds[m] = kinds.get(m, 0) + 1
        rep.note(f"@{cfg}: {n} panic call sites by outermost macro: {dict(sorted(kinds.items()))}")
    return rep



def rule_slice(ctx, prop):
    """caller-supplied byte offsets (the formatting range) are compared with positions, never used to cut the text"""
    rep = Report(prop, "R-SLICE", "no string / slice of the library is indexed with an offset that comes from a caller-supplied "
                                  "Range or usize argument (such offsets may be out of bounds, inverted or inside a UTF-8 "
                                  "sequence: indexing panics)")
    IDX = re.compile(r"ops::Index<|ops::IndexMut<|<impl str>::split_at|::split_at$|::get_unchecked|slice::index::")
    for cfg, prog in ctx.programs.items():
        n = 0
        for f in prog.fns("stylua_lib"):
            for b, t in f.calls():
                c = callee(t)
                if not IDX.search(c) or len(t["args"]) < 2:
                    continue
                n += 1
                bad = None
                work = [t["args"][1]]
                seen = 0
                while work and seen < 20 and bad is None:
                    o = work.pop()
                    seen += 1
                    if is_const(o):
                        continue
                    for r in provenance(f, o, through=None):
                        if r[0] == "arg" and 1 <= r[1] <= f.argc:
                            ty = f.locals[r[1]]
                            if re.search(r"(^|[<( ])(crate::)?Range\b|stylua_lib::Range|^Range$|Option<Range>|Option<usize>|^usize$", ty) \
                                    and "ops::Range" not in ty:
                                bad = (r[1], ty)
                        elif r[0] == "upvar":
                            bad = bad
                rep.inst(f"{f.key} {c.split('::')[-1]} index not from a caller-supplied offset", {"at": f.loc(t["sp"])}, cfg, ok=bad is None)
                if bad:
                    rep.violation(f"{f.key} caller-offset-used-as-index arg={bad[0]}",
                                  f"{f.path} indexes a string / slice ({c}) with an offset taken from its argument {bad[0]} : {bad[1]} "
                                  f"(a caller-supplied range bound): an end past the input, an inverted range or a bound inside a "
                                  f"multi-byte character makes the library call panic instead of returning", f.loc(t["sp"]), cfg)
        rep.floor("panicking index operations examined", n, 1, cfg)
    return rep


def rule_parse_input(ctx, prop):
    """what is parsed is the caller's text, byte for byte, under the syntax the configuration names"""
    from paths import access_path, Enumerator, TooManyPaths
    rep = Report(prop, "R-PARSE(input)", "format_code parses its `code` argument itself (no rewritten copy: range offsets and "
                                         "out-of-range text refer to the caller's bytes) with the syntax converted name for name "
                                         "from config.syntax")
    for cfg, prog in ctx.programs.items():
        f = prog.fn("stylua_lib", "format_code")
        if not rep.anchor(f is not None, "format_code", cfg):
            continue
        pcs = [(b, t) for b, t in f.calls() if re.search(r"full_moon::parse(_fallible)?$", callee(t))]
        for b, t in pcs:
            root, steps = access_path(f, t["args"][0])
            ok = root == ("arg", 1) and not [s_ for s_ in steps if s_[0] in ("f", "v")]
            via = sorted(c.split("::")[-1] for c in prov_calls(provenance(f, t["args"][0], through=None)))
            rep.inst(f"{f.key} parses its own `code` argument", {"via": via}, cfg, ok=ok)
            if not ok:
                rep.violation(f"{f.key} parsed-text-is-not-the-input via={','.join(via)[:40] or 'local'}",
                              f"format_code hands the parser a text derived through {via or 'a local value'} instead of its `code` "
                              f"argument: byte offsets of the formatting range no longer refer to what is parsed, and statements "
                              f"outside the range are reproduced from the rewritten copy, not from the caller's text", f.loc(t["sp"]), cfg)
        # the syntax conversion: variant X -> full_moon::LuaVersion::x(), All -> new()
        conv = None
        for g in prog.fns("stylua_lib"):
            if re.search(r"From<LuaVersion>.*full_moon.*LuaVersion.*::from$|<full_moon::(ast::)?(version::)?LuaVersion as .*From<LuaVersion>>::from$", g.path) \
                    or (g.path.endswith("::from") and g.impl_trait and "From" in g.impl_trait and g.locals[0].endswith("full_moon::LuaVersion")
                        and g.argc == 1 and g.locals[1].endswith("LuaVersion") and "full_moon" not in g.locals[1]):
                conv = g
        if not rep.anchor(conv is not None, "From<LuaVersion> for full_moon::LuaVersion", cfg):
            continue
        try:
            res = Enumerator(conv, summaries=False, max_paths=200).run()
        except TooManyPaths:
            rep.anchor(False, "LuaVersion conversion: too many paths", cfg)
            continue
        n = 0
        for st in res:
            vs = [v for k, v in st.hist if isinstance(v, str) and (v == "All" or v.startswith("Lua"))]
            if not vs:
                continue
            variant = vs[-1]
            ctor = [c.split("::")[-1] for _, c, _ in st.calls if re.search(r"full_moon::.*LuaVersion::[a-z0-9_]+$", c)]
            want = "new" if variant == "All" else variant.lower()
            n += 1
            ok = ctor == [want]
            rep.inst(f"{conv.key} {variant} -> full_moon::LuaVersion::{want}()", {"got": ctor}, cfg, ok=ok)
            if not ok:
                rep.violation(f"{conv.key} syntax-conversion {variant}->{','.join(ctor) or 'nothing'}",
                              f"config.syntax = {variant} is converted to full_moon::LuaVersion::{ctor or '?'}() instead of {want}(): the "
                              f"input is parsed (and the output re-parsed) under another grammar than the one configured, so text "
                              f"that is not valid {variant} is accepted and returned as a success", conv.loc(), cfg)
        rep.floor("syntax conversion arms", n, 2, cfg)
    return rep

def run(ctx):
    reps = r_exh.run_exh(ctx, "C07")
    reps.append(rule_parse(ctx, "C07"))
    reps.append(rule_heur(ctx, "C07"))
    reps.append(rule_belief(ctx, "C07"))
    reps.append(rule_census(ctx, "C07"))
    import r_layout
    reps.append(r_layout.rule_waste(ctx, "C07"))
    reps.append(r_layout.rule_trial_shape(ctx, "C07"))
    # the comment tests also keep `--[[ stylua: ignore ]]` statements away from paths that assert FormatNode::Normal
    import r_guard
    reps.append(r_guard.rule_guard(ctx, "C07"))
    # the stated belief of block::prefix_remove_leading_newlines (`other => unreachable!("got non-parentheses expression
    # as prefix")`): a Prefix::Expression leaves the formatter parenthesised on every layout path
    import r_paren
    reps.append(r_paren.rule_paren(ctx, "C07", parts=("oracle",), roles=("prefix",), all_kinds=True,
                                   why="so the formatted Prefix::Expression is no longer Expression::Parentheses and "
                                       "block::prefix_remove_leading_newlines reaches its unreachable!() when the statement "
                                       "is the first of its block: format_code panics on a valid program"))
    import r_raw
    reps.append(r_raw.rule_once(ctx, "C07"))
    reps.append(rule_slice(ctx, "C07"))
    reps.append(rule_parse_input(ctx, "C07"))
    return reps


def rule_print(ctx, prop):
    """the text handed back is the printed tree: every guarantee about tokens (literals, comments, line endings) is established
    on the tree, so nothing may rewrite the text after printing"""
    rep = Report(prop, "R-PRINT", "format_code returns Ok(ast.to_string()) of the tree returned by format_ast: the printed text is not "
                                  "post-processed (no string operation between printing and returning)")
    for cfg, prog in ctx.programs.items():
        f = prog.fn("stylua_lib", "format_code")
        if not rep.anchor(f is not None, "format_code", cfg):
            continue
        oks = [(b, s) for b, si_, s in f.stmts() if s["k"] == "assign" and s["rv"]["k"] == "agg" and s["rv"].get("variant") == "Ok"
               and s["dst"]["l"] == 0 and not s["dst"].get("p")]
        if not rep.anchor(len(oks) >= 1, "Ok(..) return in format_code", cfg):
            continue
        for b, s in oks:
            roots = provenance(f, s["rv"]["ops"][0], through=None, into_aggs=False)
            calls = sorted({r[1] for r in roots if r[0] == "call"})
            printed = [r for r in roots if r[0] == "call" and re.search(r"ToString>?::to_string$|string::ToString::to_string$", r[1])]
            ok = len(roots) == 1 and len(printed) == 1
            if ok:
                t = f.blocks[printed[0][2]]["term"]
                src = prov_calls(provenance(f, t["args"][0]))
                ok = any(re.search(r"(^|::)format_ast$", c) for c in src)
            rep.inst(f"{f.key} returns the printed tree", {"roots": [c.split("::")[-1] for c in calls]}, cfg, ok=ok)
            if not ok:
                rep.violation(f"{f.key} printed-text-post-processed via={','.join(c.split('::<')[0].split('::')[-1] for c in calls) or 'non-call'}",
                              f"format_code returns a value derived through {[c.split('::')[-1] for c in calls]} instead of the string "
                              f"printed from format_ast's tree: a rewrite of the printed text cannot tell code from the inside of a "
                              f"string literal or comment (trailing blanks inside `[[ .. ]]`, line endings, quotes)", f.loc(s["sp"]), cfg)
    return rep


def rule_verify_input(ctx, prop):
    """--verify compares the output with the program the user gave, not with an intermediate tree"""
    rep = Report(prop, "R-VERIFYINPUT", "the Ast kept by format_ast for output verification is a clone of its `input_ast` parameter itself - "
                                        "taken before require sorting or any other transformation")
    for cfg, prog in ctx.programs.items():
        f = prog.fn("stylua_lib", "format_ast")
        if not rep.anchor(f is not None, "format_ast", cfg):
            continue
        ast_params = [i for i in range(1, f.argc + 1) if f.locals[i].endswith("full_moon::ast::Ast")]
        clones = [(b, t) for b, t in f.calls() if re.search(r"ToOwned>::to_owned$|Clone>::clone$", callee(t)) and t.get("dst")
                  and f.local_ty(t["dst"]["l"]).endswith("full_moon::ast::Ast")]
        if not rep.anchor(bool(ast_params) and len(clones) >= 1, "clone of the input Ast in format_ast", cfg):
            continue
        for b, t in clones:
            roots = provenance(f, t["args"][0], into_aggs=False)
            calls = sorted(r[1].split("::")[-1] for r in roots if r[0] == "call")
            ok = any(r[0] == "arg" and r[1] in ast_params for r in roots) and not calls
            rep.inst(f"{f.key} verification copy is taken from the parameter", {"derived_through": calls}, cfg, ok=ok)
            if not ok:
                rep.violation(f"{f.key} verification-copy-of-transformed-tree via={','.join(calls) or 'other'}",
                              f"format_ast clones the tree it verifies against after {calls or 'a transformation'}: what --verify compares "
                              f"the output with is no longer the user's program, so a difference introduced by that step (statements "
                              f"reordered by sort_requires) is never reported and the file is rewritten", f.loc(t["sp"]), cfg)
    return rep
