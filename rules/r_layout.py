"""R-COMMENTLAYOUT - where a comment test chooses between a flat and a hanging / multi-line layout, the flat producer is
never the source of the returned node on a path where the test answered true.

The table below was discovered by enumerating, for every function of `formatters::` that calls a comment predicate, the
producers of the returned value on the paths where each predicate call answered true / false (a statistic), then each
row was confirmed by reading the function. It is frozen: a row is (function, predicate, flat producer). The rule is
existential over same-named predicate calls (so statement order and block numbers do not matter): some call of the
predicate in the function must have no true-path whose returned value is produced by the flat formatter."""
import re
from engine import Report
from facts import *
from paths import Enumerator, TooManyPaths

NEUTRAL = re.compile(r"update_(leading|trailing)_trivia$|to_owned$|Clone>::clone$|::with_[a-z_]+$|prepend_newline_indent$|"
                     r"strip_(leading_|trailing_)?trivia$|Box::<.*>::new$|Option::<.*>::(unwrap|expect)$")

# (function, predicate (last path segment), flat producer (last path segment), feature, what goes wrong)
TABLE = [
    ("formatters::assignment::attempt_assignment_tactics", "punctuated_inline_comments", "format_punctuated", None,
     "a line comment between the items of the right-hand side is followed by the next item on the same line"),
    ("formatters::assignment::attempt_assignment_tactics", "has_inline_comments", "format_punctuated", None,
     "an item containing a line comment is kept on one line"),
    ("formatters::general::try_format_punctuated", "punctuated_inline_comments", "format_punctuated", None,
     "a line comment inside a punctuated list is followed by the next element on the same line"),
    ("formatters::expression::format_token_expression_sequence", "contains_comments", "format_expression", None,
     "`not -- c` / `-` followed by an expression with comments is kept on one line"),
    ("formatters::luau::format_hangable_type_info_internal", "should_hang_type", "format_type_info_internal", "luau",
     "a union / intersection with a comment beside `|` is formatted flat"),
    ("formatters::luau::format_type_info_generics", "has_trailing_comments", "format_punctuated", "luau",
     "a generic argument followed by a line comment is kept on one line"),
    ("formatters::luau::attempt_assigned_type_tactics", "should_hang_type", "format_type_info", "luau",
     "`type T = A | -- c` newline `{ .. }` is hugged on one line: the rest of the type lands inside the comment"),
    # (.., setter): the value judged is the argument of that `with_*` setter of the returned node
    ("formatters::block::format_return", "has_trailing_comments", "format_symbol", None,
     "`return -- c` newline `x` keeps the first value on the comment's line: the value becomes part of the comment", "with_token"),
]


def _producers(f, st, v, depth=0):
    """last path segments of the calls the (components of the) value came out of on this path"""
    if v is None:
        return {"?"}
    if v[0] == "callres":
        t = f.blocks[v[1]]["term"]
        c = callee(t)
        if NEUTRAL.search(c) and t["args"] and depth < 8 and not is_const(t["args"][0]):
            vv = st.vals.get(op_place(t["args"][0])["l"])
            r = _producers(f, st, vv, depth + 1)
            if r != {"?"}:
                return r
        return {c.split("::<")[0].split("::")[-1]}
    if v[0] == "tuple":
        out = set()
        for x in v[1]:
            out |= _producers(f, st, x, depth + 1)
        return out
    return {"?" + str(v[0])}


def rule_comment_layout(ctx, prop):
    from extract import FEATURES
    rep = Report(prop, "R-COMMENTLAYOUT", "where a comment test chooses the hanging / multi-line layout, no path on which the test "
                                          "answered true returns a node produced by the flat formatter (frozen table of "
                                          f"{len(TABLE)} confirmed (function, predicate, flat producer) rows)")
    for cfg, prog in ctx.programs.items():
        n = 0
        cache = {}
        for row in TABLE:
            fn, pred, flat, feat, what = row[:5]
            setter = row[5] if len(row) > 5 else None
            if feat and feat not in FEATURES.get(cfg, ()):
                continue
            f = prog.fn("stylua_lib", fn)
            if f is None:
                rep.note(f"@{cfg}: {fn} not found (row not evaluated)")
                continue
            sites = [b for b, t in f.calls() if callee(t).split("::<")[0].split("::")[-1] == pred]
            if not sites:
                rep.note(f"@{cfg}: {fn} no longer calls {pred} (row not evaluated)")
                continue
            if fn not in cache:
                try:
                    cache[fn] = Enumerator(f, max_paths=40000).run()
                except TooManyPaths:
                    cache[fn] = None
            res = cache[fn]
            if not rep.anchor(res is not None, f"{fn}: path enumeration within bounds", cfg):
                continue
            per_site = {}
            setter_blocks = [b for b, t in f.calls() if setter and callee(t).split("::<")[0].split("::")[-1] == setter and len(t["args"]) > 1]
            for st in res:
                pr = None
                for cb in sites:
                    if st.decisions.get(cb) is True:
                        if pr is None:
                            if setter:
                                pr = set()
                                trail = set(st.trail)
                                for sb in setter_blocks:
                                    if sb in trail:
                                        a = f.blocks[sb]["term"]["args"][1]
                                        pr |= _producers(f, st, None if is_const(a) else st.vals.get(op_place(a)["l"]))
                                if not pr:
                                    continue
                            else:
                                pr = _producers(f, st, st.vals.get(0))
                        per_site.setdefault(cb, set()).update(pr)
            decided = {cb: ps for cb, ps in per_site.items()}
            if not decided:
                rep.note(f"@{cfg}: {fn}: no path decides {pred} (row not evaluated)")
                continue
            n += 1
            ok = any(flat not in ps for ps in decided.values())
            rep.inst(f"{f.key} {pred} => not {flat}", {"true_path_producers": {str(k): sorted(v) for k, v in decided.items()}}, cfg, ok=ok)
            if not ok:
                rep.violation(f"{f.key} comment-test-does-not-force-layout {pred} flat={flat}",
                              f"{fn} has a path on which {pred}(..) answered true and the returned node still comes out of {flat} "
                              f"(for every call of that predicate): {what} - code after a `--` comment on the same line becomes "
                              f"part of the comment", f.loc(), cfg)
        want = sum(1 for r in TABLE if not r[3] or r[3] in FEATURES.get(cfg, ()))
        rep.floor("comment-forced layout rows evaluated", n, max(1, want - 2), cfg)
    return rep


BUILDER_EXCEPTIONS = {
    ("formatters::stmt::format_if", "If"): "the single-line form is only built for an `if` without elseif / else branches (is_if_guard), "
                                           "so those three fields hold None",
    ("formatters::luau::format_type_declaration", "GenericDeclaration"): "the clone is of the already formatted declaration (format_generic_declaration); "
                                                                       "only the arrows get the comments moved from the type name",
}
CONTINUES = re.compile(r"update_(leading_|trailing_)?trivia$|Clone>::clone$|ToOwned>::to_owned$")


def rule_builder(ctx, prop):
    """`node.to_owned().with_a(a).with_b(b)`: what is not replaced stays the input's - raw tokens with the input's whitespace"""
    rep = Report(prop, "R-BUILDER", "a formatter that rebuilds a struct node by cloning it and replacing its parts with `with_*` setters "
                                    "replaces every field (setters reached from the clone = fields of the struct); the range-only "
                                    "visitor (stmt_block::*, format_last_stmt_block), which replaces the block alone, is exempt")
    for cfg, prog in ctx.programs.items():
        n = 0
        for f in prog.fns("stylua_lib"):
            if not f.path.startswith("formatters::") or "stmt_block::" in f.path or \
                    f.path.split("::{closure")[0] == "formatters::block::format_last_stmt_block":
                continue        # the range-only visitor replaces the block of a statement and nothing else
            for b, t in f.calls():
                c = callee(t)
                if not re.search(r"(ToOwned>::to_owned|Clone>::clone)$", c) or not t.get("dst") or t["dst"].get("p"):
                    continue
                ty = f.local_ty(t["dst"]["l"])
                if not ty.startswith("full_moon::ast::"):
                    continue
                a = prog.adt(ty, "stylua_lib")
                if not a or a["kind"] != "struct":
                    continue
                fields = [x["name"] for x in a["variants"][0]["fields"]]
                S, seen, work, escapes = set(), set(), [t["dst"]["l"]], False
                while work:
                    l = work.pop()
                    if l in seen:
                        continue
                    seen.add(l)
                    for u in forward_uses(f, l):
                        if u[0] != "call":
                            if u[0] in ("agg", "field") and S:
                                pass
                            continue
                        c2 = callee(u[2])
                        m = re.search(r"^" + re.escape(ty) + r"::with_(\w+)$", c2)
                        if m and u[3] == 0:
                            S.add(m.group(1))
                            if u[2].get("dst") and not u[2]["dst"].get("p"):
                                work.append(u[2]["dst"]["l"])
                        elif CONTINUES.search(c2) and u[3] == 0 and u[2].get("dst") and not u[2]["dst"].get("p") and \
                                f.local_ty(u[2]["dst"]["l"]) == ty:
                            work.append(u[2]["dst"]["l"])
                        elif re.search(r"^formatters::", c2):
                            h = prog.fn("stylua_lib", c2)
                            if h is not None and ty in h.locals[0]:
                                escapes = True       # handed to a helper that returns the same node type: it may set the rest
                if not S:
                    continue
                tn = ty.split("::")[-1]
                if escapes:
                    rep.note(f"@{cfg}: {f.path} {tn}: the partly rebuilt node is handed to a helper (not judged)")
                    continue
                n += 1
                exc = BUILDER_EXCEPTIONS.get((f.path, tn))
                ok = len(S) >= len(fields) or exc is not None
                rep.inst(f"{f.key} {tn} rebuilt field by field", {"setters": sorted(S), "fields": fields, "exception": exc}, cfg, ok=ok)
                if not ok:
                    rep.violation(f"{f.key} builder-leaves-input-fields {tn} setters={','.join(sorted(S))}",
                                  f"{f.path} clones the input {tn} and replaces {sorted(S)} - {len(S)} of its {len(fields)} fields {fields}: "
                                  f"the remaining field keeps the input's tokens (their original whitespace, indentation and "
                                  f"line endings, unformatted)", f.loc(t["sp"]), cfg)
        from extract import FEATURES as _F
        rep.floor("builder chains over cloned input nodes", n, 17 if "luau" in _F.get(cfg, ()) else 8, cfg)
    return rep


# ---------------------------------------------------------------------------------------------------------------------------
# R-WASTE: a recursive formatter call whose result is neither inspected nor returned on some path is formatting done for
# nothing on that path - the signature of a trial layout hoisted out of its guard. Because formatters recurse into the
# children, one such site per nesting level doubles the work per level (2^depth). The sites that exist on the pinned tree
# (trial layouts computed before the decision that may discard them) are frozen in frozen_waste.json
# (`python3 rules/r_layout.py --freeze`); the rule is a reference through time: no new site, no higher count.
import json
import os
WASTE_FILE = os.path.join(os.path.dirname(os.path.abspath(__file__)), "frozen_waste.json")
CHEAP = re.compile(r"::(format_symbol|format_token_reference|format_end_token|format_token)$")


def _aliases(f, l):
    al = {l}
    changed = True
    while changed:
        changed = False
        for bi, blk in enumerate(f.blocks):
            for s in blk["st"]:
                if s["k"] != "assign" or s["dst"].get("p"):
                    continue
                rv = s["rv"]
                src = None
                if rv["k"] in ("use", "cast") and not is_const(rv["o"]):
                    src = op_place(rv["o"])["l"]
                elif rv["k"] in ("ref", "rawptr"):
                    src = rv["p"]["l"]
                # a move into the return place, or into a variable assigned on several paths (`x = a` here, `x = b` there), is a
                # use at that point - only single-assignment temporaries are the same value under another name
                if src in al and s["dst"]["l"] not in al and s["dst"]["l"] != 0 and len(f.defs().get(s["dst"]["l"], [])) == 1:
                    al.add(s["dst"]["l"])
                    changed = True
    return al


def _use_blocks(f, l):
    """blocks in which the value (through copies and references) is consumed: passed to a call, built into an aggregate,
    compared, switched on, projected - or returned"""
    al = _aliases(f, l)
    out = set()
    for bi, blk in enumerate(f.blocks):
        for s in blk["st"]:
            if s["k"] != "assign":
                continue
            rv = s["rv"]
            if not s["dst"].get("p") and s["dst"]["l"] in al and rv["k"] in ("use", "cast", "ref", "rawptr"):
                continue        # the alias definition itself (a move into the return place is a use, below)
            ops = [x for x in (rv.get("o"), rv.get("a"), rv.get("b")) if x is not None] + list(rv.get("ops", []))
            if any(not is_const(o) and op_place(o)["l"] in al for o in ops):
                out.add(bi)
            if rv["k"] in ("ref", "rawptr", "discr") and rv["p"]["l"] in al:
                out.add(bi)
        t = blk["term"]
        if t["k"] == "call" and not re.search(r"drop", callee(t)):
            if any(not is_const(a) and op_place(a)["l"] in al for a in t["args"]):
                out.add(bi)
        if t["k"] == "switch" and not is_const(t["on"]) and op_place(t["on"])["l"] in al:
            out.add(bi)
    return out


def waste_sites(prog):
    """{(fn path, callee last segment): count} of recursive formatter calls whose result is unused on some path to a return"""
    from r_raw import FORMATTERS
    from inline import known_names
    known = known_names("stylua_lib")
    out = {}
    total = 0
    for f in prog.fns("stylua_lib"):
        if not f.path.startswith("formatters::"):
            continue
        base = f.path.split("::{closure")[0]
        if known is not None and base not in known:
            continue        # a new helper: analysed in place at its callers (transparent view)
        rets = [bi for bi, b in enumerate(f.blocks) if b["term"]["k"] == "return"]
        for b, t in f.calls():
            c = callee(t)
            if not FORMATTERS.search(c) or CHEAP.search(c) or not t.get("dst") or t["dst"].get("p") or t.get("t") is None:
                continue
            l = t["dst"]["l"]
            if l == 0:
                continue
            total += 1
            U = _use_blocks(f, l)
            start = t["t"]
            # `hang_expression(..).update_trailing_trivia(..)`: the value is the decorated one
            for _ in range(6):
                if len(U) != 1:
                    break
                ub = next(iter(U))
                if any(r in f.reach_from(start, avoid={ub}) for r in rets):
                    break       # the decoration itself is conditional: judge the undecorated value
                t2 = f.blocks[ub]["term"]
                if t2["k"] == "call" and NEUTRAL.search(callee(t2)) and t2["args"] and not is_const(t2["args"][0]) and \
                        t2.get("dst") and not t2["dst"].get("p") and t2.get("t") is not None and f.dominates(start, ub) and \
                        op_place(t2["args"][0])["l"] in _aliases(f, l):
                    l = t2["dst"]["l"]
                    if l == 0:
                        break
                    U = _use_blocks(f, l)
                    start = t2["t"]
                else:
                    break
            if l == 0:
                continue
            if start in U:
                continue
            reach = f.reach_from(start, avoid=U)
            if any(r in reach for r in rets):
                k = (f.path, c.split("::<")[0].split("::")[-1])
                out[k] = out.get(k, 0) + 1
    return out, total


def rule_waste(ctx, prop):
    rep = Report(prop, "R-WASTE", "no recursive formatter call has a result that is neither inspected nor returned on some path, beyond the "
                                  "trial-layout sites frozen from the pinned tree: formatting hoisted out of its guard repeats the work "
                                  "of the whole subtree at every nesting level (exponential in the depth)")
    if not rep.anchor(os.path.exists(WASTE_FILE), "frozen_waste.json"):
        return rep
    frozen = json.load(open(WASTE_FILE))
    for cfg, prog in ctx.programs.items():
        ref = frozen.get(cfg) or frozen.get("all") or {}
        cur, total = waste_sites(prog)
        for (fn, c), cnt in sorted(cur.items()):
            allowed = ref.get(f"{fn} | {c}", 0)
            ok = cnt <= allowed
            rep.inst(f"stylua_lib::{fn} discarded {c} results within the frozen count", {"now": cnt, "frozen": allowed}, cfg, ok=ok)
            if not ok:
                f = prog.fn("stylua_lib", fn)
                rep.violation(f"stylua_lib::{fn} formatter-result-unused-on-a-path callee={c} count={cnt} frozen={allowed}",
                              f"{fn} calls {c} and, on some path to its return, neither inspects nor returns the result ({cnt} such "
                              f"site(s), {allowed} on the pinned tree): the subtree is formatted for nothing on that path, and "
                              f"because the formatters recurse, once per nesting level - nested tables / calls / types take time "
                              f"exponential in their depth", f.loc() if f else None, cfg)
        rep.inst("recursive formatter call sites examined", {"sites": total, "discarding_sites": sum(cur.values())}, cfg, ok=True)
        rep.floor("recursive formatter call sites examined", total, 150, cfg)
    return rep


def freeze_waste():
    import extract
    import facts
    import inline
    files, _ = extract.extract(extract.THOROUGH, verbose=False)
    out = {}
    for c in extract.THOROUGH:
        prog = inline.transparent_view(facts.Program(c, files[c]))
        cur, total = waste_sites(prog)
        out[c] = {f"{fn} | {cal}": n for (fn, cal), n in sorted(cur.items())}
        print(c, total, sum(cur.values()))
    with open(WASTE_FILE, "w") as fh:
        json.dump(out, fh, indent=1, sort_keys=True)


if __name__ == "__main__":
    import sys
    if "--freeze" in sys.argv:
        freeze_waste()


TAKERS = re.compile(r"trivia_util::take_(leading|trailing)_comments$|trivia_util::take_(leading|trailing)_trivia$")


def rule_take(ctx, prop):
    """take_*_comments strips the comments off a node and hands them back: the caller now owns them"""
    rep = Report(prop, "R-TAKE", "the comment vector returned by take_leading_comments / take_trailing_comments (/ take_*_trivia) is "
                                 "consumed - appended, extended, chained, passed on - on every path from the call to the function's "
                                 "return: comments taken off a node are never left behind under a condition")
    for cfg, prog in ctx.programs.items():
        n = 0
        for f in prog.fns("stylua_lib"):
            if not f.path.startswith("formatters::"):
                continue
            rets = [bi for bi, b in enumerate(f.blocks) if b["term"]["k"] == "return"]
            for b, t in f.calls():
                c = callee(t)
                if not TAKERS.search(c) or not t.get("dst") or t["dst"].get("p"):
                    continue
                d = t["dst"]["l"]
                ex = []
                for bi, si, s in f.stmts():
                    if s["k"] == "assign" and s["rv"]["k"] == "use" and not is_const(s["rv"]["o"]) and not s["dst"].get("p"):
                        pl = op_place(s["rv"]["o"])
                        if pl["l"] == d and pl.get("p") == [{"f": "1"}]:
                            ex.append((bi, s["dst"]["l"]))
                n += 1
                if not ex:
                    # the pair is passed on whole (returned, or destructured elsewhere): judged where it is taken apart
                    whole = _use_blocks(f, d)
                    ok = bool(whole)
                    rep.inst(f"{f.key} {c.split('::')[-1]} result handed on whole", None, cfg, ok=ok)
                    if not ok:
                        rep.violation(f"{f.key} taken-comments-discarded {c.split('::')[-1]}",
                                      f"{f.path} calls {c} and never looks at the returned comments: they are deleted", f.loc(t["sp"]), cfg)
                    continue
                dropped = False
                for bi, l in ex:
                    U = _use_blocks(f, l)
                    if bi in U:
                        continue
                    reach = f.reach_from(bi, avoid=U)
                    if any(r in reach for r in rets):
                        dropped = True
                rep.inst(f"{f.key} comments from {c.split('::')[-1]} are consumed on every path", {"at": f.loc(t["sp"])}, cfg, ok=not dropped)
                if dropped:
                    rep.violation(f"{f.key} taken-comments-dropped-on-a-path {c.split('::')[-1]}",
                                  f"{f.path} takes the comments off a node with {c.split('::')[-1]} and has a path to its return on which "
                                  f"the returned vector is not used (it is re-attached only under a condition): on that path the "
                                  f"comments are deleted from the output", f.loc(t["sp"]), cfg)
        rep.floor("take_*_comments call sites", n, 6, cfg)
    return rep


# ---------------------------------------------------------------------------------------------------------------------------
# R-TRIALSHAPE: the trial layouts that are made with a bounded-cost shape (`with_infinite_width()`: everything nested fits on one
# line, linear time; `with_simple_heuristics()`: no further trials below) keep that shape. A reference through time, frozen in
# frozen_trialshape.json: per (function, formatter) the number of call sites whose Shape argument derives from one of the two.
TRIAL_FILE = os.path.join(os.path.dirname(os.path.abspath(__file__)), "frozen_trialshape.json")
BOUNDED = ("with_infinite_width", "with_simple_heuristics")


def _chain_of(f, a, depth=0):
    """names of the Shape methods the operand derives from, through the receiver of each call and - for a shape captured by a
    closure (`let trial_shape = shape.with_infinite_width(); xs.map(|x| format(ctx, x, trial_shape))`) - through the closure
    aggregate in the enclosing function"""
    out = set()
    if depth > 4:
        return out
    stack, seen = [a], set()
    while stack:
        o = stack.pop()
        for r in provenance(f, o, through=None, into_aggs=False):
            if r[0] == "call" and r[2] not in seen:
                seen.add(r[2])
                out.add(r[1].split("::")[-1])
                t2 = f.blocks[r[2]]["term"]
                if t2["args"] and not is_const(t2["args"][0]):
                    stack.append(t2["args"][0])
            elif r[0] == "upvar" and f.kind == "Closure":
                par = f.prog.fn(f.crate, f.path.rsplit("::{closure", 1)[0])
                try:
                    idx = int(r[1])
                except (TypeError, ValueError):
                    idx = None
                if par is not None and idx is not None:
                    for b_, si_, s_ in par.stmts():
                        if s_["k"] == "assign" and s_["rv"]["k"] == "agg" and s_["rv"].get("closure") == f.path and idx < len(s_["rv"]["ops"]):
                            op_ = s_["rv"]["ops"][idx]
                            if not is_const(op_):
                                out |= _chain_of(par, op_, depth + 1)
    return out


def _shape_chain(f, t):
    out = set()
    for a in t["args"]:
        if is_const(a):
            continue
        if not f.local_ty(op_place(a)["l"]).replace("&", "").endswith("shape::Shape"):
            continue
        out |= _chain_of(f, a)
    return out


def trial_shapes(prog):
    from r_raw import FORMATTERS
    from inline import known_names
    known = known_names("stylua_lib")
    out = {}
    for f in prog.fns("stylua_lib"):
        if not f.path.startswith("formatters::"):
            continue
        base = f.path.split("::{closure")[0]
        if known is not None and base not in known:
            continue
        for b, t in f.calls():
            c = callee(t)
            if not FORMATTERS.search(c) or CHEAP.search(c):
                continue
            if _shape_chain(f, t) & set(BOUNDED):
                k = (base, c.split("::<")[0].split("::")[-1])
                out[k] = out.get(k, 0) + 1
    return out


def rule_trial_shape(ctx, prop):
    rep = Report(prop, "R-TRIALSHAPE", "every formatter call that is given a bounded-cost shape on the pinned tree (derived from "
                                       "with_infinite_width() / with_simple_heuristics(): a trial layout that is measured, not kept) still is: "
                                       "a trial made at the real width lays out everything nested in it for real, once per nesting level")
    if not rep.anchor(os.path.exists(TRIAL_FILE), "frozen_trialshape.json"):
        return rep
    frozen = json.load(open(TRIAL_FILE))
    for cfg, prog in ctx.programs.items():
        ref = frozen.get(cfg) or {}
        cur = trial_shapes(prog)
        n = 0
        for key, want in sorted(ref.items()):
            fn, c = key.split(" | ")
            if prog.fn("stylua_lib", fn) is None:
                rep.note(f"@{cfg}: {fn} not found (trial-shape row not evaluated)")
                continue
            n += 1
            have = cur.get((fn, c), 0)
            ok = have >= want
            rep.inst(f"stylua_lib::{fn} {c} calls with a bounded-cost shape", {"now": have, "frozen": want}, cfg, ok=ok)
            if not ok:
                rep.violation(f"stylua_lib::{fn} trial-layout-at-real-width callee={c} now={have} frozen={want}",
                              f"{fn} made {want} call(s) of {c} with a shape derived from with_infinite_width() / with_simple_heuristics() "
                              f"on the pinned tree and makes {have} now: the single-line trial is laid out at the real width, so every "
                              f"function body / table nested in it is formatted in full during the trial and again afterwards - time "
                              f"doubles with each nesting level", prog.fn("stylua_lib", fn).loc(), cfg)
        rep.floor("frozen bounded-cost trial sites still present", n, max(1, len(ref) - 3), cfg)
    return rep


def freeze_trial():
    import extract
    import facts
    import inline
    files, _ = extract.extract(extract.THOROUGH, verbose=False)
    out = {}
    for c in extract.THOROUGH:
        prog = inline.transparent_view(facts.Program(c, files[c]))
        cur = trial_shapes(prog)
        out[c] = {f"{fn} | {cal}": n for (fn, cal), n in sorted(cur.items())}
        print(c, sum(cur.values()))
    with open(TRIAL_FILE, "w") as fh:
        json.dump(out, fh, indent=1, sort_keys=True)


if __name__ == "__main__" and "--freeze-trial" in __import__("sys").argv:
    freeze_trial()


GETTER = re.compile(r"::(trailing_comments|leading_comments)$")
SRC_HANDLED = re.compile(r"strip_(leading_|trailing_)?trivia$|take_(leading|trailing)_(comments|trivia)$|update_(leading_|trailing_)?trivia$|"
                         r"(^|::)formatters::[a-z_]+::(format_|hang_)[a-z_]*$")


def rule_copy(ctx, prop):
    """`node.trailing_comments()` hands back a *copy*: attaching it somewhere else leaves the original where it was"""
    rep = Report(prop, "R-COPY", "when the comments read with the getter `leading_comments()` / `trailing_comments()` are attached to another "
                                 "token (FormatTriviaType::Append / Replace), the node they were read from is stripped, re-formatted or "
                                 "discarded in the same function - it does not reach the return value still carrying them")
    for cfg, prog in ctx.programs.items():
        n = 0
        for f in prog.fns("stylua_lib"):
            if not f.path.startswith("formatters::"):
                continue
            for b, t in f.calls():
                c = callee(t)
                if not GETTER.search(c) or not t["args"] or not t.get("dst") or is_const(t["args"][0]):
                    continue
                attached = False
                seen, work = set(), [t["dst"]["l"]]
                while work:
                    l = work.pop()
                    if l in seen:
                        continue
                    seen.add(l)
                    for u in forward_uses(f, l):
                        if u[0] == "agg":
                            if "FormatTriviaType" in u[2]["rv"].get("adt", ""):
                                attached = True
                            work.append(u[2]["dst"]["l"])
                        elif u[0] == "call" and u[2].get("dst") and not u[2]["dst"].get("p"):
                            work.append(u[2]["dst"]["l"])
                if not attached:
                    continue
                n += 1
                roots = {r[:2] if r[0] != "call" else r for r in provenance(f, t["args"][0], into_aggs=False)}
                handled = False
                for b2, t2 in f.calls():
                    if b2 == b or not SRC_HANDLED.search(callee(t2)):
                        continue
                    for a in t2["args"]:
                        if not is_const(a) and ({r[:2] if r[0] != "call" else r for r in provenance(f, a, into_aggs=False)} & roots):
                            handled = True
                # does the source reach the return value?
                returned = False
                src_locals = set()
                for r in provenance(f, t["args"][0], through=None, into_aggs=False):
                    pass
                base = op_place(t["args"][0])["l"]
                # walk back through the borrow to the owning local
                owners = {base}
                for bi_, si_, s_ in f.defs().get(base, []):
                    if si_ != "term" and s_["rv"]["k"] in ("ref", "rawptr"):
                        owners.add(s_["rv"]["p"]["l"])
                seen2, work2 = set(), list(owners)
                while work2:
                    l = work2.pop()
                    if l in seen2:
                        continue
                    seen2.add(l)
                    for u in forward_uses(f, l):
                        if u[0] == "ret":
                            returned = True
                        elif u[0] == "agg":
                            work2.append(u[2]["dst"]["l"])
                        elif u[0] == "call" and u[2].get("dst") and not u[2]["dst"].get("p") and u[3] == 0 and \
                                re.search(r"Box::<.*>::new$|::with_[a-z_]+$|Clone>::clone$|to_owned$", callee(u[2])):
                            if u[2]["dst"]["l"] == 0:
                                returned = True
                            work2.append(u[2]["dst"]["l"])
                ok = handled or not returned
                rep.inst(f"{f.key} comments copied with {c.split('::')[-1]} leave their source", {"at": f.loc(t["sp"]), "source_handled": handled,
                                                                                                  "source_returned": returned}, cfg, ok=ok)
                if not ok:
                    rep.violation(f"{f.key} copied-comments-stay-on-source {c.split('::')[-1]}",
                                  f"{f.path} reads comments with the getter {c.split('::')[-1]}() (a copy), attaches them to another token and "
                                  f"returns the node they were read from without stripping it (no take_* / strip_* / update_*_trivia / "
                                  f"formatter call on it): every such comment appears twice, and a `--` copy left inside swallows what "
                                  f"follows on its line", f.loc(t["sp"]), cfg)
        rep.floor("getter-copied comments that are re-attached", n, 2, cfg)
    return rep


def rule_closure_raw(ctx, prop):
    """`formatted.map(|_| if can_hang(original) { hang(original) } else { original.to_owned() })`: the else branch hands the input
    back as written - quotes, call parentheses, spacing and line endings of that node are the input's"""
    rep = Report(prop, "R-RAWNODE(closure)", "a closure of an ordinary formatter (not the range-only visitor) that returns an AST node returns one "
                                             "that came out of a formatter / constructor on every path - never a bare clone of a captured or "
                                             "parameter node")
    for cfg, prog in ctx.programs.items():
        n = 0
        for g in prog.fns("stylua_lib"):
            if g.kind != "Closure" or not g.path.startswith("formatters::") or "stmt_block::" in g.path or \
                    g.path.startswith("formatters::block::format_last_stmt_block"):
                continue
            if not g.locals[0].startswith("full_moon::ast::"):
                continue
            if not re.search(r"::(format_|hang_|attempt_)[a-z_]*$", g.path.split("::{closure")[0]):
                continue        # helpers that post-process an already formatted node (`stmt_remove_leading_newlines`) clone it as is
            try:
                res = Enumerator(g, max_paths=5000).run()
            except TooManyPaths:
                rep.note(f"@{cfg}: {g.path}: too many paths (not evaluated)")
                continue
            n += 1
            raw = None
            for st in res:
                pr = _producers(g, st, st.vals.get(0))
                if pr & {"to_owned", "clone"}:
                    raw = st
                    break
            rep.inst(f"{g.key} returns formatted nodes only", {"paths": len(res)}, cfg, ok=raw is None)
            if raw is not None:
                conds = sorted({callee(g.blocks[cb]["term"]).split("::")[-1] + "=" + str(d) for cb, d in raw.decisions.items()})
                rep.violation(f"{g.key} closure-returns-unformatted-clone",
                              f"{g.path} has a path ({conds or 'unconditional'}) on which it returns a clone of an input node instead of a "
                              f"formatted one: that node is emitted as the input wrote it (quote style, call parentheses, spacing after "
                              f"function names, indentation and line endings of the configuration are not applied to it)", g.loc(), cfg)
        rep.floor("closures of ordinary formatters returning AST nodes", n, 5, cfg)
    return rep


def rule_pair_source(ctx, prop):
    """`format_token_expression_sequence(ctx, x.then_token(), x.expression(), ..)`: keyword and operand of one arm"""
    rep = Report(prop, "R-PAIR", "the (token, expression) pair handed to format_token_expression_sequence is read from one and the same node: "
                                 "the receivers of the two getters share their origin")
    for cfg, prog in ctx.programs.items():
        n = 0
        for f in prog.fns("stylua_lib"):
            if not f.path.startswith("formatters::"):
                continue
            for b, t in f.calls():
                if not callee(t).endswith("expression::format_token_expression_sequence") or len(t["args"]) < 3:
                    continue
                recv = []
                for a in t["args"][1:3]:
                    rs = set()
                    if not is_const(a):
                        for r in provenance(f, a, through=None, into_aggs=False):
                            if r[0] == "call":
                                t2 = f.blocks[r[2]]["term"]
                                if t2["args"] and not is_const(t2["args"][0]):
                                    rs |= {x[:2] if x[0] != "call" else x for x in provenance(f, t2["args"][0], into_aggs=False)}
                            else:
                                rs.add(r[:2])
                    recv.append(rs)
                if not recv[0] or not recv[1]:
                    continue
                n += 1
                ok = bool(recv[0] & recv[1])
                rep.inst(f"{f.key} token and expression of one node", {"at": f.loc(t["sp"])}, cfg, ok=ok)
                if not ok:
                    rep.violation(f"{f.key} token-and-expression-from-different-nodes",
                                  f"{f.path} hands format_token_expression_sequence a keyword token read from one node and an expression read "
                                  f"from another (e.g. the outer `if`'s `then` with an `elseif` arm's expression): both print the same "
                                  f"keyword, but the comments attached to the arm's own token are dropped and the other token's comments "
                                  f"are emitted again", f.loc(t["sp"]), cfg)
        from extract import FEATURES as _F2
        if "luau" in _F2.get(cfg, ()):
            rep.floor("format_token_expression_sequence call sites with getter arguments", n, 2, cfg)
    return rep
