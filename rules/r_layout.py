"""R-COMMENTLAYOUT - where a comment test chooses between a flat and a hanging / multi-line layout, the flat producer is
never the source of the returned node on a path where the test answered true.

The table below was discovered by enumerating, for every function of `formatters::` that calls a comment predicate, the
producers of the returned value on the paths where each predicate call answered true / false (a statistic), then each
row was confirmed by reading the function. It is frozen: a row is (function, predicate, flat producer). The rule is
existential over same-named predicate calls (so statement order and block numbers do not matter): some call of the
predicate in the function must have no true-path whose returned value is produced by the flat formatter."""
import re
from engine import Report
from facts import *
from paths import Enumerator, TooManyPaths

NEUTRAL = re.compile(r"update_(leading|trailing)_trivia$|to_owned$|Clone>::clone$|::with_[a-z_]+$|prepend_newline_indent$|"
                     r"strip_(leading_|trailing_)?trivia$|Box::<.*>::new$|Option::<.*>::(unwrap|expect)$")

# (function, predicate (last path segment), flat producer (last path segment), feature, what goes wrong)
TABLE = [
    ("formatters::assignment::attempt_assignment_tactics", "punctuated_inline_comments", "format_punctuated", None,
     "a line comment between the items of the right-hand side is followed by the next item on the same line"),
    ("formatters::assignment::attempt_assignment_tactics", "has_inline_comments", "format_punctuated", None,
     "an item containing a line comment is kept on one line"),
    ("formatters::general::try_format_punctuated", "punctuated_inline_comments", "format_punctuated", None,
     "a line comment inside a punctuated list is followed by the next element on the same line"),
    ("formatters::expression::format_token_expression_sequence", "contains_comments", "format_expression", None,
     "`not -- c` / `-` followed by an expression with comments is kept on one line"),
    ("formatters::luau::format_hangable_type_info_internal", "should_hang_type", "format_type_info_internal", "luau",
     "a union / intersection with a comment beside `|` is formatted flat"),
    ("formatters::luau::format_type_info_generics", "has_trailing_comments", "format_punctuated", "luau",
     "a generic argument followed by a line comment is kept on one line"),
    ("formatters::luau::attempt_assigned_type_tactics", "should_hang_type", "format_type_info", "luau",
     "`type T = A | -- c` newline `{ .. }` is hugged on one line: the rest of the type lands inside the comment"),
]


def _producers(f, st, v, depth=0):
    """last path segments of the calls the (components of the) value came out of on this path"""
    if v is None:
        return {"?"}
    if v[0] == "callres":
        t = f.blocks[v[1]]["term"]
        c = callee(t)
        if NEUTRAL.search(c) and t["args"] and depth < 8 and not is_const(t["args"][0]):
            vv = st.vals.get(op_place(t["args"][0])["l"])
            r = _producers(f, st, vv, depth + 1)
            if r != {"?"}:
                return r
        return {c.split("::<")[0].split("::")[-1]}
    if v[0] == "tuple":
        out = set()
        for x in v[1]:
            out |= _producers(f, st, x, depth + 1)
        return out
    return {"?" + str(v[0])}


def rule_comment_layout(ctx, prop):
    from extract import FEATURES
    rep = Report(prop, "R-COMMENTLAYOUT", "where a comment test chooses the hanging / multi-line layout, no path on which the test "
                                          "answered true returns a node produced by the flat formatter (frozen table of "
                                          f"{len(TABLE)} confirmed (function, predicate, flat producer) rows)")
    for cfg, prog in ctx.programs.items():
        n = 0
        cache = {}
        for fn, pred, flat, feat, what in TABLE:
            if feat and feat not in FEATURES.get(cfg, ()):
                continue
            f = prog.fn("stylua_lib", fn)
            if f is None:
                rep.note(f"@{cfg}: {fn} not found (row not evaluated)")
                continue
            sites = [b for b, t in f.calls() if callee(t).split("::<")[0].split("::")[-1] == pred]
            if not sites:
                rep.note(f"@{cfg}: {fn} no longer calls {pred} (row not evaluated)")
                continue
            if fn not in cache:
                try:
                    cache[fn] = Enumerator(f, max_paths=40000).run()
                except TooManyPaths:
                    cache[fn] = None
            res = cache[fn]
            if not rep.anchor(res is not None, f"{fn}: path enumeration within bounds", cfg):
                continue
            per_site = {}
            for st in res:
                pr = None
                for cb in sites:
                    if st.decisions.get(cb) is True:
                        if pr is None:
                            pr = _producers(f, st, st.vals.get(0))
                        per_site.setdefault(cb, set()).update(pr)
            decided = {cb: ps for cb, ps in per_site.items()}
            if not decided:
                rep.note(f"@{cfg}: {fn}: no path decides {pred} (row not evaluated)")
                continue
            n += 1
            ok = any(flat not in ps for ps in decided.values())
            rep.inst(f"{f.key} {pred} => not {flat}", {"true_path_producers": {str(k): sorted(v) for k, v in decided.items()}}, cfg, ok=ok)
            if not ok:
                rep.violation(f"{f.key} comment-test-does-not-force-layout {pred} flat={flat}",
                              f"{fn} has a path on which {pred}(..) answered true and the returned node still comes out of {flat} "
                              f"(for every call of that predicate): {what} - code after a `--` comment on the same line becomes "
                              f"part of the comment", f.loc(), cfg)
        want = sum(1 for r in TABLE if not r[3] or r[3] in FEATURES.get(cfg, ()))
        rep.floor("comment-forced layout rows evaluated", n, max(1, want - 2), cfg)
    return rep
