"""R-PADLINE (C10): the one-space padding of `t[ [[s]] ]` is never applied on the multi-line index layout.

format_index has two layouts for Index::Brackets: the single-line one (where a long-bracket key is kept apart from the
brackets by one space on each side) and the multi-line one (chosen when a comment sits inside the brackets: `[` carries
[newline, indent] as trailing trivia, the key stands on its own line, followed by a newline). A padding space applied on
the multi-line path lands directly behind the indent (leading whitespace = indent + 1 space) and in front of the line
ending. Decided here: no CFG path of format_index contains both an *application* of a spaces() token (an
update_leading_trivia / update_trailing_trivia call whose argument is built from TokenType::spaces, in the body or in a
closure of format_index invoked on that path) and a create_indent_trivia call. Merely *building* the token before the
branch is not an application.
"""
from engine import Report
from facts import callee, op_local, is_const, op_place

FN = "formatters::expression::format_index"


def _back_calls(f, o, depth=0):
    """callee names reachable backwards from operand o through assignments, aggregates and every call argument."""
    seen, out, work = set(), set(), []
    def push(x):
        if x is None or is_const(x):
            return
        p = op_place(x)
        if p is not None and p["l"] not in seen:
            seen.add(p["l"]); work.append(p["l"])
    push(o)
    defs = f.defs()
    # stores through a projection (`(*box) = [tok]` of the vec! expansion) define the base local too
    stores = {}
    for bi, si, st in f.stmts():
        if st["k"] == "assign" and "p" in st["dst"]:
            # the pointer written through may be a cast/ref alias of the box (`_p = transmute(box.0.pointer)`)
            al, w2 = set(), [st["dst"]["l"]]
            while w2:
                x = w2.pop()
                if x in al:
                    continue
                al.add(x)
                for _b, _si, d in defs.get(x, []):
                    if _si != "term" and d["rv"]["k"] in ("use", "cast", "ref", "rawptr"):
                        q = op_place(d["rv"].get("o")) if d["rv"].get("o") else d["rv"].get("p")
                        if q is not None:
                            w2.append(q["l"])
            for x in al:
                stores.setdefault(x, []).append(st)
    while work:
        l = work.pop()
        for st in stores.get(l, []):
            rv = st["rv"]
            for k in ("o", "a", "b"):
                if isinstance(rv.get(k), dict):
                    push(rv[k])
            for x in rv.get("ops", []) or []:
                push(x)
        for bi, si, s in defs.get(l, []):
            if si == "term":
                out.add(callee(s))
                for a in s.get("args", []):
                    push(a)
            else:
                rv = s["rv"]
                for k in ("o", "a", "b"):
                    if isinstance(rv.get(k), dict):
                        push(rv[k])
                if isinstance(rv.get("p"), dict):
                    if rv["p"]["l"] not in seen:
                        seen.add(rv["p"]["l"]); work.append(rv["p"]["l"])
                for x in rv.get("ops", []) or []:
                    push(x)
    return out


def _full_callees(f, o):
    """resolved full callee names (they carry the closure path for Fn::call) behind operand o"""
    if o is None or is_const(o):
        return set()
    out, seen, work = set(), set(), [op_place(o)["l"]]
    defs = f.defs()
    while work:
        l = work.pop()
        if l in seen:
            continue
        seen.add(l)
        for bi, si, s in defs.get(l, []):
            if si == "term":
                out.add((s.get("rfn") or s.get("fn") or ""))
                for a in s.get("args", []):
                    if not is_const(a) and op_place(a) is not None:
                        work.append(op_place(a)["l"])
            else:
                rv = s["rv"]
                for k in ("o", "a", "b"):
                    if isinstance(rv.get(k), dict) and not is_const(rv[k]) and op_place(rv[k]) is not None:
                        work.append(op_place(rv[k])["l"])
                for x in rv.get("ops", []) or []:
                    if not is_const(x) and op_place(x) is not None:
                        work.append(op_place(x)["l"])
    return out


def _apply_sites(prog, f, closures, memo):
    """blocks of f where a spaces() token is applied: directly, or by calling an own closure that applies one."""
    if f.path in memo:
        return memo[f.path]
    memo[f.path] = []
    res = []
    for bi, t in f.calls():
        c = callee(t)
        if c.endswith("update_leading_trivia") or c.endswith("update_trailing_trivia"):
            args = t.get("args", [])
            back = _back_calls(f, args[1]) if len(args) >= 2 else set()
            # the token may be built by an own closure (`let padding = || vec![Token::new(TokenType::spaces(1))]`)
            via = [g for g in closures if any(g.path in x for x in back | _full_callees(f, args[1] if len(args) >= 2 else None))
                   and any(callee(tt).endswith("TokenType::spaces") for _b, tt in g.calls())]
            if any(x.endswith("TokenType::spaces") for x in back) or via:
                res.append((bi, t, c.split("::")[-1]))
        else:
            full = (t.get("rfn") or t.get("fn") or "") + " " + c
            for g in closures:
                if g is not f and g.path in full and _apply_sites(prog, g, closures, memo):
                    res.append((bi, t, "closure " + g.path.split("::")[-1]))
    memo[f.path] = res
    return res


def rule_padline(ctx, prop):
    rep = Report(prop, "R-PADLINE", "the padding space of a long-bracket index key is never applied on the multi-line "
                                    "index layout (it would follow the indent / precede the line ending)")
    for cfg, prog in ctx.programs.items():
        f = prog.fn("stylua_lib", FN)
        if not rep.anchor(f is not None, FN, cfg):
            continue
        closures = [g for g in prog.fns("stylua_lib") if g.path.startswith(FN + "::{closure")]
        pads = _apply_sites(prog, f, closures, {})
        inds = [(bi, t) for bi, t in f.calls() if callee(t).endswith("create_indent_trivia")]
        rep.floor("padding applications in format_index", len(pads), 2, cfg)
        rep.floor("create_indent_trivia calls in format_index", len(inds), 1, cfg)
        for pb, pt, what in pads:
            bad = None
            for ib, it in inds:
                if ib in f.reach_from(pb) or pb in f.reach_from(ib):
                    bad = (ib, it)
                    break
            rep.inst(f"{f.key} pad@{what} vs multi-line layout", {"fn": f.key, "pad_at": f.loc(pt["sp"])}, cfg, ok=bad is None)
            if bad:
                rep.violation(f"{f.key} pad-space-on-multiline-index",
                              f"format_index applies a spaces() padding token ({what}, {f.loc(pt['sp'])}) on a path that also "
                              f"builds the multi-line layout (create_indent_trivia at {f.loc(bad[1]['sp'])}): the space lands "
                              f"behind the indent / before the line ending, so the line's leading whitespace is no longer "
                              f"indent only", f.loc(pt["sp"]), cfg,
                              witness={"input": "t[ -- c\n [[key]] ] = 1", "path": [f.loc(pt["sp"]), f.loc(bad[1]["sp"])]})
    return rep
