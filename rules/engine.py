"""Check plumbing: rule reports, known findings, evidence and replay files."""
import json
import os
import time

VERIF = os.path.dirname(os.path.dirname(os.path.abspath(__file__)))
KNOWN_FILE = os.path.join(VERIF, "KNOWN_FINDINGS.txt")


class Violation:
    def __init__(self, prop, rule, key, msg, loc=None, config=None, witness=None):
        self.prop = prop
        self.rule = rule
        self.key = key          # '<rule> <crate>::<fn> <instance>'  (no line numbers)
        self.msg = msg
        self.loc = loc
        self.config = config
        self.witness = witness

    @property
    def full_key(self):
        k = f"{self.prop} {self.key}"
        if self.config:
            k += f" @{self.config}"
        return k

    def to_json(self):
        return {"property": self.prop, "rule": self.rule, "key": self.full_key, "message": self.msg,
                "location": self.loc, "config": self.config, "witness": self.witness}


class Report:
    """Collects what one rule analysed and what it found."""

    def __init__(self, prop, rule, title):
        self.prop = prop
        self.rule = rule
        self.title = title
        self.evaluations = 0
        self.distinct = set()
        self.samples = []
        self.violations = []
        self.notes = []
        self.obligations = 0
        self.discharged = 0

    def inst(self, key, sample=None, config=None, ok=True):
        """one rule instance evaluated on real code (a call site, a match, a table row...)."""
        self.evaluations += 1
        self.obligations += 1
        if ok:
            self.discharged += 1
        k = (self.rule, key)
        if k not in self.distinct:
            self.distinct.add(k)
            if sample is not None and len(self.samples) < 6:
                s = {"rule": self.rule, "instance": key}
                if isinstance(sample, dict):
                    s.update(sample)
                else:
                    s["what"] = sample
                if config:
                    s["config"] = config
                self.samples.append(s)

    def violation(self, key, msg, loc=None, config=None, witness=None):
        self.violations.append(Violation(self.prop, self.rule, f"{self.rule} {key}", msg, loc, config, witness))

    def anchor(self, cond, name, config=None, detail=""):
        """fail closed when an anchor the rule is keyed on no longer resolves."""
        if not cond:
            self.violation(f"anchor-lost {name}", f"anchor lost: {name} {detail} - the rule cannot be evaluated "
                                                  f"(fail closed)", config=config)
        return bool(cond)

    def floor(self, name, count, minimum, config=None):
        """fail closed when a rule matches fewer instances than were confirmed by hand."""
        if count < minimum:
            self.violation(f"below-floor {name}", f"rule matched {count} instances of '{name}', fewer than the "
                                                  f"{minimum} confirmed on the pinned tree (fail closed: the rule "
                                                  f"would pass vacuously)", config=config)
        self.notes.append(f"{name}: {count} (floor {minimum})" + (f" @{config}" if config else ""))

    def note(self, s):
        self.notes.append(s)


def load_known():
    known = {}
    fixed = []
    if not os.path.exists(KNOWN_FILE):
        return known, fixed
    with open(KNOWN_FILE) as f:
        for line in f:
            line = line.rstrip("\n")
            if not line.strip() or line.lstrip().startswith("#"):
                continue
            if line.startswith("fixed:"):
                fixed.append(line)
                continue
            if line.startswith("known:"):
                body = line[len("known:"):].strip()
                # '<key> @cfg1,cfg2 :: <what fails>'
                if "::::" in body:
                    keypart, what = body.split("::::", 1)
                else:
                    keypart, what = body, ""
                keypart = keypart.strip()
                what = what.strip()
                if " @" in keypart:
                    k, cfgs = keypart.rsplit(" @", 1)
                    for c in cfgs.split(","):
                        known[f"{k.strip()} @{c.strip()}"] = what
                else:
                    known[keypart] = what
    return known, fixed


def finish(prop, tier, seed, reports, t0, explanation, assumptions, level="other", extra=None):
    """apply known findings, print, write evidence + replay; returns exit code."""
    known, _fixed = load_known()
    evdir = os.path.join(VERIF, "evidence")
    rpdir = os.path.join(VERIF, "replay")
    if os.environ.get("VERIF_SCRATCH_OUT"):
        import tempfile
        base = tempfile.mkdtemp(prefix="verif-scratch-")
        evdir = os.path.join(base, "evidence")
        rpdir = os.path.join(base, "replay")
    os.makedirs(evdir, exist_ok=True)
    os.makedirs(rpdir, exist_ok=True)
    evaluations = sum(r.evaluations for r in reports)
    distinct = set()
    for r in reports:
        distinct |= r.distinct
    samples = []
    for r in reports:
        samples.extend(r.samples[:3])
    obligations = sum(r.obligations for r in reports)
    discharged = sum(r.discharged for r in reports)
    new = []
    knownhits = {}
    for r in reports:
        for v in r.violations:
            if v.full_key in known:
                knownhits.setdefault(v.full_key, (known[v.full_key], v))
            else:
                new.append(v)
    for r in reports:
        print(f"[{prop}] rule {r.rule}: {r.title}")
        print(f"[{prop}]   instances evaluated={r.evaluations} distinct={len(r.distinct)} "
              f"violations={len(r.violations)}")
        for n in r.notes[:40]:
            print(f"[{prop}]   {n}")
    printed = set()
    for k, (what, v) in sorted(knownhits.items()):
        base = k.rsplit(" @", 1)[0]
        if base in printed:
            continue
        printed.add(base)
        cfgs = sorted(kk.rsplit(" @", 1)[1] for kk in knownhits if kk.rsplit(" @", 1)[0] == base and " @" in kk)
        shown = base[len(prop) + 1:] if base.startswith(prop + " ") else base
        print(f"KNOWN-FINDING: property={prop} {shown}" + (f" @{','.join(cfgs)}" if cfgs else "") + f" :: {what}")
    rc = 0
    replay_paths = []
    if new:
        rc = 1
        # one replay file per distinct key
        seen = set()
        for i, v in enumerate(new):
            if v.full_key in seen:
                continue
            seen.add(v.full_key)
            path = os.path.join(rpdir, f"{prop}-{len(seen)}.json")
            with open(path, "w") as f:
                json.dump(v.to_json(), f, indent=1)
            replay_paths.append(path)
            print(f"[{prop}] violation: {v.full_key}\n[{prop}]     {v.msg}" + (f"\n[{prop}]     at {v.loc}" if v.loc else ""))
            print(f"VIOLATION property={prop} replay={path}")
    ev = {
        "property_id": prop,
        "tier": tier,
        "seed": seed,
        "level": level,
        "coverage": {
            "explanation": explanation,
            "evaluations": evaluations,
            "distinct_nontrivial": len(distinct),
            "rule": "static rule instances: one evaluation = one (rule, code site, feature configuration) "
                    "instance matched in the MIR facts of /repo's current tree; distinct = distinct (rule, site) "
                    "pairs after merging configurations; an instance is non-trivial because it only exists if the "
                    "rule's pattern matched real code (anchors and floors fail closed)",
            "samples": samples,
            "obligations": obligations,
            "discharged": discharged,
            "rules": [{"rule": r.rule, "title": r.title, "evaluations": r.evaluations,
                       "distinct": len(r.distinct), "violations": len(r.violations), "notes": r.notes[:60]}
                      for r in reports],
            "known_findings_reported": sorted(printed),
            "exhaustive": False,
        },
        "assumptions": assumptions,
        "wall_s": round(time.time() - t0, 2),
        "violations": len({v.full_key for v in new}),
    }
    if extra:
        ev["coverage"].update(extra)
    with open(os.path.join(evdir, f"{prop}.json"), "w") as f:
        json.dump(ev, f, indent=1)
    print(f"[{prop}] {'FAIL' if rc else 'ok'}: {evaluations} instances, {len(distinct)} distinct, "
          f"{len(printed)} known findings, {len({v.full_key for v in new})} new violations, "
          f"{ev['wall_s']}s")
    return rc
