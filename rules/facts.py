"""Fact loading and generic analyses (CFG, dominators, call graph, alias classes).

Facts are produced by /verif/driver (rustc_private) from the type-checked program;
nothing here runs StyLua or formats Lua.
"""
import json
import os
import re
from collections import defaultdict


class Fn:
    __slots__ = ("prog", "crate", "path", "kind", "span", "parent", "locals", "argc", "names",
                 "blocks", "promoted", "impl_self", "impl_trait", "upvars", "_succ", "_pred",
                 "_dom", "_pdom", "_defs", "_reach")

    def __init__(self, prog, crate, d):
        self.prog = prog
        self.crate = crate
        self.path = d["path"]
        self.kind = d["kind"]
        self.span = d["span"]
        self.parent = d.get("parent")
        self.locals = d["locals"]
        self.argc = d["argc"]
        self.names = d["names"]
        self.blocks = d["blocks"]
        self.promoted = d.get("promoted", [])
        self.impl_self = d.get("impl_self")
        self.impl_trait = d.get("impl_trait")
        self.upvars = d.get("upvars")
        self._succ = None
        self._pred = None
        self._dom = None
        self._pdom = None
        self._defs = None
        self._reach = None

    @property
    def key(self):
        return f"{self.crate}::{self.path}"

    def loc(self, sp=None):
        sp = sp or self.span
        return f"{sp.get('f')}:{sp.get('l')}"

    # ---- CFG -------------------------------------------------------------
    def term_succ(self, bi, include_unwind=False):
        t = self.blocks[bi]["term"]
        k = t["k"]
        out = []
        if k == "goto":
            out = [t["t"]]
        elif k == "switch":
            out = [x[1] for x in t["targets"]] + [t["otherwise"]]
        elif k in ("call", "drop", "assert"):
            if t.get("t") is not None:
                out = [t["t"]]
            if include_unwind and t.get("uw") is not None:
                out.append(t["uw"])
        return out

    @property
    def succ(self):
        if self._succ is None:
            self._succ = [self.term_succ(i) for i in range(len(self.blocks))]
        return self._succ

    @property
    def pred(self):
        if self._pred is None:
            p = [[] for _ in self.blocks]
            for i, ss in enumerate(self.succ):
                for s in ss:
                    p[s].append(i)
            self._pred = p
        return self._pred

    def reachable(self):
        if self._reach is None:
            seen = {0}
            st = [0]
            while st:
                b = st.pop()
                for s in self.succ[b]:
                    if s not in seen:
                        seen.add(s)
                        st.append(s)
            self._reach = seen
        return self._reach

    def dominators(self):
        """dom[b] = set of blocks dominating b (non-unwind CFG)."""
        if self._dom is None:
            n = len(self.blocks)
            reach = self.reachable()
            allb = set(reach)
            dom = {b: set(allb) for b in reach}
            dom[0] = {0}
            changed = True
            order = sorted(reach)
            while changed:
                changed = False
                for b in order:
                    if b == 0:
                        continue
                    ps = [p for p in self.pred[b] if p in reach]
                    if ps:
                        new = set.intersection(*(dom[p] for p in ps)) | {b}
                    else:
                        new = {b}
                    if new != dom[b]:
                        dom[b] = new
                        changed = True
            self._dom = dom
        return self._dom

    def dominates(self, a, b):
        d = self.dominators()
        return b in d and a in d[b]

    def exits(self):
        """blocks with return terminators (normal exits)."""
        return [i for i in self.reachable() if self.blocks[i]["term"]["k"] == "return"]

    def postdominators(self):
        """pdom[b] = set of blocks post-dominating b w.r.t. normal returns.
        Blocks that cannot reach a return (panic paths) are post-dominated by everything
        (standard convention); callers should treat diverging paths separately."""
        if self._pdom is None:
            reach = self.reachable()
            exits = self.exits()
            # nodes that can reach an exit
            can = set(exits)
            st = list(exits)
            while st:
                b = st.pop()
                for p in self.pred[b]:
                    if p in reach and p not in can:
                        can.add(p)
                        st.append(p)
            pd = {b: set(can) for b in can}
            for e in exits:
                pd[e] = {e}
            changed = True
            order = sorted(can, reverse=True)
            while changed:
                changed = False
                for b in order:
                    if b in exits:
                        continue
                    ss = [s for s in self.succ[b] if s in can]
                    if ss:
                        new = set.intersection(*(pd[s] for s in ss)) | {b}
                    else:
                        new = {b}
                    if new != pd[b]:
                        pd[b] = new
                        changed = True
            self._pdom = pd
        return self._pdom

    def reach_from(self, start, avoid=()):
        """set of blocks reachable from block `start` (inclusive) along non-unwind edges,
        never entering blocks in `avoid`."""
        avoid = set(avoid)
        seen = set()
        st = [start]
        while st:
            b = st.pop()
            if b in seen or b in avoid:
                continue
            seen.add(b)
            st.extend(self.succ[b])
        return seen

    # ---- statements --------------------------------------------------------
    def stmts(self):
        for bi, b in enumerate(self.blocks):
            for si, s in enumerate(b["st"]):
                yield bi, si, s

    def calls(self):
        for bi, b in enumerate(self.blocks):
            t = b["term"]
            if t["k"] == "call":
                yield bi, t

    def defs(self):
        """local -> list of (bi, si|'term', stmt_or_term) whole-local definitions."""
        if self._defs is None:
            d = defaultdict(list)
            for bi, si, s in self.stmts():
                if s["k"] == "assign" and "p" not in s["dst"]:
                    d[s["dst"]["l"]].append((bi, si, s))
            for bi, t in self.calls():
                if "p" not in t["dst"]:
                    d[t["dst"]["l"]].append((bi, "term", t))
            self._defs = d
        return self._defs

    def local_ty(self, l):
        return self.locals[l]


def callee(t):
    """best name for the callee of a call terminator: resolved base if any."""
    return t.get("rbase") or t.get("fnbase") or ""


def callee_full(t):
    return t.get("rfn") or t.get("fn") or ""


def op_place(o):
    if o is None:
        return None
    return o.get("cp") or o.get("mv")


def op_local(o):
    p = op_place(o)
    if p is None:
        return None
    return p["l"]


def is_const(o):
    return o is not None and o.get("c") == 1


def place_str(p):
    s = f"_{p['l']}"
    for e in p.get("p", []):
        if e == "*":
            s = f"(*{s})"
        elif isinstance(e, dict):
            if "f" in e:
                s = f"{s}.{e['f']}"
            elif "v" in e:
                s = f"({s} as {e['v']})"
            elif "i" in e:
                s = f"{s}[_{e['i']}]"
            elif "ci" in e:
                s = f"{s}[{'-' if e.get('fe') else ''}{e['ci']}]"
        else:
            s = f"{s}.<{e}>"
    return s


def proj_fields(p):
    """list of field / variant names in a projection chain (derefs dropped)."""
    out = []
    for e in p.get("p", []):
        if isinstance(e, dict):
            if "f" in e:
                out.append(("f", e["f"]))
            elif "v" in e:
                out.append(("v", e["v"]))
            elif "i" in e or "ci" in e:
                out.append(("i", None))
    return out


class Crate:
    def __init__(self, prog, d):
        self.name = d["crate"]
        self.config = d["config"]
        self.adts = d["adts"]
        self.fns = [Fn(prog, self.name, f) for f in d["fns"]]
        self.by_path = {}
        for f in self.fns:
            self.by_path.setdefault(f.path, f)


class Program:
    """All crates of one feature configuration."""

    def __init__(self, config, files):
        self.config = config
        self.crates = {}
        for fp in files:
            with open(fp) as fh:
                d = json.load(fh)
            c = Crate(self, d)
            self.crates[c.name] = c
        self.adts = {}
        for c in self.crates.values():
            for k, v in c.adts.items():
                # local crate paths are unqualified inside their own crate: qualify them
                self.adts.setdefault(k, v)
        self._callers = None

    def fns(self, crate=None):
        for c in self.crates.values():
            if crate and c.name != crate:
                continue
            for f in c.fns:
                yield f

    def fn(self, crate, path):
        c = self.crates.get(crate)
        if not c:
            return None
        return c.by_path.get(path)

    def find_fns(self, crate, regex):
        r = re.compile(regex)
        return [f for f in self.fns(crate) if r.search(f.path)]

    def adt(self, path, crate=None):
        if crate and crate in self.crates:
            a = self.crates[crate].adts.get(path)
            if a:
                return a
        return self.adts.get(path)

    def variants(self, enum_path, crate=None):
        a = self.adt(enum_path, crate)
        if not a:
            return None
        return [v["name"] for v in a["variants"]]

    def discr_name(self, enum_path, val, crate=None):
        a = self.adt(enum_path, crate)
        if not a:
            return None
        for v in a["variants"]:
            if v["discr"] == val:
                return v["name"]
        return None

    # qualified callee name: callee paths are printed relative to the *calling* crate
    # (local items unqualified, foreign items qualified with their crate name).
    def qual(self, crate, path):
        return path


def switch_info(fn, bi):
    """For a switch terminator on an enum discriminant, return
    dict(enum, place, targets={variant: bb}, otherwise=bb, otherwise_variants=[...]) or None."""
    t = fn.blocks[bi]["term"]
    if t["k"] != "switch":
        return None
    l = op_local(t["on"])
    if l is None:
        return None
    # find discr def of l (same block preferred, else unique def)
    d = None
    for s in reversed(fn.blocks[bi]["st"]):
        if s["k"] == "assign" and s["dst"]["l"] == l and "p" not in s["dst"]:
            d = s
            break
    if d is None:
        ds = fn.defs().get(l, [])
        if len(ds) == 1 and ds[0][1] != "term":
            d = ds[0][2]
    if d is None or d["rv"]["k"] != "discr":
        return None
    enum = d["rv"]["enum"]
    a = fn.prog.adt(enum, fn.crate)
    if not a:
        return {"enum": enum, "place": d["rv"]["p"], "targets": {}, "otherwise": t["otherwise"],
                "otherwise_variants": None, "unknown_adt": True, "raw": t["targets"]}
    byd = {v["discr"]: v["name"] for v in a["variants"]}
    targets = {}
    for val, bb in t["targets"]:
        targets[byd.get(val, f"#{val}")] = bb
    ow = [v["name"] for v in a["variants"] if v["name"] not in targets]
    return {"enum": enum, "place": d["rv"]["p"], "targets": targets, "otherwise": t["otherwise"],
            "otherwise_variants": ow, "non_exhaustive": a.get("non_exhaustive", False)}


def span_macros(sp):
    return sp.get("m", []) if sp else []


PANIC_CALLEES = re.compile(
    r"^(core|std)::(panicking::|rt::begin_panic|rt::panic_fmt|option::unwrap_failed|option::expect_failed|"
    r"result::unwrap_failed)")


def is_panic_call(t):
    return t["k"] == "call" and PANIC_CALLEES.search(callee(t) or "") is not None


# ---------------------------------------------------------------------------
# def-chain tracing (intra-procedural, flow-insensitive over whole-local defs)

def _only_derefs(p):
    return all(e == "*" for e in p.get("p", []))


def origins(fn, local, _seen=None):
    """Where does the value in `local` come from? Follows copies, moves, refs, derefs and
    casts through whole-local definitions. Returns a list of tuples:
      ('arg', n)                 - parameter n (1-based local index)
      ('call', bi, term)         - result of the call terminating block bi
      ('agg', bi, stmt)          - an aggregate
      ('const', operand)
      ('proj', place, bi)        - a projection (field/variant/index) of another local
      ('upvar', place)           - closure capture (projection of _1 in a closure)
      ('other', bi, stmt)
    """
    if _seen is None:
        _seen = set()
    if local in _seen:
        return []
    _seen.add(local)
    out = []
    ds = fn.defs().get(local, [])
    if not ds:
        if 1 <= local <= fn.argc:
            return [("arg", local)]
        return []
    if 1 <= local <= fn.argc:
        out.append(("arg", local))
    for bi, si, s in ds:
        if si == "term":
            out.append(("call", bi, s))
            continue
        rv = s["rv"]
        k = rv["k"]
        if k == "use":
            o = rv["o"]
            if is_const(o):
                out.append(("const", o))
            else:
                p = op_place(o)
                if _only_derefs(p):
                    out.extend(origins(fn, p["l"], _seen))
                else:
                    out.append(("proj", p, bi))
        elif k in ("ref", "rawptr"):
            p = rv["p"]
            if _only_derefs(p):
                out.extend(origins(fn, p["l"], _seen))
            else:
                out.append(("proj", p, bi))
        elif k == "cast":
            o = rv["o"]
            if is_const(o):
                out.append(("const", o))
            else:
                p = op_place(o)
                if _only_derefs(p):
                    out.extend(origins(fn, p["l"], _seen))
                else:
                    out.append(("proj", p, bi))
        elif k == "agg":
            out.append(("agg", bi, s))
        else:
            out.append(("other", bi, s))
    return out


def operand_origins(fn, o):
    if is_const(o):
        return [("const", o)]
    p = op_place(o)
    if p is None:
        return []
    if _only_derefs(p):
        return origins(fn, p["l"])
    return [("proj", p, None)]


def deep_call_origins(fn, o, through=None, _depth=0, _seen=None):
    """Like operand_origins but additionally walks *through* calls whose callee matches
    `through` (regex) to the origins of their first argument (e.g. Deref::deref, clone,
    to_owned, as_ref, borrow). Returns flat origin list."""
    if _seen is None:
        _seen = set()
    res = []
    for og in operand_origins(fn, o):
        if og[0] == "call" and through is not None and through.search(callee(og[2]) or ""):
            key = ("c", og[1])
            if key in _seen or not og[2]["args"]:
                res.append(og)
                continue
            _seen.add(key)
            res.extend(deep_call_origins(fn, og[2]["args"][0], through, _depth + 1, _seen))
        elif og[0] == "proj" and through is not None:
            res.append(og)
        else:
            res.append(og)
    return res


PASS_THROUGH = re.compile(
    r"(::deref$|::deref_mut$|::clone$|::to_owned$|::as_ref$|::borrow$|::into$|::from$|::as_str$|::as_path$|"
    r"::unwrap$|::expect$|::into_iter$|::iter$|::as_mut$|Box::<.*>::new$|::boxed::Box.*::new$)")


def diverging_fns(prog):
    """set of fn keys that can never return normally (all paths panic), computed as a
    fix-point with calls to diverging local fns treated as non-returning."""
    div = set()
    byname = {}
    for f in prog.fns():
        byname[(f.crate, f.path)] = f
    changed = True
    while changed:
        changed = False
        for f in prog.fns():
            if f.key in div:
                continue
            if can_return(f, 0, div) is False:
                div.add(f.key)
                changed = True
    return div


def can_return(fn, start, div):
    """can a `return` be reached from block `start` when calls to fns in `div` never return?"""
    seen = set()
    st = [start]
    while st:
        b = st.pop()
        if b in seen:
            continue
        seen.add(b)
        t = fn.blocks[b]["term"]
        if t["k"] == "return":
            return True
        if t["k"] == "call":
            c = callee(t)
            if f"{fn.crate}::{c}" in div:
                continue
        st.extend(fn.succ[b])
    return False


def call_sites(prog, pattern, crate=None):
    """all call terminators whose resolved (or declared) callee matches regex `pattern`.
    yields (fn, bi, term)."""
    r = re.compile(pattern) if isinstance(pattern, str) else pattern
    for f in prog.fns(crate):
        for bi, t in f.calls():
            if r.search(callee(t)) or (t.get("fnbase") and r.search(t["fnbase"])):
                yield f, bi, t


def fn_refs(prog, pattern, crate=None):
    """uses of a fn item as a value (passed to map/filter...), matching regex; yields (fn, bi, operand)."""
    r = re.compile(pattern) if isinstance(pattern, str) else pattern

    def walk_ops(x):
        if isinstance(x, dict):
            if x.get("c") == 1 and "fn" in x:
                yield x
            for v in x.values():
                yield from walk_ops(v)
        elif isinstance(x, list):
            for v in x:
                yield from walk_ops(v)

    for f in prog.fns(crate):
        for bi, b in enumerate(f.blocks):
            for s in b["st"]:
                for o in walk_ops(s.get("rv")):
                    if r.search(o.get("rfn") or o["fn"]) or r.search(o["fn"]):
                        yield f, bi, o
            t = b["term"]
            if t["k"] == "call":
                for a in t["args"]:
                    for o in walk_ops(a):
                        if r.search(o.get("rfn") or o["fn"]) or r.search(o["fn"]):
                            yield f, bi, o


def bool_edge(fn, bi_call):
    """For a call in block bi_call returning bool that is immediately switched on, return
    (true_block, false_block) else None."""
    t = fn.blocks[bi_call]["term"]
    if t["k"] != "call" or t.get("t") is None or "p" in t["dst"]:
        return None
    l = t["dst"]["l"]
    nb = t["t"]
    # follow gotos / copies
    for _ in range(4):
        blk = fn.blocks[nb]
        tt = blk["term"]
        cur = l
        for s in blk["st"]:
            if s["k"] == "assign" and s["rv"]["k"] == "use" and op_local(s["rv"]["o"]) == cur and "p" not in s["dst"]:
                cur = s["dst"]["l"]
            if s["k"] == "assign" and s["rv"]["k"] == "unop" and s["rv"]["op"] == "Not" and op_local(s["rv"]["a"]) == cur:
                return None  # negation: caller should handle explicitly
        if tt["k"] == "switch" and op_local(tt["on"]) == cur:
            tr = fl = None
            for v, b in tt["targets"]:
                if v == 0:
                    fl = b
            tr = tt["otherwise"]
            if fl is None:
                return None
            return tr, fl
        if tt["k"] == "goto":
            nb = tt["t"]
            l = cur
            continue
        return None
    return None


# ---------------------------------------------------------------------------
# value provenance (backward, field-insensitive, through pass-through calls)

PROV_THROUGH = re.compile(
    r"(ops::Try>::branch$|::with_context$|::context$|::deref$|::deref_mut$|::clone$|::to_owned$|::as_ref$|"
    r"::as_str$|::as_path$|::as_slice$|::as_bytes$|::borrow$|::into$|::into_bytes$|::into_boxed_str$|"
    r"::unwrap$|::expect$|::to_path_buf$|::to_string$|::into_iter$|::iter$|::as_mut$|::as_deref$|"
    r"::to_vec$|::map_err$|Arc::<.*>::new$|::sync::Arc.*::new$|::boxed::Box.*::new$|::Arc::as_ref$|"
    r"::path$|::cloned$|::copied$|::unwrap_or_default$)")


def const_repr(o):
    for k in ("s", "variant", "v", "static", "fn"):
        if k in o:
            return f"{k}:{o[k]}"
    return f"pp:{o.get('pp')}"


def provenance(fn, x, through=PROV_THROUGH, into_aggs=True):
    """roots of the value in operand/local `x`:
       ('arg', n) ('upvar', name) ('call', callee, bi) ('const', repr) ('agg', name, bi) ('op', op, bi)"""
    roots = set()
    seen = set()

    def visit_local(l):
        if l in seen:
            return
        seen.add(l)
        ds = fn.defs().get(l, [])
        if 1 <= l <= fn.argc:
            roots.add(("arg", l))
        for bi, si, s in ds:
            if si == "term":
                c = callee(s)
                if through is not None and through.search(c) and s["args"]:
                    visit_operand(s["args"][0])
                else:
                    roots.add(("call", c, bi))
            else:
                rv = s["rv"]
                k = rv["k"]
                if k in ("use", "cast", "repeat"):
                    visit_operand(rv["o"])
                elif k in ("ref", "rawptr", "discr"):
                    visit_place(rv["p"])
                elif k == "agg":
                    if "adt" in rv:
                        nm = f"{rv['adt']}::{rv['variant']}"
                    elif "closure" in rv:
                        nm = f"closure {rv['closure']}"
                    else:
                        nm = "tuple" if "tuple" in rv else "array"
                    roots.add(("agg", nm, bi))
                    if into_aggs:
                        for o in rv["ops"]:
                            visit_operand(o)
                elif k in ("binop", "unop"):
                    roots.add(("op", rv["op"], bi))
                    visit_operand(rv["a"])
                    if "b" in rv:
                        visit_operand(rv["b"])
                else:
                    roots.add(("other", k, bi))

    def visit_place(p):
        if fn.kind == "Closure" and p["l"] == 1:
            fields = [e["f"] for e in p.get("p", []) if isinstance(e, dict) and "f" in e]
            if fields:
                roots.add(("upvar", fields[0]))
                return
        visit_local(p["l"])

    def visit_operand(o):
        if o is None:
            return
        if is_const(o):
            roots.add(("const", const_repr(o)))
        else:
            visit_place(op_place(o))

    if isinstance(x, int):
        visit_local(x)
    elif isinstance(x, dict) and ("cp" in x or "mv" in x or x.get("c") == 1):
        visit_operand(x)
    elif isinstance(x, dict) and "l" in x:
        visit_place(x)
    return roots


def prov_calls(roots):
    return {r[1] for r in roots if r[0] == "call"}


def upvar_index(fn, name_or_idx):
    """closure upvar field -> index (fields are printed as indices)."""
    try:
        return int(name_or_idx)
    except (TypeError, ValueError):
        return None


def guarded_by_variant(fn, bi, enum_suffix, variant, only=True):
    """Is block `bi` executed only when a value of enum `enum_suffix` is `variant`?
    Recognises `match`/`if let` (the variant's switch target dominates bi) and `matches!`
    (a bool set to true only under the variant's target, then switched on; true edge dominates bi).
    `only`: the variant target must be specific to that variant (no or-pattern with others)."""
    doms = fn.dominators().get(bi, ())
    for sb in doms:
        si = switch_info(fn, sb)
        if si and si["enum"].endswith(enum_suffix) and not si.get("unknown_adt"):
            tb = si["targets"].get(variant)
            if tb is None:
                continue
            shared = [v for v, b in si["targets"].items() if b == tb and v != variant]
            if only and (shared or tb == si["otherwise"]):
                continue
            if fn.dominates(tb, bi) and tb != sb:
                return True
    # matches! shape (possibly negated: `if !matches!(..) { .. }`)
    for sb in doms:
        t = fn.blocks[sb]["term"]
        if t["k"] != "switch" or t["ty"] != "bool":
            continue
        l = op_local(t["on"])
        if l is None or op_place(t["on"]).get("p"):
            continue
        fl = [b for v, b in t["targets"] if v == 0]
        if not fl or fl[0] == t["otherwise"]:
            continue
        # resolve the switched bool through copies and negations
        neg = False
        ds = fn.defs().get(l, [])
        hops = 0
        while len(ds) == 1 and ds[0][1] != "term" and hops < 8:
            rv = ds[0][2]["rv"]
            if rv["k"] == "use" and not is_const(rv["o"]) and not op_place(rv["o"]).get("p"):
                l = op_place(rv["o"])["l"]
            elif rv["k"] == "unop" and rv["op"] == "Not" and not is_const(rv["a"]) and not op_place(rv["a"]).get("p"):
                l = op_place(rv["a"])["l"]
                neg = not neg
            else:
                break
            ds = fn.defs().get(l, [])
            hops += 1
        guarded_edge = fl[0] if neg else t["otherwise"]
        if not (fn.dominates(guarded_edge, bi) and guarded_edge != sb):
            continue
        if not ds:
            continue
        ok = True
        saw_true = False
        for dbi, dsi, s in ds:
            if dsi == "term" or s["rv"]["k"] != "use" or not is_const(s["rv"]["o"]):
                ok = False
                break
            val = s["rv"]["o"].get("v")
            if val is True:
                saw_true = True
                if not guarded_by_variant(fn, dbi, enum_suffix, variant, only):
                    ok = False
                    break
            elif val is not False:
                ok = False
                break
        if ok and saw_true:
            return True
    return False


# ---------------------------------------------------------------------------
# forward uses

def _operands_of_rv(rv):
    k = rv["k"]
    if k in ("use", "cast", "repeat"):
        return [rv["o"]]
    if k in ("ref", "rawptr", "discr"):
        return [{"cp": rv["p"]}]
    if k == "binop":
        return [rv["a"], rv["b"]]
    if k == "unop":
        return [rv["a"]]
    if k == "agg":
        return list(rv["ops"])
    return []


def forward_uses(fn, local, _seen=None):
    """terminal consumers of the value in `local`, following copies / refs / casts:
       ('call', bi, term, argidx) | ('agg', bi, stmt, opidx) | ('binop', bi, stmt) | ('ret',) | ('field', bi, stmt)"""
    if _seen is None:
        _seen = set()
    if local in _seen:
        return []
    _seen.add(local)
    out = []
    if local == 0:
        out.append(("ret",))
    for bi, blk in enumerate(fn.blocks):
        for s in blk["st"]:
            if s["k"] != "assign":
                continue
            rv = s["rv"]
            ops = _operands_of_rv(rv)
            for oi, o in enumerate(ops):
                if is_const(o) or o is None:
                    continue
                p = op_place(o)
                if p is None or p["l"] != local:
                    continue
                k = rv["k"]
                if s["dst"].get("p"):
                    out.append(("field", bi, s))
                elif k in ("use", "cast", "ref", "rawptr", "repeat"):
                    out.extend(forward_uses(fn, s["dst"]["l"], _seen))
                elif k == "agg":
                    out.append(("agg", bi, s, oi))
                    out.extend(forward_uses(fn, s["dst"]["l"], _seen))
                elif k in ("binop", "unop"):
                    out.append(("binop", bi, s))
                elif k == "discr":
                    pass
        t = blk["term"]
        if t["k"] == "call":
            for ai, a in enumerate(t["args"]):
                if is_const(a):
                    continue
                p = op_place(a)
                if p and p["l"] == local:
                    out.append(("call", bi, t, ai))
        elif t["k"] == "switch":
            pass
    return out
