"""R-TYPAREN: Luau type parentheses are dropped only where the type grammar allows (C02)."""
from engine import Report
from facts import *
from paths import *

TI = "full_moon::ast::luau::TypeInfo"
# Luau type grammar facts: (inner kind, context flag) -> parentheses must be kept
REQUIRED_KEEP = [
    ("Callback", "within_optional"), ("Callback", "within_variadic"), ("Callback", "contains_intersect"),
    ("Callback", "contains_union"),
    ("Union", "within_optional"), ("Union", "within_variadic"), ("Union", "contains_intersect"),
    ("Intersection", "within_optional"), ("Intersection", "within_variadic"), ("Intersection", "contains_union"),
]
# which mark the operand of each composite type must be formatted under
ROLE_MARK = {"Union": "mark_contains_union", "Intersection": "mark_contains_intersect",
             "Optional": "mark_within_optional", "Variadic": "mark_within_variadic"}
MARK_FIELD = {"mark_contains_union": "contains_union", "mark_contains_intersect": "contains_intersect",
              "mark_within_optional": "within_optional", "mark_within_variadic": "within_variadic",
              "mark_within_generic": "within_generic", "mark_within_table_indexer": "within_table_indexer"}


def _result_under(v, flag_key):
    """the returned value on a path, given that the context flag `flag_key` is set: a constant, or the flag itself
    (`.. || context.flag` returns the field when the rest is false)"""
    if v and v[0] == "const":
        return v[1]
    if v and v[0] == "fieldbool" and v[1] == flag_key:
        return True
    return "?"


def rule_typaren(ctx, prop):
    import extract
    rep = Report(prop, "R-TYPAREN", "keep_parentheses(type, context) keeps the parentheses the Luau type grammar needs, the "
                                    "context marks mean what their names say, and each composite type formats its operands "
                                    "under its own mark on both the single-line and the hanging path")
    for cfg, prog in ctx.programs.items():
        if "luau" not in extract.FEATURES[cfg]:
            continue
        f = prog.fn("stylua_lib", "formatters::luau::keep_parentheses")
        if not rep.anchor(f is not None, "formatters::luau::keep_parentheses", cfg):
            continue
        kinds = prog.variants(TI, "stylua_lib")
        tables = {}
        for K in kinds:
            try:
                tables[K] = Enumerator(f, {"arg:1": K}).run()
            except TooManyPaths:
                rep.anchor(False, f"keep_parentheses[{K}]: too many paths", cfg)
        nrows = sum(len(v) for v in tables.values())
        rep.floor("rows of the keep_parentheses table", nrows, 40, cfg)
        for K, flag in REQUIRED_KEEP:
            if K not in tables:
                continue
            outs = set()
            for st in tables[K]:
                c = st.disc.get(f"arg:2.{flag}")
                if c == "false":
                    continue
                v = st.vals.get(0)
                # rows where the flag is true or not examined (covers true)
                outs.add(_result_under(v, f"arg:2.{flag}"))
            ok = outs == {True}
            rep.inst(f"{f.key} {K} under {flag} -> keep", {"kind": K, "flag": flag, "results": sorted(map(str, outs))}, cfg, ok=ok)
            if not ok:
                rep.violation(f"{f.key} drops-parens {K} under {flag}",
                              f"keep_parentheses can answer {sorted(map(str, outs))} for a {K} type when {flag} is set: "
                              f"`({K.lower()})` loses its parentheses where the Luau type grammar needs them", f.loc(), cfg)
        # within_generic keeps everything
        for K in kinds:
            outs = set()
            for st in tables.get(K, []):
                if st.disc.get("arg:2.within_generic") == "false":
                    continue
                v = st.vals.get(0)
                outs.add(_result_under(v, "arg:2.within_generic"))
            ok = outs == {True}
            rep.inst(f"{f.key} {K} within_generic -> keep", None, cfg, ok=ok)
            if not ok:
                rep.violation(f"{f.key} drops-parens {K} under within_generic",
                              f"a parenthesised type pack `T<({K})>` can lose its parentheses", f.loc(), cfg)
        # marks set the field of their name
        adt = prog.adt("formatters::luau::TypeInfoContext", "stylua_lib")
        fields = [x["name"] for x in adt["variants"][0]["fields"]] if adt else []
        for mk, fld in MARK_FIELD.items():
            g = prog.fn("stylua_lib", f"formatters::luau::TypeInfoContext::{mk}")
            if not rep.anchor(g is not None and fld in fields, f"TypeInfoContext::{mk}", cfg):
                continue
            ok = False
            for b, si_, s in g.stmts():
                if s["k"] == "assign" and s["rv"]["k"] == "agg" and s["rv"].get("adt", "").endswith("TypeInfoContext"):
                    ops = dict(zip(fields, s["rv"]["ops"]))
                    ok = is_const(ops[fld]) and ops[fld].get("v") is True and \
                        all(not is_const(o) for k2, o in ops.items() if k2 != fld)
            rep.inst(f"{g.key} sets {fld} only", None, cfg, ok=ok)
            if not ok:
                rep.violation(f"{g.key} mark-sets-wrong-field", f"{mk} does not set exactly `{fld} = true`", g.loc(), cfg)
        # private helpers that format operands under the context they are handed (`hang_type_info_operands(.., context, ..)`)
        forwarders = set()
        core = re.compile(r"formatters::luau::(format_type_info_internal|format_hangable_type_info_internal|hang_type_info)$")
        for hh in prog.fns("stylua_lib"):
            if hh.kind == "Closure" or not hh.path.startswith("formatters::luau::") or core.search(hh.path):
                continue
            cps = [i for i in range(1, hh.argc + 1) if "TypeInfoContext" in hh.locals[i]]
            if not cps:
                continue
            fam = [hh] + [x for x in prog.fns("stylua_lib") if x.path.startswith(hh.path + "::{closure")]
            for x in fam:
                for b_, t_ in x.calls():
                    if core.search(callee(t_)):
                        for a_ in t_["args"]:
                            if not is_const(a_) and "TypeInfoContext" in x.local_ty(op_place(a_)["l"]):
                                roots_ = provenance(x, a_, through=re.compile(PROV_THROUGH.pattern + r"|TypeInfoContext::mark_\w+$"))
                                if any(r_[0] == "arg" and r_[1] in cps for r_ in roots_) or any(r_[0] == "upvar" for r_ in roots_):
                                    forwarders.add(hh.path)
        # role -> mark on every layout path
        for fname in ("formatters::luau::format_type_info_internal", "formatters::luau::hang_type_info"):
            g = prog.fn("stylua_lib", fname)
            if not rep.anchor(g is not None, fname, cfg):
                continue
            pi = [i for i in range(1, g.argc + 1) if g.locals[i] == "&" + TI][0]
            members = [g] + [h for h in prog.fns("stylua_lib") if h.path.startswith(fname + "::{closure")]
            for K, mark in ROLE_MARK.items():
                arm = None
                for bi in range(len(g.blocks)):
                    si = switch_info(g, bi)
                    if si and si["enum"] == TI and access_path(g, si["place"]) == (("arg", pi), ()) and K in si["targets"]:
                        arm = si["targets"][K]
                if arm is None:
                    if fname.endswith("hang_type_info") and K in ("Optional", "Variadic"):
                        continue   # hang_type_info only hangs unions / intersections
                    rep.anchor(False, f"{fname}: {K} arm", cfg)
                    continue
                n = 0
                bad = []
                region = {b for b in g.reach_from(arm) if g.dominates(arm, b)}
                for h in members:
                    blocks = region if h is g else None
                    if h is not g:
                        # closure created inside the arm?
                        created = [b for b, si_, s in g.stmts() if s["k"] == "assign" and s["rv"]["k"] == "agg" and
                                   s["rv"].get("closure", "").startswith(h.path.split("::{closure")[0] + "::{closure") and
                                   s["rv"].get("closure") == (h.path if h.path.count("{closure") == 1 else
                                                              fname + "::" + h.path[len(fname) + 2:].split("::")[0])]
                        if not any(b in region for b in created):
                            continue
                    for b, t in h.calls():
                        if blocks is not None and b not in blocks:
                            continue
                        c = callee(t)
                        if not re.search(r"formatters::luau::(format_type_info_internal|format_hangable_type_info_internal|hang_type_info)$", c) \
                                and c not in forwarders:
                            continue
                        cargs = [a for a in t["args"] if not is_const(a) and "TypeInfoContext" in h.local_ty(op_place(a)["l"])]
                        if not cargs:
                            continue
                        n += 1
                        pr = provenance(h, cargs[0], through=re.compile(PROV_THROUGH.pattern + r"|TypeInfoContext::mark_\w+$"))
                        marks = set()
                        for r in provenance(h, cargs[0], through=None):
                            pass
                        # collect marks along the chain
                        seenm = set()
                        stack = [cargs[0]]
                        hops = 0
                        while stack and hops < 12:
                            o = stack.pop()
                            hops += 1
                            for r in provenance(h, o, through=None):
                                if r[0] == "call" and "TypeInfoContext::mark_" in r[1]:
                                    seenm.add(r[1].split("::")[-1])
                                    stack.append(h.blocks[r[2]]["term"]["args"][0])
                                elif r[0] == "upvar":
                                    # captured context: look at the creation site in g
                                    for bb, si_, s in g.stmts():
                                        if s["k"] == "assign" and s["rv"]["k"] == "agg" and "closure" in s["rv"] and bb in region:
                                            try:
                                                stack.append(s["rv"]["ops"][int(r[1])])
                                                h = g
                                            except (ValueError, IndexError):
                                                pass
                        if mark not in seenm:
                            bad.append((c.split("::")[-1], h.loc(t["sp"]), sorted(seenm)))
                rep.inst(f"stylua_lib::{fname} {K} operands formatted under {mark}", {"calls": n}, cfg, ok=not bad and n > 0)
                for cname, loc, seenm in bad:
                    rep.violation(f"stylua_lib::{fname} {K}-operand-without-{mark} via={cname}",
                                  f"in the {K} arm of {fname} an operand is formatted through {cname} with a context that "
                                  f"was not marked {mark} (marks: {seenm}): a nested type that needs its parentheses there "
                                  f"loses them", loc, cfg)
                if n == 0:
                    rep.anchor(False, f"{fname}: no operand formatting call found in the {K} arm", cfg)
        # parentheses that may be dropped: `(T)` is replaced by T only when keep_parentheses(T, context) says so - T itself must
        # then have been formatted under that same context, or a second pair inside (`((A | B))?`) is judged as if it stood alone
        g = prog.fn("stylua_lib", "formatters::luau::format_type_info_internal")
        if g is not None:
            fam = [g] + [x for x in prog.fns("stylua_lib") if x.path.startswith(g.path + "::{closure")]
            kp = [(b, t) for b, t in g.calls() if callee(t).endswith("luau::keep_parentheses")]
            if rep.anchor(bool(kp), "keep_parentheses call in format_type_info_internal (the Tuple arm)", cfg):
                ctx_params = [i for i in range(1, g.argc + 1) if "TypeInfoContext" in g.locals[i]]
                fresh = []
                nsites = 0
                for b, t in g.calls():
                    if not guarded_by_variant(g, b, "TypeInfo", "Tuple", only=False):
                        continue
                    c = callee(t)
                    if not re.search(r"general::format_punctuated$", c):
                        continue
                    nsites += 1
                    for a in t["args"]:
                        fnp = (a.get("rfn") or a.get("fn")) if is_const(a) else None
                        if fnp and re.search(r"luau::format_type_info$|luau::format_hangable_type_info$", fnp):
                            fresh.append((fnp.split("::")[-1], t))
                        elif not is_const(a):
                            for r in provenance(g, a, through=None, into_aggs=False):
                                if r[0] == "agg" and r[1].startswith("closure "):
                                    h = prog.fn("stylua_lib", r[1][len("closure "):])
                                    if h is None:
                                        continue
                                    for hb, ht in h.calls():
                                        hc = callee(ht)
                                        if re.search(r"luau::format_type_info$", hc):
                                            fresh.append((hc.split("::")[-1] + " in the closure", t))
                                        elif re.search(r"luau::format_type_info_internal$", hc):
                                            ca = [x for x in ht["args"] if not is_const(x) and "TypeInfoContext" in h.local_ty(op_place(x)["l"])]
                                            if ca and not any(r2[0] == "upvar" for r2 in provenance(h, ca[0], through=re.compile(
                                                    PROV_THROUGH.pattern + r"|TypeInfoContext::mark_\w+$"))):
                                                fresh.append(("a context that is not the enclosing one", t))
                rep.inst(f"{g.key} single-line tuple contents formatted under the enclosing context", {"format_punctuated_sites": nsites}, cfg, ok=not fresh)
                for what, t in fresh[:2]:
                    rep.violation(f"{g.key} tuple-contents-formatted-under-fresh-context via={what.split(' ')[0]}",
                                  f"in the Tuple arm of format_type_info_internal the types inside `( .. )` are formatted through {what} "
                                  f"(a fresh TypeInfoContext) on the single-line path, where the outer pair may be dropped: a nested "
                                  f"pair is then judged without within_optional / contains_union, so `((A | B))?` becomes `A | B?`",
                                  g.loc(t["sp"]), cfg)
    return rep
