"""R-SKIP: ignored and out-of-range nodes are returned, and left, untouched (C08, C09, C12)."""
from engine import Report
from facts import *
from paths import *

SFN = "context::Context::should_format_node"
TOGGLE = "context::Context::check_toggle_formatting"

HARMLESS = re.compile(
    r"(^context::Context::(should_format_node|check_toggle_formatting|config)$|::to_owned$|::clone$|"
    r"Vec::<T>::new$|std::vec::Vec::<T>::new$|::deref$|::deref_mut$|::eq$|::ne$|"
    r"^core::panicking|^std::rt::|^core::fmt::|^std::fmt::|::fmt$|new_debug$|new_display$|"
    r"^shape::Shape::|^<shape::Shape as|::into_iter$|::iter$|::next$|::peek$|::peekable$|::push$|"
    r"std::mem::drop$|::stmts_with_semicolon$|::last_stmt_with_semicolon$|Block::new$|::with_stmts$|"
    r"::with_last_stmt$|::as_ref$|::cloned$|::unwrap$|::expect$|::is_some$|::is_none$)")
BLOCK_PATH = re.compile(r"^formatters::stmt::stmt_block::|^formatters::block::format_last_stmt_block")
FORMATTER = re.compile(r"^formatters::|^context::create_|TokenReference::(symbol|new)$|Token::new$|"
                       r"as formatters::trivia::Update\w*Trivia>::")


def node_status(f, st, sfn_blocks):
    """status of the should_format_node result(s) on this path: 'Normal' | 'Skip' | 'NotInRange' | 'NotNormal' | None"""
    res = None
    for b in sfn_blocks:
        key = f"call:{b}"
        d = st.disc.get(key)
        if d is not None:
            if isinstance(d, str):
                return d
            ex = d[1]
            if {"Skip", "NotInRange"} <= set(ex):
                return "Normal"
            if "Normal" in ex:
                res = "NotNormal"
        # comparisons `x != FormatNode::Normal`
    for cb, dec in st.decisions.items():
        t = f.blocks[cb]["term"]
        c = callee(t)
        if (c.endswith("::ne") or c.endswith("::eq")) and "FormatNode" in (t.get("fn") or ""):
            # one side is the should_format_node result, the other the constant Normal
            consts = set()
            for a in t["args"]:
                for r in provenance(f, a, through=None):
                    if r[0] == "const":
                        consts.add(r[1])
                    if r[0] == "agg" and "FormatNode" in r[1]:
                        consts.add("variant:" + r[1].split("::")[-1])
            promoted_normal = any("Normal" in x for x in consts) or _promoted_is(f, t, "Normal")
            if promoted_normal:
                is_ne = c.endswith("::ne")
                normal = (not dec) if is_ne else dec
                return "Normal" if normal else "NotNormal"
    return res


def _promoted_is(f, t, variant):
    """does any argument of call `t` come from a promoted constant that is FormatNode::<variant>?"""
    for a in t["args"]:
        for r in provenance(f, a, through=None):
            if r[0] == "const" and r[1].startswith("pp:") and variant in r[1]:
                return True
    for pb in f.promoted:
        for blk in pb["blocks"]:
            for s in blk["st"]:
                if s["k"] == "assign" and s["rv"]["k"] == "agg" and s["rv"].get("variant") == variant and \
                        "FormatNode" in s["rv"].get("adt", ""):
                    return True
                if s["k"] == "assign" and s["rv"]["k"] == "use" and is_const(s["rv"]["o"]) and \
                        s["rv"]["o"].get("variant") == variant:
                    return True
    return False


def rule_skip_edge(ctx, prop, statuses=("Skip", "NotInRange")):
    rep = Report(prop, "R-SKIP(a)", "a node that is ignored / out of range is returned as a clone of the input with no "
                                    "formatter call in between (out-of-range statements only enter stmt_block)")
    for cfg, prog in ctx.programs.items():
        n = 0
        for f in prog.fns("stylua_lib"):
            if f.kind == "Closure":
                continue
            sites = [(b, t) for b, t in f.calls() if callee(t) == SFN]
            if not sites:
                continue
            # the node must be a parameter of f (entry formatter of a single node)
            node_params = set()
            for b, t in sites:
                ap = access_path(f, t["args"][1])
                if ap[0][0] == "arg" and not ap[1]:
                    node_params.add(ap[0][1])
            if len(node_params) != 1:
                continue
            pi = list(node_params)[0]
            n += 1
            sb = [b for b, t in sites]

            def prune(st, bi, f=f, sb=sb):
                return node_status(f, st, sb) == "Normal"
            try:
                res = Enumerator(f, prune=prune, max_paths=20000).run()
            except TooManyPaths:
                rep.anchor(False, f"{f.path}: too many paths", cfg)
                continue
            seen = set()
            for st in res:
                status = node_status(f, st, sb)
                if status is None or status == "Normal":
                    # path that never asked, or Normal reached a return before pruning
                    continue
                if status not in statuses and not (status == "NotNormal"):
                    continue
                bad = []
                for bi, c, t in st.calls:
                    if HARMLESS.search(c):
                        continue
                    # a path that only knows "not Normal" covers the Skip case too: for the ignore property it
                    # must be as clean as the Skip edge; the out-of-range path may enter stmt_block
                    if BLOCK_PATH.search(c) and (status == "NotInRange" or (status == "NotNormal" and "Skip" not in statuses)):
                        continue
                    bad.append(c)
                # returned value: the node itself
                v = st.vals.get(0)
                same = False
                if v and v[0] == "callres":
                    t = f.blocks[v[1]]["term"]
                    if t["args"]:
                        ap = access_path(f, t["args"][0] if not BLOCK_PATH.search(callee(t)) else t["args"][1])
                        same = ap == (("arg", pi), ())
                elif v and v[0] == "tuple":
                    for e in v[1]:
                        if e and e[0] == "callres":
                            t = f.blocks[e[1]]["term"]
                            if t["args"] and access_path(f, t["args"][0]) == (("arg", pi), ()):
                                same = True
                key = (status, tuple(sorted(set(bad))), same)
                if key in seen:
                    continue
                seen.add(key)
                ok = not bad and same
                rep.inst(f"{f.key} {status}-edge-returns-node-untouched", {"fn": f.key, "status": status}, cfg, ok=ok)
                if bad:
                    rep.violation(f"{f.key} {status}-edge-calls {','.join(sorted(set(x.split('::')[-1] for x in bad)))}",
                                  f"{f.path}: on the {status} edge of should_format_node the node still goes through "
                                  f"{sorted(set(bad))}: an ignored / out-of-range node is modified", f.loc(), cfg)
                elif not same:
                    rep.violation(f"{f.key} {status}-edge-does-not-return-node",
                                  f"{f.path}: on the {status} edge the function does not return (a clone of) its node",
                                  f.loc(), cfg)
        rep.floor("single-node formatters consulting should_format_node", n, 4, cfg)
    return rep


def rule_block_path(ctx, prop):
    rep = Report(prop, "R-SKIP(b)", "the out-of-range path (stmt_block, format_last_stmt_block) only recurses into nested "
                                    "blocks and rebuilds nodes from their original tokens")
    allowed = re.compile(r"^formatters::block::format_block$|^formatters::stmt::stmt_block::|"
                         r"^formatters::block::format_last_stmt_block|^shape::Shape::|^<shape::Shape as")
    for cfg, prog in ctx.programs.items():
        n = 0
        for f in prog.fns("stylua_lib"):
            if not BLOCK_PATH.search(f.path):
                continue
            n += 1
            bad = []
            for b, t in f.calls():
                c = callee(t)
                if (c.startswith("formatters::") or c.startswith("context::create_") or
                        re.search(r"as formatters::trivia::Update\w*Trivia>::", c) or
                        re.search(r"TokenReference::(symbol|new)$|Token::new$", c)) and not allowed.search(c):
                    bad.append((c, f.loc(t["sp"])))
                elif re.search(r"^full_moon::(ast|tokenizer)::.*::(new|symbol)$|^<full_moon::.* as std::default::Default>::default$", c) \
                        and not re.search(r"punctuated::(Punctuated|Pair)(::<T>)?::new$|ast::Block::new$", c):
                    # a node constructor creates fresh default tokens: the original tokens (and their trivia) are lost
                    bad.append((c, f.loc(t["sp"])))
            for b, o in [(b, o) for g, b, o in fn_refs(prog, r"^formatters::", "stylua_lib") if g is f]:
                c = o.get("rfn") or o["fn"]
                if not allowed.search(c):
                    bad.append((c, f.loc()))
            rep.inst(f"{f.key} only-recurses-into-blocks", {"fn": f.key}, cfg, ok=not bad)
            for c, loc in bad:
                rep.violation(f"{f.key} out-of-range-path-calls {c.split('::')[-1]}",
                              f"{f.path} (out-of-range path) calls {c}: statements outside the range would be "
                              f"re-formatted", loc, cfg)
        rep.floor("functions on the out-of-range path", n, 15, cfg)
        # who may call format_block with a non-block entry? (nothing to check) ; who calls stmt_block from outside:
        callers = {g.path for g, b, t in call_sites(prog, BLOCK_PATH, "stylua_lib") if not BLOCK_PATH.search(g.path)}
        ok = callers <= {"formatters::stmt::format_stmt", "formatters::block::format_last_stmt"}
        rep.inst("stylua_lib stmt_block entry points", {"callers": sorted(callers)}, cfg, ok=ok)
        if not ok:
            rep.violation("stylua_lib::formatters::stmt::stmt_block unexpected-entry",
                          f"the out-of-range path is entered from {sorted(callers)}", None, cfg)
    return rep


POST = re.compile(r"^formatters::(block::(stmt_remove_leading_newlines|last_stmt_remove_leading_newlines)|"
                  r"trivia_util::get_stmt_trailing_trivia|general::format_symbol)$|"
                  r"TokenReference::symbol$|as formatters::trivia::Update\w*Trivia>::|^context::create_|"
                  r"as formatters::trivia_util::Get\w+Trivia>::")
BLOCK_ALLOW = re.compile(r"^formatters::stmt::format_stmt$|^formatters::block::format_last_stmt$|"
                         r"^formatters::block::check_stmt_requires_semicolon$")


def rule_post(ctx, prop):
    rep = Report(prop, "R-SKIP(c)", "format_block's post-processing of a statement (leading newlines, trailing trivia, "
                                    "semicolon) happens only when should_format_node says Normal")
    for cfg, prog in ctx.programs.items():
        f = prog.fn("stylua_lib", "formatters::block::format_block")
        if not rep.anchor(f is not None, "format_block", cfg):
            continue
        n = 0
        members = [f] + [g for g in prog.fns("stylua_lib") if g.path.startswith(f.path + "::{closure")]
        closure_guard = {}
        for b, si_, s in f.stmts():
            if s["k"] == "assign" and s["rv"]["k"] == "agg" and "closure" in s["rv"]:
                closure_guard[s["rv"]["closure"]] = guarded_by_variant(f, b, "FormatNode", "Normal")
        # should_format_node calls that ask about an input node (no formatter call in the argument's provenance)
        raw_sfn = []
        for b, t in f.calls():
            if callee(t) == SFN:
                pc = prov_calls(provenance(f, t["args"][1]))
                if not any(re.search(r"^formatters::(stmt::format_stmt|block::format_last_stmt|.*::format_\w+)$", x) for x in pc):
                    raw_sfn.append(b)
        asked_formatted = False
        for g in members:
            for b, t in g.calls():
                c = callee(t)
                if not POST.search(c) or BLOCK_ALLOW.search(c):
                    continue
                n += 1
                if g is f:
                    ok = guarded_by_variant(f, b, "FormatNode", "Normal")
                    if ok and not any(f.dominates(rb, b) for rb in raw_sfn):
                        # the only answers available here are about *formatted* nodes, whose tokens carry no positions:
                        # the range test cannot mean anything for them
                        ok = False
                        asked_formatted = True
                else:
                    # closure: guarded where it is created (outermost enclosing closure)
                    outer = g.path
                    while outer not in closure_guard and "::{closure" in outer:
                        outer = outer.rsplit("::{closure", 1)[0]
                        if outer == f.path:
                            break
                    top = g.path[len(f.path):].split("::")[1]
                    ok = closure_guard.get(f"{f.path}::{top}", False)
                    if not ok:
                        # the guard may sit inside the closure itself (`opt.map(|(stmt, semi)| { if should_format_node(stmt) .. })`)
                        ok = bool(guarded_by_variant(g, b, "FormatNode", "Normal")) and \
                            any(callee(tt) == SFN and g.dominates(bb, b) and
                                not any(re.search(r"^formatters::(stmt::format_stmt|block::format_last_stmt|.*::format_\w+)$", x)
                                        for x in prov_calls(provenance(g, tt["args"][1])))
                                for bb, tt in g.calls())
                rep.inst(f"{g.key} post-processing {c.split('::')[-1]} guarded-by-Normal",
                         {"fn": g.key, "callee": c, "at": g.loc(t["sp"])}, cfg, ok=ok)
                if not ok:
                    rep.violation(f"{g.key} unguarded-post-processing {c.split('::')[-1]}",
                                  f"{g.path} applies {c} to a statement without being dominated by "
                                  f"`should_format_node(<input statement>) == Normal`"
                                  f"{' (the only guard asks about the already formatted statement, whose tokens have no positions: with a range start every in-range statement is classified NotInRange)' if asked_formatted else ''}"
                                  f": ignored / out-of-range statements lose their semicolon, spacing or comments, or in-range "
                                  f"statements keep theirs", g.loc(t["sp"]), cfg)
        rep.floor("post-processing calls in format_block", n, 8, cfg)
    return rep


def _in_cycle(fn, b):
    return b in fn.reach_from(b, avoid=()) and any(b in fn.reach_from(s) for s in fn.succ[b])


def rule_node_type(ctx, prop):
    """the ignore / range questions are asked about statements, last statements and table fields (and the EOF token) - the
    nodes whose *leading comments* carry the directives - never about a token or a part of a statement"""
    rep = Report(prop, "R-SKIP(e)", "check_toggle_formatting / should_format_node are instantiated for Stmt, LastStmt, Field "
                                    "(or a tuple that starts with one), and for the EOF token only in format_eof")
    for cfg, prog in ctx.programs.items():
        n = 0
        for f in prog.fns("stylua_lib"):
            for b, t in f.calls():
                if callee(t) not in (SFN, TOGGLE):
                    continue
                n += 1
                ty = (t.get("rfn") or t.get("fn") or "").split("::<", 1)[-1]
                ty = ty[:-1] if ty.endswith(">") else ty
                first = ty.lstrip("(& ").split(",")[0].strip()
                ok = first in ("full_moon::ast::Stmt", "full_moon::ast::LastStmt", "full_moon::ast::Field", "T", "&T") or \
                    (first == "full_moon::tokenizer::TokenReference" and f.path == "formatters::general::format_eof") or \
                    first.startswith("impl ")
                rep.inst(f"{f.key} {callee(t).split('::')[-1]}::<{ty}>", None, cfg, ok=ok)
                if not ok:
                    rep.violation(f"{f.key} directive-question-about {ty}",
                                  f"{f.path} asks {callee(t).split('::')[-1]} about a `{ty}`: ignore directives live in the "
                                  f"leading comments of a statement / field, so for this node the answer is always `no directive` "
                                  f"and `-- stylua: ignore start/end` around it is not honoured", f.loc(t["sp"]), cfg)
        rep.floor("directive questions", n, 10, cfg)
    return rep


def rule_toggle(ctx, prop):
    rep = Report(prop, "R-SKIP(d)", "wherever should_format_node (or a per-element formatter) is applied along a sequence "
                                    "of statements / fields, the Context was produced by check_toggle_formatting")
    seq_callees = re.compile(r"^(context::Context::should_format_node|formatters::stmt::format_stmt|"
                             r"formatters::block::format_last_stmt|formatters::table::format_field)$")
    for cfg, prog in ctx.programs.items():
        n = 0
        for f in prog.fns("stylua_lib"):
            for b, t in f.calls():
                c = callee(t)
                if not seq_callees.search(c):
                    continue
                in_loop = any(b in f.reach_from(s) for s in f.succ[b])
                recv = t["args"][0]
                pr = provenance(f, recv)
                toggled = TOGGLE in prov_calls(pr)
                if f.kind == "Closure":
                    ups = [r[1] for r in pr if r[0] == "upvar"]
                    if not ups:
                        continue
                    parent = prog.fn("stylua_lib", f.path.rsplit("::{closure", 1)[0])
                    if parent is None:
                        continue
                    # the closure is driven by an iterator adaptor => sequence context
                    ptog = False
                    for pb, psi, ps in parent.stmts():
                        if ps["k"] == "assign" and ps["rv"]["k"] == "agg" and ps["rv"].get("closure") == f.path:
                            for u in ups:
                                try:
                                    o = ps["rv"]["ops"][int(u)]
                                except (ValueError, IndexError):
                                    continue
                                if TOGGLE in prov_calls(provenance(parent, o)):
                                    ptog = True
                    # is the parent a per-node formatter (ctx is its own parameter) or a sequence walker?
                    if not any(callee(tt) == TOGGLE for _, tt in parent.calls()) and \
                            not parent.path.startswith("sort_requires::"):
                        continue
                    n += 1
                    rep.inst(f"{f.key} {c.split('::')[-1]} uses-toggled-context", {"fn": f.key}, cfg, ok=ptog)
                    if not ptog:
                        rep.violation(f"{f.key} untoggled-context {c.split('::')[-1]}",
                                      f"{f.path} asks {c} with a Context that never went through "
                                      f"check_toggle_formatting: `-- stylua: ignore start/end` regions are not "
                                      f"honoured here", f.loc(t["sp"]), cfg)
                    continue
                if not in_loop and not any(callee(tt) == TOGGLE for _, tt in f.calls()) and \
                        not f.path.startswith("sort_requires::"):
                    continue  # per-node formatter using its own ctx parameter
                if c == SFN:
                    # only element-level questions matter (argument derives from the iterated sequence, not a param)
                    ap = access_path(f, t["args"][1])
                    if ap[0][0] == "arg" and not ap[1]:
                        continue
                n += 1
                if toggled:
                    # ... toggled with *this* element, before it is asked about
                    import r_replace
                    wants = {r_replace._base_key(f, t["args"][1])}
                    # a mutable local holding the formatted element (`let mut stmt = format_stmt(&ctx, stmt, ..)`)
                    for w in list(wants):
                        if w.startswith("local:") and "." not in w:
                            for dbi, dsi, ds in f.defs().get(int(w.split(":")[1]), []):
                                if dsi == "term" and len(ds["args"]) > 1:
                                    wants.add(r_replace._base_key(f, ds["args"][1]))
                    same = False
                    for b2, t2 in f.calls():
                        if callee(t2) == TOGGLE and r_replace._base_key(f, t2["args"][1]) in wants and \
                                (f.dominates(b2, b) or b2 == b):
                            same = True
                    toggled = same
                rep.inst(f"{f.key} {c.split('::')[-1]} uses-toggled-context", {"fn": f.key, "at": f.loc(t["sp"])},
                         cfg, ok=toggled)
                if not toggled:
                    rep.violation(f"{f.key} untoggled-context {c.split('::')[-1]}",
                                  f"{f.path} calls {c} along a sequence with a Context that was not produced by "
                                  f"check_toggle_formatting: `-- stylua: ignore start/end` regions are not honoured",
                                  f.loc(t["sp"]), cfg)
        rep.floor("sequence sites using a Context", n, 5, cfg)
    return rep


def rule_eof(ctx, prop):
    rep = Report(prop, "R-EOF", "format_eof returns its token unchanged unless the node is Normal")
    for cfg, prog in ctx.programs.items():
        f = prog.fn("stylua_lib", "formatters::general::format_eof")
        if not rep.anchor(f is not None, "format_eof", cfg):
            continue
        sb = [b for b, t in f.calls() if callee(t) == SFN]
        if not rep.anchor(len(sb) == 1, "should_format_node call in format_eof", cfg):
            continue
        try:
            res = Enumerator(f, max_paths=5000).run()
        except TooManyPaths:
            rep.anchor(False, "format_eof: too many paths", cfg)
            continue
        okc = 0
        for st in res:
            status = node_status(f, st, sb)
            if status in (None,):
                rep.anchor(False, "format_eof: a path whose node status is undetermined", cfg)
                continue
            if status == "Normal":
                continue
            bad = [c for _, c, _ in st.calls if not HARMLESS.search(c)]
            okc += 1
            rep.inst(f"{f.key} not-Normal-returns-token", None, cfg, ok=not bad)
            if bad:
                rep.violation(f"{f.key} eof-touched-when-not-Normal",
                              f"format_eof still calls {sorted(set(bad))} when the EOF token is ignored / out of range",
                              f.loc(), cfg)
        rep.floor("non-Normal paths of format_eof", okc, 1, cfg)
    return rep


def rule_sort_guard(ctx, prop, must_block=("Skip", "NotInRange")):
    rep = Report(prop, "R-SORTGUARD", "a require group is only sorted when every member is FormatNode::Normal (not ignored, "
                                      "not outside the range)")
    for cfg, prog in ctx.programs.items():
        f = prog.fn("stylua_lib", "sort_requires::sort_requires")
        if not rep.anchor(f is not None, "sort_requires::sort_requires", cfg):
            continue
        sortb = [b for b, t in f.calls() if re.search(r"::(sort|sort_by|sort_by_key|sort_by_cached_key|sort_unstable\w*)$", callee(t))]
        sfnb = [b for b, t in f.calls() if callee(t) == SFN]
        if not rep.anchor(len(sortb) >= 1 and len(sfnb) >= 1, "sort call and should_format_node call in sort_requires", cfg):
            continue
        try:
            res = Enumerator(f, max_paths=100000, max_visits=1).run()
        except TooManyPaths:
            rep.anchor(False, "sort_requires: too many paths", cfg)
            continue
        n = 0
        unchecked = 0
        bad = set()
        for st in res:
            if not any(b in sortb for b, _, _ in st.calls):
                continue
            n += 1
            keys = {f"call:{b}" for b in sfnb}
            statuses = [c for k, c in st.hist if k in keys]
            if not statuses:
                unchecked += 1   # the zero-iteration path of the member loop (an empty group: nothing to move)
                continue
            for c in statuses:
                admitted = {"Skip", "NotInRange", "Normal"}
                if isinstance(c, str):
                    admitted = {c}
                else:
                    admitted -= set(c[1])
                for v in must_block:
                    if v in admitted:
                        bad.add(v)
        if n and unchecked == n:
            bad.add("unchecked")
        ok = not bad and n > 0
        rep.inst(f"{f.key} sort-only-if-all-members-Normal", {"paths_reaching_sort": n}, cfg, ok=ok)
        for v in sorted(bad):
            rep.violation(f"{f.key} sorts-group-with-{v}-member",
                          f"sort_requires can reach the sort of a require group although a member's should_format_node "
                          f"status is {v}: " + ("an ignored statement is moved" if v == "Skip" else
                                                "statements outside the formatting range are reordered" if v == "NotInRange"
                                                else "the members were never asked"), f.loc(), cfg)
        rep.floor("paths reaching the require sort", n, 1, cfg)
        # "every member": the statements shown to should_format_node are the items of an iterator over the whole group
        WHOLE = re.compile(r"IntoIterator>::into_iter$|<impl \[T\]>::iter$|Vec::<.*>::iter$|::iter$|Iterator>?::(map|by_ref|enumerate|copied|cloned|inspect)$|"
                           r"Deref>::deref$|iter::Iterator::(map|by_ref|enumerate|copied|cloned|inspect)$")
        for b in sfnb:
            t = f.blocks[b]["term"]
            if len(t["args"]) < 2:
                continue
            from paths import access_path
            try:
                root, steps = access_path(f, t["args"][1])
            except Exception:
                root, steps = (None,), ()
            if root[0] != "call" or not re.search(r"Iterator>?::next$", callee(f.blocks[root[1]]["term"])):
                rep.note(f"@{cfg}: should_format_node argument is not a loop item (member-walk clause not evaluated)")
                continue
            cur = f.blocks[root[1]]["term"]["args"][0]
            chain, okw, why = [], True, ""
            for _ in range(12):
                rs = [r for r in provenance(f, cur, through=None, into_aggs=False)]
                calls = [r for r in rs if r[0] == "call"]
                if len(calls) != 1 or len(rs) != 1:
                    if any(r[0] == "agg" for r in rs):
                        okw, why = False, "a hand-built collection"
                    break
                t2 = f.blocks[calls[0][2]]["term"]
                c2 = callee(t2)
                chain.append(c2.split("::")[-1])
                if re.search(r"Iterator>?::next$", c2):
                    break       # the group itself: the item of the loop over the partitions
                if not WHOLE.search(c2) or not t2["args"]:
                    okw, why = False, c2.split("::<")[0].split("::")[-1]
                    break
                cur = t2["args"][0]
            rep.inst(f"{f.key} the member walk iterates the whole group", {"adaptors": chain}, cfg, ok=okw)
            if not okw:
                rep.violation(f"{f.key} member-walk-over-part-of-the-group via={why}",
                              f"the loop that asks should_format_node about the members of a require group iterates {why} "
                              f"(adaptor chain {chain}) instead of every statement of the group: a member that is not visited can "
                              f"be ignored (`--[[ stylua: ignore ]] local a = ..` on its own line inside the group) or out of "
                              f"range and is sorted - moved, and separated from its directive - all the same", f.loc(t["sp"]), cfg)
    return rep


SHORT_CIRCUIT = re.compile(r"Iterator>?::(any|all|find|find_map|position|rposition|take_while|skip_while|map_while|try_fold|try_for_each)$")


def rule_toggle_walk_total(ctx, prop):
    """R-SKIP(walk): the ignore start / end state must see *every* member of a sequence. A closure that calls
    check_toggle_formatting is never handed to a short-circuiting iterator method (any / all / find / take_while ...): such a
    walk stops at the first hit and the toggles carried by the remaining members are never seen."""
    rep = Report(prop, "R-SKIP(walk)", "no closure that threads check_toggle_formatting is driven by a short-circuiting iterator "
                                       "method (the toggle walk visits every member of the sequence)")
    for cfg, prog in ctx.programs.items():
        n = 0
        for g in prog.fns("stylua_lib"):
            if g.kind != "Closure" or not any(callee(t) == TOGGLE for _b, t in g.calls()):
                continue
            parent = prog.fn("stylua_lib", g.parent) if g.parent else None
            if parent is None:
                parent = prog.fn("stylua_lib", g.path.rsplit("::{closure", 1)[0])
            if parent is None:
                continue
            n += 1
            bad = None
            for b, t in parent.calls():
                c = callee(t).split("::<")[0]
                if not SHORT_CIRCUIT.search(c):
                    continue
                for a in t.get("args", [])[1:]:
                    roots = provenance(parent, a)
                    if any(r[0] == "agg" and r[1] == f"closure {g.path}" for r in roots):
                        bad = (c.split("::")[-1], t)
            rep.inst(f"{g.key} toggle closure not short-circuited", {"parent": parent.key}, cfg, ok=bad is None)
            if bad:
                rep.violation(f"{g.key} toggle-walk-short-circuits {bad[0]}",
                              f"{g.path} threads check_toggle_formatting but is driven by Iterator::{bad[0]} in {parent.path}: the walk stops "
                              f"at the first hit, an `-- stylua: ignore start` carried by a later member is never seen and the statements "
                              f"after it are treated as formattable (e.g. sorted by sort_requires inside an ignored region)",
                              parent.loc(bad[1]["sp"]), cfg)
        rep.note(f"closures threading check_toggle_formatting: {n} @{cfg}")
    return rep


def rule_toggle_chain(ctx, prop):
    """the ignore start / end state is one thread through a sequence: every later check_toggle_formatting of a function
    starts from the state the earlier ones left"""
    rep = Report(prop, "R-SKIP(f)", "in a function that walks a sequence (statements then the last statement, table fields), every "
                                    "check_toggle_formatting call after the first is applied to the Context the earlier calls "
                                    "produced - never to the function's own, untoggled parameter")
    for cfg, prog in ctx.programs.items():
        n = 0
        for f in prog.fns("stylua_lib"):
            if f.kind == "Closure":
                continue
            sites = [(b, t) for b, t in f.calls() if callee(t) == TOGGLE]
            if len(sites) < 2:
                continue
            dom = f.dominators()
            for b, t in sites:
                earlier = [b2 for b2, t2 in sites if b2 != b and (b2 in dom.get(b, ()) or b in f.reach_from(b2))]
                # calls that can run before this one
                before = [b2 for b2 in earlier if b in f.reach_from(b2) and not (b2 in f.reach_from(b) and b not in dom.get(b2, ()) and False)]
                if not before:
                    continue
                n += 1
                pr = provenance(f, t["args"][0])
                threaded = any(r[0] == "call" and r[1] == TOGGLE for r in pr)
                rep.inst(f"{f.key} check_toggle_formatting continues the running state", {"at": f.loc(t["sp"])}, cfg, ok=threaded)
                if not threaded:
                    rep.violation(f"{f.key} toggle-state-restarted",
                                  f"{f.path} applies check_toggle_formatting to a Context that does not come from the earlier "
                                  f"check_toggle_formatting calls of the same walk (its own parameter): an `-- stylua: ignore start` "
                                  f"region still open at that point is forgotten, and the element is reformatted", f.loc(t["sp"]), cfg)
        # a single call inside a loop body or inside the closure of an iterator adaptor: the state must be carried from one
        # element to the next (a loop-carried local, or a captured Context that is written back)
        for f in prog.fns("stylua_lib"):
            sites = [(b, t) for b, t in f.calls() if callee(t) == TOGGLE]
            if not sites:
                continue
            for b, t in sites:
                in_loop = any(b in f.reach_from(s_) for s_ in f.succ[b])
                if f.kind != "Closure" and not in_loop:
                    continue
                if f.kind != "Closure" and len(sites) >= 2:
                    continue        # judged above
                n += 1
                pr = provenance(f, t["args"][0])
                if f.kind == "Closure":
                    ups = {r[1] for r in pr if r[0] == "upvar"}
                    d = t["dst"]["l"]
                    carried = False
                    holders = {d}
                    for _ in range(4):
                        for b2, si_, s2 in f.stmts():
                            if s2["k"] == "assign" and s2["rv"]["k"] == "use" and not is_const(s2["rv"]["o"]) and \
                                    op_place(s2["rv"]["o"])["l"] in holders and not op_place(s2["rv"]["o"]).get("p"):
                                dl = s2["dst"]["l"]
                                via_upvar = dl == 1 or any(si3 != "term" and s3["rv"]["k"] == "use" and not is_const(s3["rv"]["o"])
                                                           and op_place(s3["rv"]["o"])["l"] == 1
                                                           for b3, si3, s3 in f.defs().get(dl, []))
                                if s2["dst"].get("p") and via_upvar:
                                    carried = True
                                elif not s2["dst"].get("p"):
                                    holders.add(s2["dst"]["l"])
                    threaded = carried or any(r[0] == "call" and r[1] == TOGGLE for r in pr)
                    # a closure that is not driven over a sequence (called once) has nothing to carry
                    if not ups and not carried:
                        continue
                    par = prog.fn("stylua_lib", f.path.rsplit("::{closure", 1)[0])
                    driven = None
                    if par is not None:
                        for pb, pt in par.calls():
                            for a in pt["args"][1:]:
                                if not is_const(a) and any(r2[0] == "agg" and r2[1] == "closure " + f.path
                                                           for r2 in provenance(par, a, through=None, into_aggs=False)):
                                    driven = callee(pt)
                    if driven is not None and re.search(r"(Option|Result)::<.*>::|(Option|Result)::<T", driven):
                        continue      # `opt.map(|x| ..)`: at most one element
                else:
                    threaded = any(r[0] == "call" and r[1] == TOGGLE for r in pr)
                rep.inst(f"{f.key} check_toggle_formatting carries its state to the next element", {"at": f.loc(t["sp"])}, cfg, ok=threaded)
                if not threaded:
                    rep.violation(f"{f.key} toggle-state-not-carried",
                                  f"{f.path} calls check_toggle_formatting for each element of a sequence but starts every time from "
                                  f"the same outer Context (the result is not kept for the next element): only the element that "
                                  f"carries `-- stylua: ignore start` itself is skipped, the rest of the ignored region is formatted",
                                  f.loc(t["sp"]), cfg)
        rep.floor("later check_toggle_formatting calls", n, 1, cfg)
    return rep


def rule_field_walkers(ctx, prop):
    """every walk over the fields of a table constructor that formats something inside a field first asks whether the
    field is ignored (in the ordinary formatter this happens in format_multiline_table / format_field)"""
    rep = Report(prop, "R-SKIP(g)", "a function that iterates TableConstructor::fields() and hands parts of a field to a formatter "
                                    "tracks `ignore start` / `ignore end` over the fields and asks should_format_node about each")
    for cfg, prog in ctx.programs.items():
        n = 0
        for f in prog.fns("stylua_lib"):
            if f.kind == "Closure" or f.impl_trait:
                continue
            fam = [f] + [g for g in prog.fns("stylua_lib") if g.path.startswith(f.path + "::{closure")]
            cs = {callee(t) for g in fam for b, t in g.calls()}
            if not any(c.endswith("TableConstructor::fields") for c in cs):
                continue
            per_field = sorted(c for c in cs if re.search(r"^formatters::.*::(format_[a-z_]+|hang_[a-z_]+)$", c)
                               and not re.search(r"::format_(multiline|singleline)_table$|::format_contained_span$|::format_token_reference$|"
                                                 r"::format_symbol$|::format_end_token$", c))
            if not per_field:
                continue
            n += 1
            ok = any(c == SFN for c in cs) and any(c == TOGGLE for c in cs)
            rep.inst(f"{f.key} asks about ignored fields before formatting inside them", {"formats_through": [c.split("::")[-1] for c in per_field]},
                     cfg, ok=ok)
            if not ok:
                rep.violation(f"{f.key} field-walk-ignores-directives",
                              f"{f.path} walks the fields of a table constructor and formats inside them ({[c.split('::')[-1] for c in per_field]}) "
                              f"without check_toggle_formatting / should_format_node on the field: code inside a field marked "
                              f"`-- stylua: ignore` is reformatted (e.g. by range formatting with the range inside the field)", f.loc(), cfg)
        rep.floor("table-field walkers that format inside fields", n, 1, cfg)
    return rep


def rule_sort_emit(ctx, prop):
    """the sort pass is a second walk over the block's statements: its `ignore start` / `ignore end` state is right only if
    every statement it hands on was first shown to check_toggle_formatting, in order"""
    rep = Report(prop, "R-SORT(toggle)", "in sort_requires every site that adds statements of a partition to the rebuilt block is "
                                         "dominated by the head of a loop over that partition's statements that calls "
                                         "check_toggle_formatting: no partition is emitted without its directives being seen")
    for cfg, prog in ctx.programs.items():
        f = prog.fn("stylua_lib", "sort_requires::sort_requires")
        if not rep.anchor(f is not None, "sort_requires::sort_requires", cfg):
            continue
        ws = [(b, t) for b, t in f.calls() if callee(t).endswith("Block::with_stmts")]
        if not rep.anchor(len(ws) == 1 and len(ws[0][1]["args"]) > 1, "one Block::with_stmts call", cfg):
            continue
        out = {r for r in provenance(f, ws[0][1]["args"][1], into_aggs=False)}
        out_calls = {r[2] for r in out if r[0] == "call"}
        # outer loop: the `next` over the partitions
        heads = [b for b, t in f.calls() if re.search(r"Iterator>::next$|iter::Iterator::next$", callee(t)) and _in_cycle(f, b)]
        toggles = [b for b, t in f.calls() if callee(t) == TOGGLE]
        for b, t in f.calls():
            g = prog.fn("stylua_lib", callee(t))
            if g is not None and g is not f and any(callee(t2) == TOGGLE and _in_cycle(g, b2) for b2, t2 in g.calls()):
                toggles.append(b)
        if not rep.anchor(bool(toggles), "check_toggle_formatting calls in sort_requires", cfg):
            continue
        dom = f.dominators()
        outer = [h for h in heads if all(h in dom.get(tb, ()) for tb in toggles)]
        outer = [h for h in outer if not any(o != h and h in dom.get(o, ()) and o in outer for o in outer)] or outer
        # innermost common head = the partition loop
        if not rep.anchor(bool(outer), "loop over the partitions (a `next` dominating every toggle call)", cfg):
            continue
        part_head = max(outer, key=lambda h: len(dom.get(h, ())))
        inner = set()
        for tb in toggles:
            for h in heads:
                if h != part_head and h in dom.get(tb, ()) and tb in f.reach_from(h) and h in f.reach_from(tb, avoid={part_head}):
                    inner.add(h)
        # a helper that walks the statements it is given (`group_contains_ignored(&mut ctx, list.iter())`) is the same walk
        for b, t in f.calls():
            if part_head not in dom.get(b, ()) or b == part_head:
                continue
            g = prog.fn("stylua_lib", callee(t))
            if g is not None and g is not f and any(callee(t2) == TOGGLE and _in_cycle(g, b2) for b2, t2 in g.calls()):
                inner.add(b)
        emits = []
        for b, t in f.calls():
            c = callee(t)
            if not re.search(r"Vec::<.*>::(push|append|extend_from_slice|insert)$|Extend<.*>>::extend$|Vec<.*>::(push|append)$", c) or not t["args"]:
                continue
            pr = provenance(f, t["args"][0], into_aggs=False)
            if not ({r[2] for r in pr if r[0] == "call"} & out_calls or (pr & out)):
                continue
            if part_head not in dom.get(b, ()):
                continue
            emits.append((b, t))
        n = 0
        for b, t in emits:
            n += 1
            ok = any(h in dom.get(b, ()) for h in inner)
            rep.inst(f"{f.key} emit site #{n} ({callee(t).split('::')[-1]}) follows a toggle walk over the partition", {"at": f.loc(t["sp"])}, cfg, ok=ok)
            if not ok:
                rep.violation(f"{f.key} partition-emitted-without-toggle-walk via={callee(t).split('::')[-1]}",
                              f"sort_requires adds the statements of a partition to the rebuilt block on a path that never entered a "
                              f"loop calling check_toggle_formatting on them: an `-- stylua: ignore start` / `ignore end` comment on "
                              f"such a statement is not seen by the sort pass, so later require groups inside the region are "
                              f"reordered (or groups after the region stay unsorted)", f.loc(t["sp"]), cfg)
        rep.floor("statement emit sites in sort_requires", n, 2, cfg)
        # one state for the whole block: what any check_toggle_formatting call of the walk produces reaches the argument of every
        # other one (through the loop-carried Context) - a walk over a private copy forgets its toggles when it ends
        tsites = [(b, t) for b, t in f.calls() if callee(t) == TOGGLE and part_head in dom.get(b, ())]
        tblocks = {b for b, _ in tsites}
        def _ref_targets(r, depth=0):
            """locals a reference held in r may point to (through copies of the reference)"""
            out = set()
            if depth > 6:
                return out
            for bi_, si_, s_ in f.defs().get(r, []):
                if si_ == "term":
                    continue
                rv_ = s_["rv"]
                if rv_["k"] in ("ref", "rawptr"):
                    if rv_["p"].get("p") in (None, []):
                        out.add(rv_["p"]["l"])
                    elif rv_["p"].get("p") == ["*"]:
                        out |= _ref_targets(rv_["p"]["l"], depth + 1)      # reborrow
                elif rv_["k"] in ("use", "cast") and not is_const(rv_["o"]) and not op_place(rv_["o"]).get("p"):
                    out |= _ref_targets(op_place(rv_["o"])["l"], depth + 1)
            return out

        def _fed(start):
            """toggle calls whose Context argument can hold the value produced at `start` (copies, and stores through `&mut ctx`)"""
            reached, seen_, work_ = set(), set(), [start]
            while work_:
                l_ = work_.pop()
                if l_ in seen_:
                    continue
                seen_.add(l_)
                for u in forward_uses(f, l_):
                    if u[0] == "call" and callee(u[2]) == TOGGLE and u[3] == 0:
                        reached.add(u[1])
                    elif u[0] == "field" and u[2]["dst"].get("p") == ["*"]:
                        work_.extend(_ref_targets(u[2]["dst"]["l"]))
                # a call result written through a reference: `(*r) = check_toggle_formatting(..)`
            return reached
        feeds = {}
        for b, t in tsites:
            d = t.get("dst")
            if d is None:
                feeds[b] = set()
            elif d.get("p") == ["*"]:
                acc = set()
                for x in _ref_targets(d["l"]):
                    acc |= _fed(x)
                feeds[b] = acc
            else:
                feeds[b] = _fed(d["l"])
        for b, t in tsites:
            got = {a for a in tblocks if b in feeds.get(a, ())}
            got |= {r[2] for r in provenance(f, t["args"][0]) if r[0] == "call" and r[1] == TOGGLE}
            missing = tblocks - got
            okm = not missing
            rep.inst(f"{f.key} toggle call #{sorted(tblocks).index(b)} starts from the state of every toggle call of the walk",
                     {"fed_by": len(got), "toggle_calls": len(tblocks)}, cfg, ok=okm)
            if not okm:
                rep.violation(f"{f.key} toggle-state-forked fed-by={len(got)}-of-{len(tblocks)}",
                              f"sort_requires has {len(tblocks)} check_toggle_formatting calls in its walk over the partitions, but the "
                              f"Context given to one of them is fed by only {len(got)} of them: some statements are shown to a private "
                              f"copy of the state, so an `-- stylua: ignore start` / `ignore end` seen there is forgotten for the "
                              f"following groups (statements inside an ignored region are reordered)", f.loc(t["sp"]), cfg)
    return rep


def rule_descend(ctx, prop):
    """an out-of-range statement is not skipped: it is handed to the formatter that dispatches to the range-only visitor, which
    walks into its nested blocks looking for statements inside the range"""
    rep = Report(prop, "R-SKIP(h)", "where a function asks should_format_node about a statement it iterates over (not its own parameter), "
                                    "every path on which the answer is not Normal and the function returns hands that statement to a "
                                    "formatter that dispatches out-of-range nodes to the range-only visitor (format_stmt / "
                                    "format_last_stmt / stmt_block::*)")
    fam = re.compile(r"^formatters::stmt::stmt_block::[a-z_]+$|^formatters::block::format_last_stmt_block$")
    for cfg, prog in ctx.programs.items():
        desc = set()
        for g in prog.fns("stylua_lib"):
            if g.kind == "Closure":
                continue
            cs = {callee(t) for b, t in g.calls()}
            if fam.search(g.path) or (SFN in cs and any(fam.search(c) for c in cs)):
                desc.add(g.path)
        if not rep.anchor(len(desc) >= 3, f"formatters that dispatch out-of-range nodes to the range-only visitor ({len(desc)})", cfg):
            continue
        n = 0
        for f in prog.fns("stylua_lib"):
            if f.kind == "Closure" or not f.path.startswith("formatters::") or f.path in desc:
                continue
            sites = []
            for b, t in f.calls():
                if callee(t) != SFN or len(t["args"]) < 2 or is_const(t["args"][1]):
                    continue
                ty = f.local_ty(op_place(t["args"][1])["l"])
                if not re.search(r"full_moon::ast::(Stmt|LastStmt)\b", ty):
                    continue
                ap = access_path(f, t["args"][1])
                if ap[0][0] == "arg" and not ap[1]:
                    continue
                if any(r[0] == "call" and r[1] in desc for r in provenance(f, t["args"][1], into_aggs=False)):
                    continue        # asked again about what a dispatching formatter returned
                sites.append((b, t))
            for b, t in sites:
                sb = [b]
                try:
                    res = Enumerator(f, prune=lambda st, bi, f=f, sb=sb: node_status(f, st, sb) == "Normal", max_paths=200000).run()
                except TooManyPaths:
                    rep.anchor(False, f"{f.path}: too many paths", cfg)
                    continue
                roots = {r[:2] if r[0] != "call" else r for r in provenance(f, t["args"][1], into_aggs=False)}
                npaths = 0
                bad = None
                for st in res:
                    if node_status(f, st, sb) not in ("NotNormal", "NotInRange"):
                        continue
                    npaths += 1
                    handed = False
                    for bi, c, t2 in st.calls:
                        if c in desc:
                            for a in t2["args"]:
                                if not is_const(a) and ({r[:2] if r[0] != "call" else r for r in provenance(f, a, into_aggs=False)} & roots):
                                    handed = True
                    if not handed and bad is None:
                        bad = st
                n += 1
                rep.inst(f"{f.key} out-of-range statement (site #{n}) is handed to a dispatching formatter", {"paths": npaths}, cfg, ok=bad is None)
                if bad is not None:
                    calls = sorted({c.split("::")[-1] for _, c, _ in bad.calls if "format_" in c})
                    rep.violation(f"{f.key} out-of-range-statement-not-visited",
                                  f"{f.path} has a path on which should_format_node answered something other than Normal for a statement "
                                  f"and the function returns without handing that statement to format_stmt / format_last_stmt / the "
                                  f"range-only visitor (formatter calls on the path: {calls}): blocks nested in an out-of-range "
                                  f"statement (`return function() .. end`, `return {{ f = function() .. end }}`) are never searched, so "
                                  f"statements inside the range stay unformatted", f.loc(t["sp"]), cfg)
        rep.floor("should_format_node sites over iterated statements", n, 1, cfg)
    return rep
