"""A-TABLE: path enumeration over a function's MIR with discriminant constraints and constant
propagation (no solver, no execution: a finite enumeration of acyclic CFG paths where every
branch is decided by an enum discriminant, a propagated constant, or an opaque bool that is
forked both ways)."""
from facts import *

BOX_FIELDS = {"0", "pointer"}
PURE_GETTERS = re.compile(r"^context::Context::config$")
PURE_PREDICATES = re.compile(r"^context::Context::should_(omit_string_parens|omit_table_parens|collapse_simple_functions|collapse_simple_conditionals)$|^shape::Shape::using_simple_heuristics$")


class TooManyPaths(Exception):
    pass


_SUMMARY_CACHE = {}
_SUMMARY_BUSY = set()


def bool_summary(fn):
    """decision table of a small local predicate: [(constraints on 'arg:i...' keys, bool)] or None when the function is
    not a pure function of its arguments' discriminants (used to see through extracted helpers)"""
    key = (id(fn.prog), fn.key)
    if key in _SUMMARY_CACHE:
        return _SUMMARY_CACHE[key]
    if key in _SUMMARY_BUSY or fn.locals[0] != "bool" or len(fn.blocks) > 60:
        return None
    _SUMMARY_BUSY.add(key)
    rows = None
    try:
        res = Enumerator(fn, max_paths=400, summaries=False).run()
        rows = []
        for st in res:
            v = st.vals.get(0)
            if not (v and v[0] == "const" and isinstance(v[1], bool)):
                rows = None
                break
            if any(not k.startswith("arg:") for k in st.disc) or st.decisions:
                rows = None
                break
            rows.append((dict(st.disc), v[1]))
    except TooManyPaths:
        rows = None
    finally:
        _SUMMARY_BUSY.discard(key)
    _SUMMARY_CACHE[key] = rows
    return rows


def access_path(fn, x, _seen=None, _depth=0):
    """access path with projections of tuples / closure environments built in place resolved even when the projection
    is applied further along a chain of copies and references (`(&(a, b)).0` through temporaries)"""
    root, steps = _access_path(fn, x, _seen, _depth)
    for _ in range(8):
        if not (root[0] == "local" and steps and steps[0][0] == "f" and str(steps[0][1]).isdigit()):
            break
        ds = fn.defs().get(root[1], [])
        if len(ds) != 1 or ds[0][1] == "term":
            break
        rv = ds[0][2]["rv"]
        if not (rv["k"] == "agg" and ("tuple" in rv or "closure" in rv) and int(steps[0][1]) < len(rv["ops"])):
            break
        o = rv["ops"][int(steps[0][1])]
        if is_const(o):
            return ("const", const_repr(o)), tuple(steps[1:])
        r2, s2 = _access_path(fn, o, None, _depth + 1)
        root, steps = r2, tuple(s2) + tuple(steps[1:])
    return root, steps


def _access_path(fn, x, _seen=None, _depth=0):
    """Canonical access path of an operand / place / local: (root, steps) where root is
    ('arg', n) | ('call', bi) | ('local', l) | ('const', repr) | ('upvar', i) and steps is a
    tuple of ('v', Variant) / ('f', field) / ('i',) with derefs and Box internals dropped.
    Follows single whole-local definitions (use / ref / cast / pass-through calls)."""
    if _seen is None:
        _seen = set()
    if isinstance(x, int):
        place = {"l": x}
    elif "l" in x and ("cp" not in x and "mv" not in x and x.get("c") != 1):
        place = x
    elif x.get("c") == 1:
        return ("const", const_repr(x)), ()
    else:
        place = op_place(x)
    steps = []
    for e in place.get("p", []):
        if isinstance(e, dict):
            if "f" in e:
                steps.append(("f", e["f"]))
            elif "v" in e:
                steps.append(("v", e["v"]))
            else:
                steps.append(("i",))
    l = place["l"]
    # strip Box internals: `.0.pointer` on a Box-typed local
    ty = fn.local_ty(l)
    if ty.startswith("std::boxed::Box<") or ty.startswith("&std::boxed::Box<"):
        while steps and steps[0][0] == "f" and steps[0][1] in BOX_FIELDS:
            steps = steps[1:]
    if fn.kind == "Closure" and l == 1 and steps and steps[0][0] == "f":
        return ("upvar", steps[0][1]), tuple(steps[1:])
    if l in _seen or _depth > 40:
        return ("local", l), tuple(steps)
    _seen.add(l)
    ds = fn.defs().get(l, [])
    if 1 <= l <= fn.argc and not ds:
        return ("arg", l), tuple(steps)
    if len(ds) != 1:
        if 1 <= l <= fn.argc:
            return ("arg", l), tuple(steps)
        return ("local", l), tuple(steps)
    bi, si, s = ds[0]
    if si == "term":
        c = callee(s)
        if PASS_THROUGH.search(c) and s["args"]:
            r, st = _access_path(fn, s["args"][0], _seen, _depth + 1)
            return r, st + tuple(steps)
        if PURE_GETTERS.search(c) and s["args"]:
            # a pure getter of an immutable receiver: all calls denote the same value
            r, st = _access_path(fn, s["args"][0], _seen, _depth + 1)
            return ("pure", c.split("::")[-1], path_key((r, st))), tuple(steps)
        return ("call", bi), tuple(steps)
    rv = s["rv"]
    k = rv["k"]
    if k in ("use", "cast"):
        o = rv["o"]
        if is_const(o):
            return ("const", const_repr(o)), tuple(steps)
        r, st = _access_path(fn, o, _seen, _depth + 1)
        # Box internals exposed through a transmute of `box.0.pointer`
        st = list(st)
        while len(st) >= 1 and st[-1] in (("f", "pointer"), ("f", "0")) and k == "cast":
            st.pop()
        return r, tuple(st) + tuple(steps)
    if k in ("ref", "rawptr"):
        r, st = _access_path(fn, rv["p"], _seen, _depth + 1)
        return r, st + tuple(steps)
    if k == "agg" and ("tuple" in rv or "closure" in rv) and steps and steps[0][0] == "f" and str(steps[0][1]).isdigit() and \
            int(steps[0][1]) < len(rv["ops"]):
        # a field of a tuple built in place: (a, b).0 is a
        o = rv["ops"][int(steps[0][1])]
        if is_const(o):
            return ("const", const_repr(o)), tuple(steps[1:])
        r, st = _access_path(fn, o, _seen, _depth + 1)
        return r, st + tuple(steps[1:])
    return ("local", l), tuple(steps)


def path_key(ap):
    root, steps = ap
    s = ":".join(str(x) for x in root)
    for st in steps:
        s += "." + (st[1] if len(st) > 1 else "[]")
    return s


class State:
    __slots__ = ("disc", "vals", "calls", "visits", "trail", "decisions", "hist")

    def __init__(self):
        self.disc = {}       # path_key -> variant name | ('not', frozenset)
        self.vals = {}       # local -> abstract value
        self.calls = []      # (bi, callee, term)
        self.visits = {}
        self.trail = []
        self.decisions = {}  # call block -> bool
        self.hist = []       # every discriminant constraint taken along the path, in order: (key, constraint)

    def clone(self):
        s = State()
        s.disc = dict(self.disc)
        s.vals = dict(self.vals)
        s.calls = list(self.calls)
        s.visits = dict(self.visits)
        s.trail = list(self.trail)
        s.decisions = dict(self.decisions)
        s.hist = list(self.hist)
        return s


def strip_generic(t):
    return t.strip()


class Enumerator:
    """Enumerate acyclic paths of `fn` from block 0 to a return.
    init_disc: {path_key: variant} initial discriminant constraints (e.g. 'arg:2' -> 'Parentheses').
    bool_oracle(fn, bi, term, state) -> True/False/None: decide an opaque bool call result
      (None = fork both ways).
    stop_at(state, bi) optional: prune."""

    def __init__(self, fn, init_disc=None, bool_oracle=None, max_paths=60000, max_visits=1, on_call=None, prune=None,
                 summaries=True, track_cmp=False):
        self.fn = fn
        self.track_cmp = track_cmp
        self.init_disc = init_disc or {}
        self.bool_oracle = bool_oracle
        self.max_paths = max_paths
        self.max_visits = max_visits
        self.on_call = on_call
        self.prune = prune
        self.summaries = summaries
        self.npaths = 0

    def _closure_const_bool(self, st, bi, operand):
        """value of `|..| captured_flag` at this point of the path, or None"""
        if is_const(operand):
            return None
        cl = op_place(operand)["l"]
        agg = None
        for s in reversed(self.fn.blocks[bi]["st"]):
            if s["k"] == "assign" and s["dst"]["l"] == cl and not s["dst"].get("p") and s["rv"]["k"] == "agg" and \
                    "closure" in s["rv"]:
                agg = s["rv"]
                break
        if agg is None:
            return None
        g = self.fn.prog.fn(self.fn.crate, agg["closure"])
        if g is None or strip_generic(g.locals[0]) != "bool":
            return None
        blocks = [b for b in g.blocks if not b["cleanup"]]
        if len(blocks) != 1 or blocks[0]["term"]["k"] != "return":
            return None
        refs = {}
        idx = None
        negated = False
        sts = list(blocks[0]["st"])
        # `|_| !flag`: the last statement negates a copy of the captured flag
        if sts and sts[-1]["k"] == "assign" and sts[-1]["dst"]["l"] == 0 and sts[-1]["rv"]["k"] == "unop" and \
                sts[-1]["rv"]["op"] == "Not" and not is_const(sts[-1]["rv"]["a"]) and not op_place(sts[-1]["rv"]["a"]).get("p"):
            tmp = op_place(sts[-1]["rv"]["a"])["l"]
            sts = sts[:-1]
            # rewrite `tmp = X` as `_0 = X`
            sts = [dict(x, dst={"l": 0}) if (x["k"] == "assign" and x["dst"]["l"] == tmp and not x["dst"].get("p")) else x for x in sts]
            negated = True
        for s in sts:
            if s["k"] != "assign" or s["rv"]["k"] != "use" or is_const(s["rv"]["o"]):
                return None
            pl = op_place(s["rv"]["o"])
            pr = pl.get("p", [])
            if pl["l"] == 1 and len(pr) == 1 and isinstance(pr[0], dict) and "f" in pr[0]:
                refs[s["dst"]["l"]] = pr[0]["f"]                      # _3 = _1.k
            elif s["dst"]["l"] == 0 and pr == ["*"] and pl["l"] in refs:
                idx = refs[pl["l"]]                                   # _0 = *_3
            elif s["dst"]["l"] == 0 and pl["l"] == 1 and len(pr) == 2 and pr[1] == "*" and isinstance(pr[0], dict):
                idx = pr[0].get("f")                                  # _0 = *(_1.k)
            else:
                return None
        try:
            k = int(idx)
        except (TypeError, ValueError):
            return None
        if k >= len(agg["ops"]):
            return None
        v = self.val_of(st, agg["ops"][k])
        if v is None and not is_const(agg["ops"][k]):
            # the capture is `&flag`: look through the reference taken in this block
            rl = op_place(agg["ops"][k])["l"]
            for s in reversed(self.fn.blocks[bi]["st"]):
                if s["k"] == "assign" and s["dst"]["l"] == rl and not s["dst"].get("p") and s["rv"]["k"] == "ref" and \
                        not s["rv"]["p"].get("p"):
                    v = st.vals.get(s["rv"]["p"]["l"])
                    break
        if v and v[0] == "const" and isinstance(v[1], bool):
            return (not v[1]) if negated else v[1]
        if v and v[0] in ("callres", "notcallres"):
            neg2 = negated != (v[0] == "notcallres")
            dec = st.decisions.get(v[1])
            if dec is not None:
                return (not dec) if neg2 else dec
            return ("undecided", v[1], neg2)
        return None

    # ---- abstract values -------------------------------------------------
    def val_of(self, st, o):
        if is_const(o):
            if "variant" in o:
                return ("variant", o["ty"], o["variant"])
            if "v" in o:
                return ("const", o["v"])
            return ("constx", const_repr(o))
        p = op_place(o)
        if p.get("p"):
            pr = p["p"]
            if len(pr) == 1 and isinstance(pr[0], dict) and "f" in pr[0]:
                base = st.vals.get(p["l"])
                if base and base[0] == "tuple":
                    try:
                        return base[1][int(pr[0]["f"])]
                    except (ValueError, IndexError):
                        return None
            return None
        return st.vals.get(p["l"])

    def key_of(self, place):
        return path_key(access_path(self.fn, place))

    def run(self):
        st = State()
        st.disc.update(self.init_disc)
        out = []
        self._walk(0, st, out)
        return out

    def _walk(self, bi, st, out):
        fn = self.fn
        while True:
            c = st.visits.get(bi, 0)
            if c > self.max_visits:
                return  # loop: abandon (paths through another iteration add no new discriminant facts)
            st.visits[bi] = c + 1
            st.trail.append(bi)
            if self.prune is not None and self.prune(st, bi):
                return
            blk = fn.blocks[bi]
            for s in blk["st"]:
                if s["k"] != "assign":
                    continue
                d = s["dst"]
                if d.get("p"):
                    continue
                l = d["l"]
                rv = s["rv"]
                k = rv["k"]
                v = None
                pref = f"local:{l}"
                if st.disc:
                    for dk in [dk for dk in st.disc if dk == pref or dk.startswith(pref + ".")]:
                        del st.disc[dk]
                if k == "use":
                    v = self.val_of(st, rv["o"])
                    if v is None and not is_const(rv["o"]) and fn.local_ty(l) == "bool":
                        pl = op_place(rv["o"])
                        if any(isinstance(e, dict) and "f" in e for e in pl.get("p", [])):
                            key = self.key_of(pl)
                            cur = st.disc.get(key)
                            if cur in ("true", "false"):
                                v = ("const", cur == "true")
                            else:
                                v = ("fieldbool", key)
                elif k == "ref" and all(e == "*" for e in rv["p"].get("p", [])):
                    # references are transparent for the abstract value (`&*x`, `&x`)
                    v = st.vals.get(rv["p"]["l"])
                    if v is not None and v[0] not in ("param", "variant", "agg", "tuple", "constx"):
                        v = None
                elif k == "agg" and "adt" in rv and not rv["ops"]:
                    v = ("variant", rv["adt"], rv["variant"])
                elif k == "agg" and "adt" in rv:
                    v = ("agg", rv["adt"], rv["variant"], bi)
                elif k == "agg" and "tuple" in rv:
                    v = ("tuple", tuple(self.val_of(st, o) for o in rv["ops"]))
                elif k == "unop" and rv["op"] == "Not":
                    a = self.val_of(st, rv["a"])
                    if a and a[0] == "const" and isinstance(a[1], bool):
                        v = ("const", not a[1])
                    elif a and a[0] == "callres":
                        v = ("notcallres", a[1])
                    elif a and a[0] == "notcallres":
                        v = ("callres", a[1])
                    elif a and a[0] == "eqtest":
                        v = ("noteqtest",) + a[1:]
                    elif a and a[0] == "noteqtest":
                        v = ("eqtest",) + a[1:]
                elif k == "discr":
                    key = self.key_of(rv["p"])
                    # value known from a propagated variant?
                    pv = None
                    if not rv["p"].get("p"):
                        pv = st.vals.get(rv["p"]["l"])
                    if pv and pv[0] in ("variant", "agg"):
                        v = ("discr", rv["enum"], pv[2])
                    elif key in st.disc and isinstance(st.disc[key], str):
                        v = ("discr", rv["enum"], st.disc[key])
                    else:
                        v = ("discr-of", key, rv["enum"])
                elif k == "binop" and rv["op"] in ("Eq", "Ne"):
                    a = self.val_of(st, rv["a"])
                    b = self.val_of(st, rv["b"])
                    if a and b and a[0] == "const" and b[0] == "const":
                        v = ("const", (a[1] == b[1]) if rv["op"] == "Eq" else (a[1] != b[1]))
                elif k == "binop" and rv["op"] in ("BitOr", "BitAnd", "BitXor"):
                    # `any_ignored |= cond`: booleans known on this path fold (true | x = true, false & x = false)
                    a = self.val_of(st, rv["a"])
                    b = self.val_of(st, rv["b"])
                    ab = a[1] if a and a[0] == "const" and isinstance(a[1], bool) else None
                    bb_ = b[1] if b and b[0] == "const" and isinstance(b[1], bool) else None
                    if rv["op"] == "BitOr":
                        if ab is True or bb_ is True:
                            v = ("const", True)
                        elif ab is False and bb_ is False:
                            v = ("const", False)
                    elif rv["op"] == "BitAnd":
                        if ab is False or bb_ is False:
                            v = ("const", False)
                        elif ab is True and bb_ is True:
                            v = ("const", True)
                    elif ab is not None and bb_ is not None:
                        v = ("const", ab != bb_)
                elif k == "unop" and rv["op"] == "Not":
                    a = self.val_of(st, rv["a"])
                    if a and a[0] == "const" and isinstance(a[1], bool):
                        v = ("const", not a[1])
                if v is None and k == "binop" and rv["op"] in ("Lt", "Le", "Gt", "Ge", "Eq", "Ne") and self.track_cmp:
                    # an order comparison of two runtime values: keep which one, so a branch on it can be recorded
                    v = ("cmp", rv["op"], rv["a"], rv["b"], False)
                if v is None and k == "unop" and rv["op"] == "Not" and self.track_cmp:
                    a = self.val_of(st, rv["a"])
                    if a and a[0] == "cmp":
                        v = a[:4] + (not a[4],)
                if v is None:
                    st.vals.pop(l, None)
                else:
                    st.vals[l] = v
            t = blk["term"]
            k = t["k"]
            if k == "return":
                self.npaths += 1
                if self.npaths > self.max_paths:
                    raise TooManyPaths(f"{fn.key}: more than {self.max_paths} paths")
                out.append(st)
                return
            if k == "goto":
                bi = t["t"]
                continue
            if k in ("drop", "assert"):
                bi = t["t"]
                continue
            if k == "call":
                # the call produces a fresh value: constraints recorded for an earlier execution (loops) are stale
                pref = f"call:{bi}"
                for dk in [dk for dk in st.disc if dk == pref or dk.startswith(pref + ".")]:
                    del st.disc[dk]
                st.decisions.pop(bi, None)
                st.calls.append((bi, callee(t), t))
                if self.on_call:
                    self.on_call(st, bi, t)
                if t.get("t") is None:
                    return  # diverges
                # `?` on a Result / Option and `map_err` / `map` keep which side the value is on
                cn = callee(t)
                if t["args"] and not is_const(t["args"][0]) and \
                        re.search(r"Try>::branch$|Result::<.*>::map_err$|Result::<T, E>::map_err$|Result::<.*>::map$|Option::<.*>::map$", cn):
                    av = self.val_of(st, t["args"][0])
                    side = None
                    if av and av[0] in ("agg", "variant") and av[2] in ("Ok", "Err", "Some", "None"):
                        side = av[2]
                    elif av and av[0] == "callres" and isinstance(st.disc.get(f"call:{av[1]}"), str):
                        side = st.disc.get(f"call:{av[1]}")
                    else:
                        try:
                            side = st.disc.get(self.key_of(op_place(t["args"][0])))
                        except Exception:
                            side = None
                    if isinstance(side, str) and side in ("Ok", "Err", "Some", "None"):
                        if cn.endswith("Try>::branch"):
                            side = {"Ok": "Continue", "Some": "Continue", "Err": "Break", "None": "Break"}[side]
                        st.disc[f"call:{bi}"] = side
                        st.hist.append((f"call:{bi}", side))
                if re.search(r"Option::<.*>::filter$", cn) and len(t["args"]) == 2:
                    # `opt.filter(|_| flag)`: a closure that only returns a captured boolean known on this path
                    cbv = self._closure_const_bool(st, bi, t["args"][1])
                    if isinstance(cbv, tuple) and cbv[0] == "undecided" and t.get("t") is not None and not t["dst"].get("p"):
                        # the flag is the still undecided result of an earlier call (`let is_root = a == b;`): decide it here,
                        # one continuation per outcome
                        _, cbk, cneg = cbv
                        s2 = st.clone()
                        s2.decisions[cbk] = True
                        s2.hist.append((f"dec:{cbk}", True))
                        st.decisions[cbk] = False
                        st.hist.append((f"dec:{cbk}", False))
                        for sx, outcome in ((s2, True), (st, False)):
                            flag = (not outcome) if cneg else outcome
                            if not flag:
                                sx.disc[f"call:{bi}"] = "None"
                                sx.hist.append((f"call:{bi}", "None"))
                            sx.vals[t["dst"]["l"]] = ("callres", bi)
                        self._walk(t["t"], s2, out)
                        bi = t["t"]
                        continue
                    if isinstance(cbv, tuple):
                        cbv = None
                    av = self.val_of(st, t["args"][0]) if not is_const(t["args"][0]) else None
                    side_in = None
                    if av and av[0] in ("agg", "variant") and av[2] in ("Some", "None"):
                        side_in = av[2]
                    elif av and av[0] == "callres" and isinstance(st.disc.get(f"call:{av[1]}"), str):
                        side_in = st.disc.get(f"call:{av[1]}")
                    side = None
                    if side_in == "None" or cbv is False:
                        side = "None"
                    elif side_in == "Some" and cbv is True:
                        side = "Some"
                    if side:
                        st.disc[f"call:{bi}"] = side
                        st.hist.append((f"call:{bi}", side))
                if cn.endswith("FromResidual>::from_residual") or re.search(r"FromResidual<.*>>::from_residual$", cn):
                    # the value built from a residual is always on the failure side
                    rty = fn.local_ty(t["dst"]["l"]) if not t["dst"].get("p") else ""
                    side = "Err" if "result::Result" in rty else "None" if "option::Option" in rty else None
                    if side:
                        st.disc[f"call:{bi}"] = side
                        st.hist.append((f"call:{bi}", side))
                if not t["dst"].get("p"):
                    st.vals[t["dst"]["l"]] = ("callres", bi)
                    et = self._eq_test(st, t)
                    if et is not None:
                        st.vals[t["dst"]["l"]] = et
                    elif self.summaries and fn.local_ty(t["dst"]["l"]) == "bool":
                        sv = self._apply_summary(st, t)
                        if sv is not None:
                            st.vals[t["dst"]["l"]] = ("const", sv)
                bi = t["t"]
                continue
            if k == "switch":
                on = t["on"]
                v = self.val_of(st, on)
                targets = t["targets"]
                ow = t["otherwise"]
                if v is None and t["ty"] == "bool" and not is_const(on):
                    pl = op_place(on)
                    if any(isinstance(e, dict) and "f" in e for e in pl.get("p", [])):
                        # `if self.opt.flag { .. }`: a bool field switched on directly
                        key = self.key_of(pl)
                        cur = st.disc.get(key)
                        v = ("const", cur == "true") if cur in ("true", "false") else ("fieldbool", key)
                if v and v[0] == "const":
                    iv = int(v[1]) if isinstance(v[1], bool) else v[1]
                    nxt = ow
                    for val, bb in targets:
                        if val == iv:
                            nxt = bb
                    bi = nxt
                    continue
                if v and v[0] == "discr":
                    a = fn.prog.adt(v[1], fn.crate)
                    dv = None
                    if a:
                        for vv in a["variants"]:
                            if vv["name"] == v[2]:
                                dv = vv["discr"]
                    nxt = ow
                    for val, bb in targets:
                        if val == dv:
                            nxt = bb
                    bi = nxt
                    continue
                if v and v[0] == "discr-of":
                    key, enum = v[1], v[2]
                    a = fn.prog.adt(enum, fn.crate)
                    if a is None:
                        return
                    byd = {vv["discr"]: vv["name"] for vv in a["variants"]}
                    cur = st.disc.get(key)
                    excluded = cur[1] if isinstance(cur, tuple) else frozenset()
                    explicit = []
                    for val, bb in targets:
                        nm = byd.get(val)
                        if nm is None or nm in excluded:
                            continue
                        explicit.append((nm, bb))
                    rest = [vv["name"] for vv in a["variants"] if vv["name"] not in {n for n, _ in explicit}
                            and vv["name"] not in excluded]
                    branches = []
                    for nm, bb in explicit:
                        branches.append((nm, bb))
                    if rest:
                        if len(rest) == 1:
                            branches.append((rest[0], ow))
                        else:
                            branches.append((("not", frozenset(excluded | {n for n, _ in explicit})), ow))
                    for cons, bb in branches[:-1]:
                        s2 = st.clone()
                        s2.disc[key] = cons
                        s2.hist.append((key, cons))
                        self._walk(bb, s2, out)
                    if not branches:
                        return
                    cons, bb = branches[-1]
                    st.disc[key] = cons
                    st.hist.append((key, cons))
                    bi = bb
                    continue
                if v and v[0] == "cmp" and t["ty"] == "bool":
                    fl = ow
                    for val, bb in targets:
                        if val == 0:
                            fl = bb
                    # outcome of the comparison itself (undo a negation)
                    s2 = st.clone()
                    s2.hist.append(("cmp", (v[1], v[2], v[3], not v[4])))
                    self._walk(ow, s2, out)
                    st.hist.append(("cmp", (v[1], v[2], v[3], v[4])))
                    bi = fl
                    continue
                if v and v[0] == "fieldbool" and t["ty"] == "bool":
                    key = v[1]
                    fl = ow
                    for val, bb in targets:
                        if val == 0:
                            fl = bb
                    s2 = st.clone()
                    s2.disc[key] = "true"
                    s2.hist.append((key, "true"))
                    self._walk(ow, s2, out)
                    st.disc[key] = "false"
                    st.hist.append((key, "false"))
                    bi = fl
                    continue
                if v and v[0] in ("eqtest", "noteqtest") and t["ty"] == "bool":
                    _, key, enum, V = v
                    neg = v[0] == "noteqtest"
                    fl = ow
                    for val, bb in targets:
                        if val == 0:
                            fl = bb
                    tr = ow
                    cur = st.disc.get(key)
                    can_eq = cur is None or cur == V or (isinstance(cur, tuple) and V not in cur[1])
                    can_ne = not (isinstance(cur, str) and cur == V)
                    branches = []
                    if can_eq:
                        branches.append((V, fl if neg else tr))
                    if can_ne:
                        if isinstance(cur, str):
                            cons = cur
                        else:
                            ex = cur[1] if isinstance(cur, tuple) else frozenset()
                            cons = ("not", frozenset(ex | {V}))
                        branches.append((cons, tr if neg else fl))
                    for cons, bb in branches[:-1]:
                        s2 = st.clone()
                        s2.disc[key] = cons
                        self._walk(bb, s2, out)
                    if not branches:
                        return
                    cons, bb = branches[-1]
                    st.disc[key] = cons
                    bi = bb
                    continue
                if v and v[0] in ("callres", "notcallres") and t["ty"] == "bool":
                    cb = v[1]
                    neg = v[0] == "notcallres"
                    dec = st.decisions.get(cb)
                    if dec is None:
                        # pure predicates of an immutable receiver answer the same on every call
                        ct = fn.blocks[cb]["term"]
                        if PURE_PREDICATES.search(callee(ct)) and ct["args"]:
                            pk = (callee(ct), path_key(access_path(fn, ct["args"][0])))
                            for ob, od in st.decisions.items():
                                ot = fn.blocks[ob]["term"]
                                if ot["k"] == "call" and ot["args"] and \
                                        (callee(ot), path_key(access_path(fn, ot["args"][0]))) == pk:
                                    dec = od
                                    st.decisions[cb] = dec
                                    break
                    if dec is None and self.bool_oracle:
                        dec = self.bool_oracle(fn, cb, fn.blocks[cb]["term"], st)
                        if dec is not None:
                            st.decisions[cb] = dec
                    fl = ow
                    for val, bb in targets:
                        if val == 0:
                            fl = bb
                    tr = ow
                    if dec is None:
                        s2 = st.clone()
                        s2.decisions[cb] = True
                        s2.hist.append((f"dec:{cb}", True))
                        self._set_callres(s2, cb, True)
                        self._walk(fl if neg else tr, s2, out)
                        st.decisions[cb] = False
                        st.hist.append((f"dec:{cb}", False))
                        self._set_callres(st, cb, False)
                        bi = tr if neg else fl
                        continue
                    self._set_callres(st, cb, dec)
                    eff = (not dec) if neg else dec
                    bi = tr if eff else fl
                    continue
                if t["ty"] in ("char", "u32", "u8", "usize", "u64", "u16", "i32", "i64", "isize") and not is_const(on):
                    # a match on character / integer constants: keep which constant was taken
                    key = f"int:{self.key_of(op_place(on))}"
                    vals_ = [val for val, bb in targets]
                    for val, bb in targets:
                        s2 = st.clone()
                        s2.disc[key] = ("int", val)
                        s2.hist.append((key, ("int", val)))
                        self._walk(bb, s2, out)
                    prev = st.disc.get(key)
                    excl = frozenset(vals_) | (prev[1] if isinstance(prev, tuple) and prev[0] == "notint" else frozenset())
                    st.disc[key] = ("notint", excl)
                    st.hist.append((key, st.disc[key]))
                    bi = ow
                    continue
                # unknown scrutinee: fork over all successors
                succs = []
                for val, bb in targets:
                    if bb not in succs:
                        succs.append(bb)
                if ow not in succs:
                    succs.append(ow)
                # unreachable otherwise blocks are dropped
                succs = [b for b in succs if fn.blocks[b]["term"]["k"] != "unreachable"]
                for bb in succs[:-1]:
                    self._walk(bb, st.clone(), out)
                if not succs:
                    return
                bi = succs[-1]
                continue
            return  # unreachable / resume / other

    def _const_variant(self, st, o):
        """variant name if operand `o` denotes a constant enum value (constant, promoted, fieldless aggregate)."""
        fn = self.fn
        if is_const(o):
            if "variant" in o:
                return o["variant"]
            if "promoted" in o:
                return self._promoted_variant(o["promoted"])
            return None
        v = self.val_of(st, o)
        if v and v[0] == "variant":
            return v[2]
        p = op_place(o)
        if p is None:
            return None
        # follow single defs: `_9 = &(*_17); _17 = promoted[1]`
        seen = set()
        l = p["l"]
        while l not in seen:
            seen.add(l)
            vv = st.vals.get(l)
            if vv and vv[0] == "variant":
                return vv[2]
            ds = fn.defs().get(l, [])
            if len(ds) != 1 or ds[0][1] == "term":
                return None
            rv = ds[0][2]["rv"]
            if rv["k"] == "use":
                o2 = rv["o"]
                if is_const(o2):
                    if "variant" in o2:
                        return o2["variant"]
                    if "promoted" in o2:
                        return self._promoted_variant(o2["promoted"])
                    return None
                l = op_place(o2)["l"]
            elif rv["k"] == "ref":
                l = rv["p"]["l"]
            elif rv["k"] == "agg" and "adt" in rv and not rv["ops"]:
                return rv["variant"]
            else:
                return None
        return None

    def _promoted_variant(self, idx):
        try:
            pb = self.fn.promoted[idx]
        except IndexError:
            return None
        for blk in pb["blocks"]:
            for s in blk["st"]:
                if s["k"] == "assign" and s["rv"]["k"] == "agg" and "adt" in s["rv"] and not s["rv"]["ops"]:
                    return s["rv"]["variant"]
                if s["k"] == "assign" and s["rv"]["k"] == "use" and is_const(s["rv"]["o"]) and "variant" in s["rv"]["o"]:
                    return s["rv"]["o"]["variant"]
        return None

    def _eq_test(self, st, t):
        m = None
        for c in (callee(t), t.get("fn") or "", t.get("rfn") or ""):
            m = re.search(r"^<(.+) as std::cmp::PartialEq>::(eq|ne)$", c)
            if m:
                break
        if not m or len(t["args"]) != 2:
            return None
        enum = m.group(1)
        a = self.fn.prog.adt(enum, self.fn.crate)
        if not a or a["kind"] != "enum":
            return None
        va = self._const_variant(st, t["args"][0])
        vb = self._const_variant(st, t["args"][1])
        if (va is None) == (vb is None):
            return None
        V = va if va is not None else vb
        other = t["args"][1] if va is not None else t["args"][0]
        if is_const(other):
            return None
        key = path_key(access_path(self.fn, other))
        return ("noteqtest" if m.group(2) == "ne" else "eqtest", key, enum, V)

    def _apply_summary(self, st, t):
        """result of a call to a small local predicate when the caller's constraints decide it"""
        g = self.fn.prog.fn(self.fn.crate, callee(t))
        if g is None or g is self.fn:
            return None
        rows = bool_summary(g)
        if not rows:
            return None
        outs = set()
        for cons, res in rows:
            compatible = True
            for k, c in cons.items():
                m = re.match(r"arg:(\d+)(.*)$", k)
                idx = int(m.group(1))
                if idx - 1 >= len(t["args"]):
                    compatible = False
                    break
                a = t["args"][idx - 1]
                have = None
                av = self.val_of(st, a)
                if m.group(2) == "" and av and av[0] == "variant":
                    have = av[2]
                elif not is_const(a):
                    have = st.disc.get(path_key(access_path(self.fn, a)) + m.group(2))
                elif "variant" in a and m.group(2) == "":
                    have = a["variant"]
                if have is None:
                    continue
                if isinstance(have, str):
                    if isinstance(c, str):
                        if c != have:
                            compatible = False
                    elif have in c[1]:
                        compatible = False
                else:
                    if isinstance(c, str) and c in have[1]:
                        compatible = False
                if not compatible:
                    break
            if compatible:
                outs.add(res)
        if len(outs) == 1:
            return outs.pop()
        return None

    def _set_callres(self, st, cb, val):
        for l, v in list(st.vals.items()):
            if v and v[0] == "callres" and v[1] == cb:
                st.vals[l] = ("const", val)
            elif v and v[0] == "notcallres" and v[1] == cb:
                st.vals[l] = ("const", not val)


def first_iteration(st, head):
    """(calls, blocks, constraint history) of the first iteration of the loop whose head is the block `head` (the block
    ending in the iterator's next() call) on an enumerated path"""
    calls1, seen = [], 0
    for b, c, t in st.calls:
        if b == head:
            seen += 1
            if seen == 2:
                break
            continue
        if seen == 1:
            calls1.append((b, c, t))
    blocks1, started = set(), False
    for b in st.trail:
        if b == head:
            if started:
                break
            started = True
        if started:
            blocks1.add(b)
    hist1, seen = [], 0
    for k, v in st.hist:
        if k == f"call:{head}":
            seen += 1
            if seen == 2:
                break
            continue
        if seen == 1:
            hist1.append((k, v))
    return calls1, blocks1, hist1


def run_with_argvals(fn, init_disc, callee_re, **kw):
    """enumerate paths; at every call whose callee matches callee_re append ("argval:<bi>", [abstract value of each
    argument as known on this path]) to the path's history (a `let s = match x { A => "a", B => "b" }; f(s)` argument is
    one constant per path, not the set of all arms)"""
    holder = {}
    rx = re.compile(callee_re)

    def on_call(st, bi, t):
        if rx.search(callee(t)):
            vals = []
            for a in t["args"]:
                if is_const(a):
                    vals.append(("constx", const_repr(a)))
                else:
                    vals.append(holder["en"].val_of(st, a))
            st.hist.append((f"argval:{bi}", vals))
    en = Enumerator(fn, init_disc, on_call=on_call, **kw)
    holder["en"] = en
    return en.run()
