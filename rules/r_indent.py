"""R-INDENT: every nested block is formatted exactly one block-indent level deeper than the statement that holds it,
in the ordinary formatters and in the range-only visitor (stmt_block / format_last_stmt_block) alike (C09: a statement
inside the range comes out exactly as when the whole file is formatted - its indentation is the nesting depth).

Abstract domain: the block-indent level of a Shape operand relative to the enclosing function's own Shape parameter.
`Shape::increment_block_indent` adds one; every other `Shape -> Shape` method of shape.rs that does not touch
`indent.block_indent` keeps it (the set is read from the MIR of shape.rs: a method is level-preserving when it never
calls increment_block_indent / Indent constructors); captured shapes are followed through the closure aggregates of the
enclosing functions. D(f) = the set of levels with which `format_block` can be reached from f's shape parameter,
composed through the calls between the functions of the range-only visitor.
"""
from engine import Report
from facts import *
from paths import access_path

FORMAT_BLOCK = re.compile(r"(^|::)formatters::block::format_block$|^format_block$")
FAMILY = re.compile(r"^formatters::stmt::stmt_block::[a-z_]+$|^formatters::block::format_last_stmt_block$")
ENTRIES = ("formatters::stmt::stmt_block::format_stmt_block", "formatters::block::format_last_stmt_block")
CAP = 4


def _shape_methods(prog):
    """callee-name regex parts: level-preserving / incrementing Shape methods, from the MIR of shape.rs"""
    keep, inc, other = set(), set(), set()
    for f in prog.fns("stylua_lib"):
        if f.kind == "Closure" or not f.locals[0].endswith("Shape"):
            continue
        if f.path.startswith("shape::Shape::"):
            name = f.path.split("::")[-1]
        elif re.search(r"^<shape::Shape as std::ops::(Add|Sub)<usize>>::(add|sub)$", f.path):
            name = "op:" + f.path.split("::")[-1]
        else:
            continue
        cs = {callee(t) for b, t in f.calls()}
        # a method built on other Shape methods inherits their class
        sub = {c.split("::")[-1] for c in cs if re.search(r"(^|::)shape::Shape::[a-z_]+$", c)}
        if any(c.endswith("Indent::increment_block_indent") for c in cs) or "increment_block_indent" in sub:
            inc.add(name)
        elif any(re.search(r"Indent::(new|increment_|decrement_|with_)", c) for c in cs) or name in ("new", "with_indent") \
                or sub & {"new", "with_indent", "increment_additional_indent"}:
            other.add(name)
        else:
            keep.add(name)
    return keep, inc, other


def _parent(prog, g):
    return prog.fn(g.crate, g.path.rsplit("::{closure", 1)[0])


def _levels(prog, f, o, meth, depth=0, visiting=None):
    """set of (base, level): base = (fn key, arg index) of a Shape parameter, or ('?', why)"""
    keep, inc, other = meth
    if depth > 30:
        return {(("?", "depth"), 0)}
    if is_const(o):
        return {(("?", "const"), 0)}
    visiting = set() if visiting is None else visiting
    vk = (f.key, op_place(o)["l"], tuple(str(e) for e in op_place(o).get("p", [])))
    if vk in visiting:
        return set()          # a shape updated in a loop (`shape = shape + n`): the cycle adds no new level
    visiting = visiting | {vk}
    out = set()
    roots = _roots(f, op_place(o))
    if not roots:
        return {(("?", "no-root"), 0)}
    for r in roots:
        if r[0] == "arg":
            out.add(((f.key, r[1]), 0))
        elif r[0] == "upvar":
            try:
                idx = int(r[1])
            except (TypeError, ValueError):
                out.add((("?", "upvar"), 0))
                continue
            par = _parent(prog, f)
            hit = False
            if par is not None:
                for b, si_, s in par.stmts():
                    if s["k"] == "assign" and s["rv"]["k"] == "agg" and s["rv"].get("closure") and \
                            (s["rv"]["closure"] in (f.path, f.key.split("::", 1)[-1]) or
                             getattr(prog.fn(f.crate, s["rv"]["closure"]), "path", None) == f.path) \
                            and idx < len(s["rv"]["ops"]):
                        hit = True
                        out |= _levels(prog, par, s["rv"]["ops"][idx], meth, depth + 1, visiting)
            if not hit:
                out.add((("?", "closure-not-found"), 0))
        elif r[0] == "call":
            t = f.blocks[r[2]]["term"]
            c = r[1]
            m = re.search(r"(^|::)shape::Shape::([a-z_]+)$", c)
            if m and t["args"]:
                name = m.group(2)
                sub = _levels(prog, f, t["args"][0], meth, depth + 1, visiting)
                if name in inc:
                    out |= {(b, min(l + 1, CAP)) for b, l in sub}
                elif name in keep:
                    out |= sub
                else:
                    out.add((("?", f"Shape::{name}"), 0))
            elif re.search(r"^<shape::Shape as std::ops::(Add|Sub)<usize>>::(add|sub)$", c) and t["args"]:
                name = "op:" + c.split("::")[-1]
                if name in keep:
                    out |= _levels(prog, f, t["args"][0], meth, depth + 1, visiting)
                else:
                    out.add((("?", name), 0))
            elif re.search(r"Clone>::clone$|ToOwned>::to_owned$", c) and t["args"]:
                out |= _levels(prog, f, t["args"][0], meth, depth + 1, visiting)
            else:
                out.add((("?", c.split("::")[-1]), 0))
        else:
            out.add((("?", r[0]), 0))
    return out


def _roots(f, place, pending=(), depth=0, seen=None):
    """roots of a Shape-valued place, with projections of tuples built in place resolved through copies:
    ('arg', n) ('upvar', i) ('call', callee, block) ('agg', name, block) ('?', why)"""
    seen = set() if seen is None else seen
    fields = tuple(e["f"] for e in place.get("p", []) if isinstance(e, dict) and "f" in e) + tuple(pending)
    l = place["l"]
    if f.kind == "Closure" and l == 1 and fields:
        return [("upvar", fields[0])]
    if (l, fields) in seen or depth > 40:
        return []
    seen.add((l, fields))
    ds = f.defs().get(l, [])
    out = []
    if 1 <= l <= f.argc:
        out.append(("arg", l))
    for bi, si, s in ds:
        if si == "term":
            out.append(("call", callee(s), bi))
            continue
        rv = s["rv"]
        k = rv["k"]
        if k in ("use", "cast"):
            if is_const(rv["o"]):
                continue
            out += _roots(f, op_place(rv["o"]), fields, depth + 1, seen)
        elif k in ("ref", "rawptr"):
            out += _roots(f, rv["p"], fields, depth + 1, seen)
        elif k == "agg" and "tuple" in rv and fields and str(fields[0]).isdigit() and int(fields[0]) < len(rv["ops"]):
            o2 = rv["ops"][int(fields[0])]
            if not is_const(o2):
                out += _roots(f, op_place(o2), fields[1:], depth + 1, seen)
        elif k == "agg":
            nm = f"{rv['adt']}::{rv['variant']}" if "adt" in rv else ("closure" if "closure" in rv else "tuple")
            out.append(("agg", nm, bi))
        else:
            out.append(("?", k))
    return out


def _own_closures(prog, f):
    pref = f.path + "::{closure"
    return [g for g in prog.fns(f.crate) if g.path.startswith(pref)]


def _shape_param(f):
    ps = [i for i in range(1, f.argc + 1) if f.locals[i].endswith("shape::Shape") or f.locals[i] == "Shape"]
    return ps[0] if len(ps) == 1 else None


def _sites(prog, f, meth, extra=()):
    """[(where fn, block, callee, levels-of-shape-arg)] for calls to format_block / family functions in f + closures"""
    out = []
    for g in [f] + _own_closures(prog, f):
        for b, t in g.calls():
            c = callee(t)
            if FORMAT_BLOCK.search(c) or FAMILY.search(c) or c in extra:
                shp = [a for a in t["args"] if not is_const(a) and _is_shape(g, a)]
                if len(shp) != 1:
                    out.append((g, b, c, {(("?", "no-shape-argument"), 0)}))
                    continue
                out.append((g, b, c, _levels(prog, g, shp[0], meth)))
    return out


def _is_shape(g, a):
    pl = op_place(a)
    if pl.get("p"):
        return False
    ty = g.local_ty(pl["l"])
    return ty.endswith("shape::Shape") or ty == "Shape"


def rule_indent(ctx, prop):
    rep = Report(prop, "R-INDENT", "every nested block is formatted exactly one block-indent level below the statement "
                                   "holding it - through the range-only visitor and in every ordinary formatter")
    for cfg, prog in ctx.programs.items():
        meth = _shape_methods(prog)
        if not rep.anchor("increment_block_indent" in meth[1] and "reset" in meth[0], f"Shape methods classified {sorted(meth[1])}", cfg):
            continue
        fam = {f.path: f for f in prog.fns("stylua_lib") if FAMILY.search(f.path) and f.kind != "Closure"}
        if not rep.anchor(all(e in fam for e in ENTRIES), "range-only visitor entries", cfg):
            continue
        sites = {p: _sites(prog, f, meth) for p, f in fam.items()}
        # D(f): fixpoint
        D = {p: set() for p in fam}
        bad_sites = []
        changed = True
        it = 0
        while changed and it < 20:
            changed = False
            it += 1
            for p, f in fam.items():
                sp = _shape_param(f)
                new = set()
                for g, b, c, lv in sites[p]:
                    for base, l in lv:
                        if base != (f.key, sp):
                            new.add("?")
                            continue
                        if FORMAT_BLOCK.search(c):
                            new.add(l)
                        else:
                            tgt = [q for q in fam if c == q or c.endswith("::" + q) or q.endswith(c)]
                            for q in tgt:
                                for d in D[q]:
                                    new.add("?" if d == "?" else min(l + d, CAP))
                if new != D[p]:
                    D[p] = new
                    changed = True
        nsites = sum(len(v) for v in sites.values())
        rep.floor("shape-passing call sites in the range-only visitor", nsites, 8, cfg)
        for e in ENTRIES:
            ok = D[e] == {1}
            rep.inst(f"{e} reaches format_block at level +1", {"levels": sorted(map(str, D[e]))}, cfg, ok=ok)
            if not ok:
                # name the offending chain: first site whose contribution is not 1
                why = _explain(fam, sites, D, e)
                rep.violation(f"stylua_lib::{e} nested-block-indent-level levels={sorted(map(str, D[e]))}",
                              f"from {e} (the visitor used for statements outside the formatting range) a nested block is "
                              f"formatted at block-indent level(s) {sorted(map(str, D[e]))} relative to the statement instead of "
                              f"exactly +1 ({why}): statements inside the range but nested in an out-of-range statement come "
                              f"out indented differently from whole-file formatting", fam[e].loc(), cfg)
        # ordinary formatters: every direct format_block call passes own shape + 1
        # a new private helper around format_block (`format_nested_block(ctx, block, shape)`: reset + one level + format_block)
        # is summarised by the level it adds to its own shape parameter; its call sites are judged like format_block's
        from inline import known_names
        known = known_names("stylua_lib")
        helpers = {}
        if known is not None:
            for h in prog.fns("stylua_lib"):
                if h.kind == "Closure" or h.path in known or not h.path.startswith("formatters::"):
                    continue
                hp = _shape_param(h)
                if hp is None:
                    continue
                lvls = set()
                for g, b, c, lv in _sites(prog, h, meth):
                    if FORMAT_BLOCK.search(c):
                        lvls |= {l if base == (h.key, hp) else "?" for base, l in lv}
                if lvls and "?" not in lvls and len(lvls) == 1:
                    helpers[h.path] = next(iter(lvls))
        n = 0
        for f in prog.fns("stylua_lib"):
            if f.kind == "Closure" or FAMILY.search(f.path) or not f.path.startswith("formatters::") or f.path in helpers:
                continue
            sp = _shape_param(f)
            if sp is None:
                continue
            for g, b, c, lv in _sites(prog, f, meth, extra=set(helpers)):
                if c in helpers:
                    lv = {(base, l + helpers[c]) for base, l in lv}
                elif not FORMAT_BLOCK.search(c):
                    continue
                n += 1
                ok = lv == {((f.key, sp), 1)}
                shown = sorted((("own" if base == (f.key, sp) else str(base[1])) + f"+{l}") for base, l in lv)
                rep.inst(f"{f.key} format_block at own shape +1", {"levels": shown, "at": g.loc(g.blocks[b]["term"]["sp"])}, cfg, ok=ok)
                if not ok:
                    rep.violation(f"{f.key} block-formatted-at-level {','.join(shown)}",
                                  f"{f.path} formats its nested block with a shape at {shown} instead of its own shape plus one "
                                  f"block-indent level: the body is indented differently from what the range-only visitor "
                                  f"(and every sibling formatter) uses for the same nesting", g.loc(g.blocks[b]["term"]["sp"]), cfg)
        rep.floor("format_block calls in ordinary formatters", n, 8, cfg)
    return rep


def _explain(fam, sites, D, e):
    parts = []
    for g, b, c, lv in sites[e]:
        for base, l in lv:
            if base[0] == "?":
                parts.append(f"{c.split('::')[-1]} receives a shape from {base[1]}")
            elif FORMAT_BLOCK.search(c):
                if l != 1:
                    parts.append(f"format_block called at +{l}")
            else:
                for q in fam:
                    if c == q or c.endswith("::" + q) or q.endswith(c):
                        tot = sorted(str("?" if d == "?" else l + d) for d in D[q])
                        if tot != ["1"]:
                            parts.append(f"+{l} into {q.split('::')[-1]} which adds {sorted(map(str, D[q]))}")
    return "; ".join(sorted(set(parts))[:3]) or "see levels"
