"""C15 Each file is formatted with the configuration the documented search finds - static necessary conditions."""
import r_cfg

EXPLANATION = (
    "Provenance analysis over crate stylua's config module: (e) override-last - every Config returned by "
    "ConfigResolver::load_configuration{,_for_stdin}, stored in the resolver's fields or in its cache, is produced by "
    "load_overrides with no other Config-transforming call (editorconfig::parse, toml, Config::default) applied "
    "afterwards; read_config_file is reachable only through read_and_apply_overrides; (f) the forced configuration "
    "is tested first and short-circuits, the file names searched are stylua.toml then .stylua.toml, editorconfig is "
    "consulted only when no file was found and --no-editorconfig is off; (b) load_overrides wires each flag to the "
    "field of the same name. (g) the shape of the upward walk: search root = cwd unless --search-parent-directories, own directory looked up before the parent, stop at root or file-system root, recursion into parent() with the same root, XDG/HOME only with the flag, find_toml_file returns the first existing name, stdin uses --stdin-filepath or the cwd. (i) the directory handed to find_config_file derives from current_directory.join(path).parent() with no file-system dependent resolution (canonicalize / read_link / metadata) on the way. Not decided: the behaviour of the walk on concrete directory trees (`..` components, symlinks), cache keys, what the XDG/HOME lookups read."
    "Later rounds: (R-CFG(k)) whenever --stdin-filepath is given (nothing forced) the stdin path resolves through load_configuration(filepath), without asking whether the path exists. Rounds 17-19: (R-CFG(b) path clause) no path of load_overrides skips a flag it has not tested.")
ASSUMPTIONS = ["toml/ec4rs behave as documented", "rustc MIR and Instance::try_resolve are trusted"]


def run(ctx):
    return [r_cfg.rule_override_last(ctx, "C15"), r_cfg.rule_search(ctx, "C15"), r_cfg.rule_walkup(ctx, "C15"),
            r_cfg.rule_overrides(ctx, "C15"), r_cfg.rule_fallback_locations(ctx, "C15"), r_cfg.rule_search_start(ctx, "C15"), r_cfg.rule_cache_writers(ctx, "C15"), r_cfg.rule_config_errors(ctx, "C15"), r_cfg.rule_stdin_filepath(ctx, "C15")]
