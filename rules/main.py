#!/usr/bin/env python3
"""check driver:  main.py <PROPERTY> [--tier quick|thorough] [--replay <file>] [--repo <path>]

Static analysis only: facts are extracted from the type-checked program (MIR) of the
current working tree of /repo by /verif/driver, rules are applied to those facts.
"""
import argparse
import importlib
import json
import os
import sys
import time

HERE = os.path.dirname(os.path.abspath(__file__))
sys.path.insert(0, HERE)

import engine  # noqa: E402
import extract  # noqa: E402
import facts  # noqa: E402

PROPS = {
    "C01": "p_c01", "C02": "p_c02", "C03": "p_c03", "C04": "p_c04", "C05": "p_c05",
    "C07": "p_c07", "C08": "p_c08", "C09": "p_c09", "C10": "p_c10", "C11": "p_c11",
    "C12": "p_c12", "C13": "p_c13", "C14": "p_c14", "C15": "p_c15", "C16": "p_c16",
    "C17": "p_c17", "C18": "p_c18", "C19": "p_c19", "C20": "p_c20",
}


class Ctx:
    def __init__(self, tier, configs, programs, tree_hash):
        self.tier = tier
        self.configs = configs
        self.programs = programs  # config -> facts.Program
        self.tree_hash = tree_hash
        self._cache = {}

    def memo(self, key, fn):
        if key not in self._cache:
            self._cache[key] = fn()
        return self._cache[key]


def load(tier, repo=None):
    configs = extract.THOROUGH if tier == "thorough" else extract.QUICK
    for attempt in range(3):
        files, th = extract.extract(configs, root=repo)
        try:
            programs = {c: facts.Program(c, files[c]) for c in configs}
            break
        except FileNotFoundError:
            # a concurrent run pruned the set between extraction and loading: extract again
            if attempt == 2:
                raise
    # helpers that did not exist when the rules were written are analysed in place (inline.py)
    import inline
    programs = {c: inline.transparent_view(p) for c, p in programs.items()}
    for c, p in programs.items():
        for need in ("stylua_lib", "stylua"):
            if need not in p.crates:
                raise SystemExit(f"[extract] config {c}: crate {need} missing from facts (fail closed)")
    c = Ctx(tier, configs, programs, th)
    c.repo = repo or extract.REPO
    return c


def main():
    ap = argparse.ArgumentParser()
    ap.add_argument("prop")
    ap.add_argument("--tier", default=os.environ.get("VERIF_TIER", "quick"))
    ap.add_argument("--replay")
    ap.add_argument("--repo")
    a = ap.parse_args()
    tier = a.tier if a.tier in ("quick", "thorough") else "quick"
    seed = int(os.environ.get("VERIF_SEED", "0") or 0)
    prop = a.prop.upper()
    if prop not in PROPS:
        print(f"unknown or not-applicable property {prop}")
        return 2
    t0 = time.time()
    if a.repo and os.path.realpath(a.repo) != os.path.realpath(extract.REPO):
        # analysing a scratch copy (mutation trials): never touch the committed evidence / replay files
        os.environ["VERIF_SCRATCH_OUT"] = "1"
    ctx = load(tier, a.repo)
    mod = importlib.import_module(PROPS[prop])
    reports = mod.run(ctx)
    if a.replay:
        with open(a.replay) as f:
            want = json.load(f)["key"]
        hit = [v for r in reports for v in r.violations if v.full_key == want]
        if hit:
            v = hit[0]
            print(f"[{prop}] replay: violation still present: {v.full_key}\n    {v.msg}\n    at {v.loc}")
            print(f"VIOLATION property={prop} replay={a.replay}")
            return 1
        print(f"[{prop}] replay: instance {want} no longer violates the rule")
        return 0
    return engine.finish(prop, tier, seed, reports, t0, mod.EXPLANATION, mod.ASSUMPTIONS,
                         extra={"configs": ctx.configs, "tree_hash": ctx.tree_hash})


if __name__ == "__main__":
    sys.exit(main())
