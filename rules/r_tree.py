"""Tree-shape rules: R-VARIANT, R-SYM, R-BRACKET, R-SEMI, R-COND (C01 / C02)."""
from engine import Report
from facts import *
from paths import *

EXPR = "full_moon::ast::Expression"


def strip_ty(t):
    t = t.strip()
    while t.startswith("&"):
        t = t[1:].strip()
    if t.startswith("mut "):
        t = t[4:]
    if t.startswith("std::boxed::Box<") and t.endswith(">"):
        t = t[len("std::boxed::Box<"):-1]
    return t


def fm_enums(prog):
    return {k for k, v in prog.crates["stylua_lib"].adts.items()
            if v["kind"] == "enum" and v.get("crate") == "full_moon" and k.startswith("full_moon::ast")}


# allowed variant changes: (fn regex, enum suffix) -> {(from, to)} with reason
VARIANT_EXCEPTIONS = [
    (r"^formatters::functions::format_function_args$", "FunctionArgs",
     {("String", "Parentheses"), ("TableConstructor", "Parentheses"), ("Parentheses", "String"),
      ("Parentheses", "TableConstructor")},
     "call sugar f\"s\" / f{t} <-> f(\"s\") / f({t}) is allowed by the property (governed by R-OPT)"),
]
# functions that may return the *inner* node of a wrapper (the wrapper's removal is governed by another rule)
UNWRAP_EXCEPTIONS = [
    (r"^formatters::expression::(format_expression_internal|format_hanging_expression_)$", EXPR, "Parentheses",
     "redundant parentheses (R-PAREN)"),
    (r"^formatters::stmt::remove_condition_parentheses$", EXPR, "Parentheses", "condition parentheses (R-COND)"),
    (r"^formatters::luau::format_type_info_internal$", "full_moon::ast::luau::TypeInfo", "Tuple",
     "redundant type parentheses (R-TYPAREN)"),
]


def _same_node_chain(f, st, val, pi, E, depth=0):
    """classify where the returned value comes from: ('variant', V) | ('same',) | ('child', steps) |
    ('unknown', what)"""
    if val is None:
        return ("unknown", "untracked value")
    if val[0] == "param" and val[1] == pi:
        return ("same",)
    if val[0] == "agg":
        if val[1] == E:
            return ("variant", val[2])
        return ("unknown", f"aggregate {val[1]}")
    if val[0] == "callres" and depth < 8:
        t = f.blocks[val[1]]["term"]
        # any argument that is the node itself / a child of it?
        best = None
        for a in t["args"]:
            if is_const(a):
                continue
            ap = access_path(f, a)
            if ap[0] == ("arg", pi):
                if not ap[1]:
                    return ("same",)
                best = ("child", ap[1])
        if best:
            return best
        # closure call: the node is passed inside the argument tuple (`$other(other)` in fmt_op!)
        for a in t["args"]:
            if is_const(a):
                continue
            pl = op_place(a)
            if not pl.get("p"):
                tv = st.vals.get(pl["l"])
                if tv and tv[0] == "tuple" and any(x == ("param", pi) for x in tv[1]):
                    return ("same",)
        # E -> E transformer on a previously computed value (update_*_trivia, prepend_newline_indent, to_owned, ...)
        results = []
        for a in t["args"]:
            if is_const(a):
                continue
            pl = op_place(a)
            if strip_ty(f.local_ty(pl["l"])) != E and not pl.get("p"):
                continue
            ap = access_path(f, a)
            if ap[1]:
                continue
            if ap[0][0] == "call":
                results.append(_same_node_chain(f, st, ("callres", ap[0][1]), pi, E, depth + 1))
            elif ap[0][0] == "local":
                v2 = st.vals.get(ap[0][1])
                if v2 is not None:
                    results.append(_same_node_chain(f, st, v2, pi, E, depth + 1))
        for r in results:
            if r[0] != "unknown":
                return r
        return ("unknown", f"call {callee(t)}")
    return ("unknown", str(val[0]))


class ParamEnumerator(Enumerator):
    def run(self):
        st = State()
        st.disc.update(self.init_disc)
        for i in range(1, self.fn.argc + 1):
            st.vals[i] = ("param", i)
        out = []
        self._walk(0, st, out)
        return out


def _wraps_same_node(f, pi):
    """every Expression::Parentheses aggregate of f contains (a transformed copy of) parameter pi"""
    found = False
    through = re.compile(PROV_THROUGH.pattern + r"|take_(leading|trailing)_comments$|Update\w*Trivia>?::update_\w+$")
    for b, si_, s in f.stmts():
        if s["k"] == "assign" and s["rv"]["k"] == "agg" and s["rv"].get("adt") == EXPR and s["rv"].get("variant") == "Parentheses":
            ok = any(("arg", pi) in provenance(f, o, through=through) for o in s["rv"]["ops"])
            if not ok:
                return False
            found = True
    return found


def rule_variant(ctx, prop):
    rep = Report(prop, "R-VARIANT", "every formatter over a full_moon enum returns, for each variant, the same variant "
                                    "(built from the same node) - no arm is swapped or dropped")
    for cfg, prog in ctx.programs.items():
        enums = fm_enums(prog)
        nfn = 0
        narms = 0
        for f in prog.fns("stylua_lib"):
            if f.path.startswith("verify_ast") or f.path.startswith("<verify_ast"):
                continue
            rt = strip_ty(f.locals[0])
            if rt not in enums:
                continue
            ps = [i for i in range(1, f.argc + 1) if strip_ty(f.locals[i]) == rt]
            if not ps:
                continue
            pi = ps[0]
            nfn += 1
            E = rt
            en = E.split("::")[-1]
            # a local helper that *builds* an E from parts (returns E, takes no E) is analysed in place
            from inline import inlined
            f = inlined(prog, f, lambda caller, h, t, E=E: strip_ty(h.locals[0]) == E and len(h.blocks) <= 80 and
                        not any(strip_ty(h.locals[i]) == E for i in range(1, h.argc + 1)), depth=1)
            for V in prog.variants(E, "stylua_lib"):
                try:
                    res = ParamEnumerator(f, {f"arg:{pi}": V}, max_paths=8000).run()
                except TooManyPaths:
                    rep.anchor(False, f"{f.path}: too many paths for variant {V}", cfg)
                    continue
                outs = {}
                for st in res:
                    c = _same_node_chain(f, st, st.vals.get(0), pi, E)
                    outs.setdefault(c, 0)
                    outs[c] += 1
                if not outs:
                    continue   # arm diverges (panics): R-EXH's business
                narms += 1
                bad = []
                for c in outs:
                    if c[0] == "same":
                        continue
                    if c[0] == "variant":
                        if c[1] == V:
                            continue
                        if E == EXPR and c[1] == "Parentheses" and V not in ("FunctionCall", "Symbol") and \
                                _wraps_same_node(f, pi):
                            continue   # `(node)`: redundant parentheses around a single-valued expression
                        allowed = any(re.search(rx, f.path) and E.endswith(es) and (V, c[1]) in pairs
                                      for rx, es, pairs, _ in VARIANT_EXCEPTIONS)
                        if not allowed:
                            bad.append(f"{V}->{c[1]}")
                        continue
                    if c[0] == "child":
                        allowed = any(re.search(rx, f.path) and E == ee and V == vv
                                      for rx, ee, vv, _ in UNWRAP_EXCEPTIONS)
                        # closures that map over children are not formatters of the node itself
                        if not allowed:
                            bad.append(f"{V}->child{'.'.join(s[1] for s in c[1] if len(s) > 1)}")
                        continue
                    # unknown provenance: a closure that ignores its parameter (`|_| captured.update(..)`) is not a
                    # formatter of that parameter; a named function must be resolvable (fail closed)
                    if f.kind == "Closure":
                        continue
                    if any(re.search(rx, f.path) and E == ee and V == vv for rx, ee, vv, _ in UNWRAP_EXCEPTIONS):
                        continue
                    bad.append(f"{V}->?({c[1]})")
                rep.inst(f"{f.key} enum={en} arm={V}", {"fn": f.key, "enum": en, "variant": V,
                                                       "returns": sorted(str(x) for x in outs)}, cfg, ok=not bad)
                for b in bad:
                    rep.violation(f"{f.key} enum={en} {b}",
                                  f"{f.path}: the {en}::{V} arm returns {b.split('->')[1]} - the formatted node is not "
                                  f"the same kind of node built from the same input", f.loc(), cfg)
        rep.floor("formatter functions over full_moon enums", nfn, 50 if cfg != "default" else 45, cfg)
        rep.note(f"@{cfg}: {narms} (function, variant) arms evaluated")
    return rep


# ---------------------------------------------------------------------------
# R-SYM

BINOP_LEX = {"And": "and", "Caret": "^", "GreaterThan": ">", "GreaterThanEqual": ">=", "LessThan": "<",
             "LessThanEqual": "<=", "Minus": "-", "Or": "or", "Percent": "%", "Plus": "+", "Slash": "/", "Star": "*",
             "TildeEqual": "~=", "TwoDots": "..", "TwoEqual": "==", "Ampersand": "&", "DoubleSlash": "//",
             "DoubleLessThan": "<<", "DoubleGreaterThan": ">>", "Pipe": "|", "Tilde": "~"}
UNOP_LEX = {"Minus": "-", "Not": "not", "Hash": "#", "Tilde": "~"}
COMPOUND_LEX = {"PlusEqual": "+=", "MinusEqual": "-=", "StarEqual": "*=", "SlashEqual": "/=",
                "DoubleSlashEqual": "//=", "PercentEqual": "%=", "CaretEqual": "^=", "TwoDotsEqual": "..="}
VARIANT_LEX = {
    ("BinOp", None): BINOP_LEX, ("UnOp", None): UNOP_LEX, ("CompoundOp", None): COMPOUND_LEX,
    ("LastStmt", None): {"Break": "break", "Continue": "continue"},
    ("Parameter", None): {"Ellipsis": "..."},
}
FIELD_LEX = {  # (enum, variant, field) -> lexeme
    ("TypeInfo", "Callback", "arrow"): "->", ("TypeInfo", "GenericPack", "ellipsis"): "...",
    ("TypeInfo", "Variadic", "ellipsis"): "...", ("TypeInfo", "VariadicPack", "ellipsis"): "...",
    ("TypeInfo", "Module", "punctuation"): ".", ("TypeInfo", "Optional", "question_mark"): "?",
    ("TypeInfo", "Typeof", "typeof_token"): "typeof",
    ("GenericParameterInfo", "Variadic", "ellipsis"): "...",
}
ACCESSOR_LEX = {  # full_moon accessor name -> lexeme of the token it returns
    "equal_token": "=", "local_token": "local", "else_if_token": "elseif", "else_token": "else", "if_token": "if",
    "then_token": "then", "function_token": "function", "do_token": "do", "for_token": "for", "in_token": "in",
    "goto_token": "goto", "left_colons": "::", "right_colons": "::", "export_token": "export", "type_token": "type",
    "assertion_op": "::", "colon_token": ":", "repeat_token": "repeat", "until_token": "until",
    "while_token": "while", "end_token": "end", "method_colon": ":", "start_end_comma": ",", "end_step_comma": ",",
    "return_token": "return", "attribute_token": "<", "dot": ".", "colon": ":",
}
TYPED_ACCESSOR_LEX = {("Return", "token"): "return", ("TypeSpecifier", "punctuation"): ":",
                      ("TypeUnion", "leading"): "|", ("TypeIntersection", "leading"): "&"}
# sources whose token kind is not visible in the types (separators of a Punctuated, helper parameters):
# the lexemes each function may write there - confirmed by reading, one reason per row
UNTYPED_ALLOWED = {
    "formatters::assignment::hang_punctuated_list::{closure#0}": ({","}, "separator of an expression list"),
    "formatters::block::format_block": ({";"}, "statement terminator"),
    "formatters::functions::format_function_name": ({".", ":"}, "a.b.c:d name chain"),
    "formatters::functions::format_singleline_parameters::{closure#0}": ({","}, "parameter list separator"),
    "formatters::general::format_contained_punctuated_multiline": ({","}, "list separator"),
    "formatters::general::format_punctuated": ({","}, "list separator"),
    "formatters::general::format_punctuated_multiline": ({","}, "list separator"),
    "formatters::luau::format_generic_parameter": ({"=", "..."}, "generic default / pack"),
    "formatters::luau::format_type_argument": ({":"}, "named type argument"),
    "formatters::luau::format_type_info_internal": ({"&", "|"}, "union / intersection separators"),
    "formatters::luau::hang_type_info::{closure#0}": ({"|"}, "union separator"),
    "formatters::luau::hang_type_info::{closure#1}": ({"&"}, "intersection separator"),
    "formatters::stmt::format_numeric_for": ({","}, "for-range separators"),
    "formatters::table::create_table_braces": ({"{", "}"}, "table braces"),
    "formatters::table::format_multiline_table": ({","}, "field separator"),
    "formatters::table::format_singleline_table": ({","}, "field separator"),
    "formatters::expression::format_index": ({"["}, "index bracket"),
    "formatters::functions::format_anonymous_function": ({"function"}, "anonymous function keyword (tuple field of Expression::Function)"),
}
SYMBOLS = {"and", "break", "do", "else", "elseif", "end", "false", "for", "function", "if", "in", "local", "nil",
           "not", "or", "repeat", "return", "then", "true", "until", "while", "goto", "+=", "-=", "*=", "/=", "//=",
           "%=", "^=", "..=", "&", "->", "::", "^", ":", ",", "...", "..", ".", "==", "=", ">=", ">", "#", "[", "{",
           "(", "<=", "<", "-", "%", "|", "+", "?", "]", "}", ")", ";", "/", "//", "*", "~", "~=", "<<", ">>",
           "<const>", "=>"}


def _const_strings(f, operand, depth=0):
    """constant strings reaching `operand`, descending into token constructors."""
    out = []
    for r in provenance(f, operand):
        if r[0] == "const" and r[1].startswith("s:"):
            out.append(r[1][2:])
        elif r[0] == "call" and depth < 4 and re.search(r"(Token::new|TokenReference::new|ShortString::new|::from|::into|"
                                                       r"TokenType::spaces)$", r[1]):
            tt = f.blocks[r[2]]["term"]
            for a in tt["args"]:
                out += _const_strings(f, a, depth + 1)
    return out


def _symbol_literal(f, operand, _depth=0):
    """literal(s) fed to TokenReference::symbol / identifier of TokenReference::new reaching `operand`."""
    lits = []
    kinds = []
    for r in provenance(f, operand):
        if r[0] == "call" and r[1].endswith("TokenReference::symbol"):
            tt = f.blocks[r[2]]["term"]
            lits += [x[1][2:] for x in provenance(f, tt["args"][0], through=None) if x[0] == "const" and x[1].startswith("s:")]
            kinds.append("symbol")
        elif r[0] == "call" and r[1].endswith("TokenReference::new"):
            kinds.append("new")
            tt = f.blocks[r[2]]["term"]
            lits += _const_strings(f, tt["args"][1])
        elif r[0] == "call" and _depth < 2:
            # a private helper that builds the token from a text it is handed (`contextual_keyword("type")`)
            h = f.prog.fn(f.crate, r[1])
            if h is not None and h.kind != "Closure" and strip_ty(h.locals[0]).endswith("TokenReference") and len(h.blocks) <= 40:
                tt = f.blocks[r[2]]["term"]
                sub, subk = _symbol_literal(h, {"cp": {"l": 0}}, _depth + 1)
                lits += sub
                kinds += subk
                for arg_i in _param_texts(h):
                    if arg_i - 1 < len(tt["args"]):
                        lits += _const_strings(f, tt["args"][arg_i - 1])
    return lits, kinds


def _param_texts(h):
    """parameters of helper h whose value becomes the text of the token it builds"""
    out = set()

    def walk(o, depth=0):
        for r in provenance(h, o):
            if r[0] == "arg":
                out.add(r[1])
            elif r[0] == "call" and depth < 4 and re.search(r"(Token::new|TokenReference::new|TokenReference::symbol|"
                                                           r"ShortString::new|::from|::into)$", r[1]):
                for a in h.blocks[r[2]]["term"]["args"]:
                    if not is_const(a):
                        walk(a, depth + 1)
            elif r[0] == "agg":
                pass
    walk({"cp": {"l": 0}})
    # aggregates (TokenType::Identifier { identifier: text.into() }) are looked into by provenance(into_aggs=True)
    return {i for i in out if "str" in h.locals[i] or "String" in h.locals[i]}


def _expected_lexeme(prog, f, ap):
    """expected lexeme of the token at access path `ap`, or None if its kind is not visible in the types."""
    root, steps = ap
    if root[0] == "arg":
        ty = strip_ty(f.locals[root[1]]).split("::")[-1].rstrip(")")
        vs = [s[1] for s in steps if s[0] == "v"]
        fs = [s[1] for s in steps if s[0] == "f"]
        if vs:
            tab = VARIANT_LEX.get((ty, None))
            if tab and vs[0] in tab:
                return tab[vs[0]]
            if fs and (ty, vs[0], fs[-1]) in FIELD_LEX:
                return FIELD_LEX[(ty, vs[0], fs[-1])]
        return None
    if root[0] == "call":
        t = f.blocks[root[1]]["term"]
        c = callee(t)
        parts = c.split("::")
        acc = parts[-1]
        owner = parts[-2] if len(parts) >= 2 else ""
        owner = re.sub(r"<.*$", "", owner)
        vs = [s[1] for s in steps if s[0] == "v"]
        fs = [s[1] for s in steps if s[0] == "f"]
        if (owner, acc) in TYPED_ACCESSOR_LEX:
            return TYPED_ACCESSOR_LEX[(owner, acc)]
        if acc in ACCESSOR_LEX and not [v for v in vs if v not in ("Some",)]:
            return ACCESSOR_LEX[acc]
        # accessor returning an enum whose variant field is a token: parameter().Variadic.ellipsis
        if vs and fs:
            for (en, v, fl), lex in FIELD_LEX.items():
                if v == vs[-1] and fl == fs[-1]:
                    return lex
        return None
    return None


def rule_sym(ctx, prop):
    rep = Report(prop, "R-SYM", "the lexeme written for a token is the lexeme of that token (fmt_symbol!/fmt_op! replace "
                                "the token text by a literal); literals are valid symbols without newlines")
    for cfg, prog in ctx.programs.items():
        n = 0
        typed = 0
        for f, bi, t in call_sites(prog, r"^formatters::general::format_symbol$", "stylua_lib"):
            n += 1
            lits, kinds = _symbol_literal(f, t["args"][2])
            loc = f.loc(t["sp"])
            ap = access_path(f, t["args"][1])
            src = path_key(ap)
            if ap[0][0] == "call":
                src = callee(f.blocks[ap[0][1]]["term"]).split("::", 2)[-1] + "()" + src[len(f"call:{ap[0][1]}"):]
            if len(lits) > 1 and len({x.strip(" ") for x in lits}) == 1:
                # `let text = match spacing { .. => " in ", .. => "in " }`: one lexeme, several spacings
                lits = [sorted(lits, key=len)[-1]]
            if not rep.anchor(len(lits) == 1, f"{f.path}: literal of format_symbol at {loc} ({lits})", cfg):
                continue
            lit = lits[0]
            lex = lit.strip(" ")
            okws = "\n" not in lit and "\r" not in lit and "\t" not in lit and lex != ""
            exp = _expected_lexeme(prog, f, ap)
            if exp is not None:
                typed += 1
                ok = lex == exp and okws
                rep.inst(f"{f.key} token={src} lexeme={lex}", {"fn": f.key, "token": src, "literal": lit,
                                                               "expected": exp, "at": loc}, cfg, ok=ok)
                if not ok:
                    rep.violation(f"{f.key} token={src} writes={lex!r} expected={exp!r}",
                                  f"{f.path} replaces the token `{src}` (lexeme `{exp}`) by the literal {lit!r}: a "
                                  f"different operator/keyword is printed", loc, cfg)
            else:
                allowed = UNTYPED_ALLOWED.get(f.path)
                ok = allowed is not None and lex in allowed[0] and okws
                rep.inst(f"{f.key} separator={lex}", {"fn": f.key, "token": src, "literal": lit, "at": loc}, cfg, ok=ok)
                if allowed is None:
                    rep.violation(f"{f.key} untyped-token-source lexeme={lex!r}",
                                  f"{f.path} writes {lit!r} over a token whose kind is not visible from its source "
                                  f"({src}); no allow-list row exists for this function (fail closed)", loc, cfg)
                elif not ok:
                    rep.violation(f"{f.key} separator={lex!r} not-in={sorted(allowed[0])}",
                                  f"{f.path} writes {lit!r} where only {sorted(allowed[0])} can stand ({allowed[1]})",
                                  loc, cfg)
        rep.floor("format_symbol call sites", n, 55, cfg)
        rep.floor("format_symbol sites with a typed token source", typed, 50, cfg)
        # every TokenReference::symbol literal is a valid symbol (otherwise .unwrap() panics) without newlines
        m = 0
        for f, bi, t in call_sites(prog, r"full_moon::tokenizer::TokenReference::symbol$", "stylua_lib"):
            lits = [x[1][2:] for x in provenance(f, t["args"][0], through=None) if x[0] == "const" and x[1].startswith("s:")]
            m += 1
            if not rep.anchor(len(lits) >= 1, f"{f.path}: literal of TokenReference::symbol at {f.loc(t['sp'])}", cfg):
                continue
            for lit in lits:
                lex = lit.strip(" ")
                ok = lex in SYMBOLS and "\n" not in lit and "\r" not in lit
                rep.inst(f"{f.key} symbol({lit!r})", None, cfg, ok=ok)
                if not ok:
                    rep.violation(f"{f.key} invalid-symbol-literal {lit!r}",
                                  f"TokenReference::symbol({lit!r}) is not a Lua/Luau symbol (with optional spaces): "
                                  f"it fails to lex (unwrap panics) or smuggles a newline", f.loc(t["sp"]), cfg)
        rep.floor("TokenReference::symbol call sites", m, 80, cfg)
    return rep


# ---------------------------------------------------------------------------
# R-BRACKET

BRACKETED = [("full_moon::ast::Index", "Brackets"), ("full_moon::ast::Field", "ExpressionKey"),
             ("full_moon::ast::luau::TypeFieldKey", "IndexSignature")]
QT = "full_moon::tokenizer::StringLiteralQuoteType"


def bracket_predicates(prog):
    """local fns returning bool whose body switches on StringLiteralQuoteType with an explicit Brackets target."""
    out = set()
    for f in prog.fns("stylua_lib"):
        if f.locals[0] != "bool":
            continue
        for bi in range(len(f.blocks)):
            si = switch_info(f, bi)
            if si and si["enum"].endswith("StringLiteralQuoteType") and "Brackets" in si["targets"]:
                out.add(f.path)
    return out


def rule_bracket(ctx, prop):
    rep = Report(prop, "R-BRACKET", "every constructor of `[` child `]` from a formatted child branches on 'child is a "
                                    "long-bracket string' and inserts a space on that branch")
    for cfg, prog in ctx.programs.items():
        preds = bracket_predicates(prog)
        rep.floor("bracket-string predicates", len(preds), 1, cfg)
        # (c) the predicate itself: once it has seen `quote_type == Brackets` it answers true - whatever the level
        # (`[=[x]=]` after `[` still starts with `[[`... no: `[` + `[=[` lexes as `[[` `=[`), the text or any other field
        from paths import Enumerator, TooManyPaths
        for pth in sorted(preds):
            pf = prog.fn("stylua_lib", pth)
            try:
                pres = Enumerator(pf, summaries=False, track_cmp=True, max_paths=5000).run()
            except TooManyPaths:
                rep.anchor(False, f"{pth}: too many paths", cfg)
                continue
            badp = None
            nb = 0
            for st in pres:
                hd = [v for k, v in st.hist if isinstance(v, str) and v == "Brackets" and k.endswith("quote_type")]
                if not hd:
                    continue
                nb += 1
                v0 = st.vals.get(0)
                if v0 and v0[0] == "const" and v0[1] is False:
                    extra = [f"{k.split('.')[-1]}={v}" for k, v in st.hist if k.startswith("int:") or k == "cmp"]
                    badp = extra or ["another condition"]
            rep.inst(f"stylua_lib::{pth} answers true for every long-bracket string", {"bracket_paths": nb}, cfg, ok=badp is None and nb >= 1)
            if badp is not None:
                rep.violation(f"stylua_lib::{pth} bracket-predicate-narrowed {','.join(map(str, badp))[:60]}",
                              f"{pth} answers false for some string literal whose quote type is Brackets (further condition: "
                              f"{badp}): `t[ [=[x]=] ]` is then printed as `t[[=[x]=]]`, which lexes as the long string `[[=[x]=]]` - "
                              f"another program", pf.loc(), cfg)
        n = 0
        for f in prog.fns("stylua_lib"):
            if f.path.startswith("verify_ast") or "trivia" in f.path.split("::")[1:2] or f.impl_trait:
                continue
            if not any(s["k"] == "assign" and s["rv"]["k"] == "agg" and (s["rv"].get("adt"), s["rv"].get("variant")) in BRACKETED
                       for b, si_, s in f.stmts()):
                continue
            # a private helper that formats the bracketed child (and pads it) is analysed in place
            from inline import inlined, small_helper
            f = inlined(prog, f, small_helper(prog, keep=r"::(format_expression|format_expression_internal|hang_expression|"
                                                          r"format_hanging_expression_|format_type_info|format_type_info_internal|"
                                                          r"format_hangable_type_info|hang_type_info|is_brackets_string|"
                                                          r"format_contained_span|format_token_reference|format_symbol)$|"
                                                          r"^context::|trivia_util::|^formatters::trivia::", max_blocks=60), depth=1)
            sites = []
            for b, si_, s in f.stmts():
                if s["k"] == "assign" and s["rv"]["k"] == "agg" and (s["rv"].get("adt"), s["rv"].get("variant")) in BRACKETED:
                    # formatted child?
                    pr = set()
                    for o in s["rv"]["ops"]:
                        pr |= prov_calls(provenance(f, o))
                    if any(re.search(r"^formatters::(expression::(format_expression|format_expression_internal|"
                                     r"hang_expression|format_hanging_expression_)|luau::(format_type_info|"
                                     r"format_type_info_internal|format_hangable_type_info|hang_type_info))$", c)
                           for c in pr):
                        sites.append((b, s))
            if not sites:
                continue
            n += 1
            # tests: bool switches fed by a predicate call, or by an inline `matches!(.., Brackets)`
            true_edges = []
            test_blocks = []
            for bi, blk in enumerate(f.blocks):
                t = blk["term"]
                if t["k"] != "switch" or t["ty"] != "bool" or blk["cleanup"]:
                    continue
                pr = provenance(f, t["on"], through=None)
                fl = [bb for v, bb in t["targets"] if v == 0]
                if fl and fl[0] == t["otherwise"]:
                    continue
                if any(r[0] == "call" and r[1] in preds for r in pr) or \
                        guarded_by_variant(f, t["otherwise"], "StringLiteralQuoteType", "Brackets"):
                    true_edges.append(t["otherwise"])
                    test_blocks.append(bi)
            spaced = False
            for te in true_edges:
                for b in f.reach_from(te):
                    if not f.dominates(te, b):
                        continue
                    t = f.blocks[b]["term"]
                    if t["k"] == "call" and callee(t).endswith("TokenType::spaces"):
                        spaced = True
                    elif t["k"] == "call" and callee(t).startswith(f.path + "::{closure"):
                        # `let padding = || vec![Token::new(TokenType::spaces(1))];` called on this branch
                        cg = prog.fn("stylua_lib", callee(t))
                        if cg is not None and any(callee(tt).endswith("TokenType::spaces") for _, tt in cg.calls()):
                            spaced = True
            for b, s in sites:
                nl = any(callee(t).endswith("context::create_newline_trivia") and f.dominates(bb, b)
                         for bb, t in f.calls())
                tested = any(f.dominates(tb, b) for tb in test_blocks)
                ok = nl or (tested and spaced)
                v = s["rv"]["variant"]
                rep.inst(f"{f.key} builds {v} guarded", {"fn": f.key, "at": f.loc(s["sp"]),
                                                        "how": "multi-line bracket layout" if nl else "bracket-string test + space"},
                         cfg, ok=ok)
                if not ok:
                    rep.violation(f"{f.key} unguarded-bracket-constructor {v}",
                                  f"{f.path} builds {s['rv']['adt'].split('::')[-1]}::{v} from a formatted child "
                                  f"without testing whether the child is a long-bracket string (and spacing it): "
                                  f"`[ [[s]] ]` is printed as `[[[s]]]`, which does not lex", f.loc(s["sp"]), cfg)
        rep.floor("constructors of a bracketed child", n, 2 if "luau" not in __import__("extract").FEATURES[cfg] else 3, cfg)
        # (b) the predicate looks at the *first token* of the child: kinds whose leftmost child can be a long-bracket
        # string must recurse into that child (Lua grammar: lhs of a binary operator, operand of a type assertion,
        # content of parentheses that may be removed)
        LEFTMOST = {"BinaryOperator": "lhs", "TypeAssertion": "expression", "Parentheses": "expression"}
        ev = set(prog.variants(EXPR, "stylua_lib"))
        for pn in sorted(preds):
            pf = prog.fn("stylua_lib", pn)
            pis = [i for i in range(1, pf.argc + 1) if strip_ty(pf.locals[i]) == EXPR]
            if not pis:
                continue
            pi = pis[0]
            for K, fld in LEFTMOST.items():
                if K not in ev:
                    continue
                try:
                    res = Enumerator(pf, {f"arg:{pi}": K}).run()
                except TooManyPaths:
                    rep.anchor(False, f"{pn}[{K}]: too many paths", cfg)
                    continue
                outs = set()
                for st in res:
                    v = st.vals.get(0)
                    if v and v[0] == "const":
                        outs.add(bool(v[1]))
                    elif v and v[0] == "callres":
                        t = pf.blocks[v[1]]["term"]
                        ap = access_path(pf, t["args"][0]) if t["args"] else None
                        if callee(t) == pn and ap == (("arg", pi), (("v", K), ("f", fld))):
                            outs.add("rec")
                        else:
                            outs.add("?")
                    else:
                        outs.add("?")
                ok = outs <= {"rec", True} and bool(outs)
                rep.inst(f"stylua_lib::{pn} {K} -> first token of .{fld}", {"kind": K, "result": sorted(map(str, outs))}, cfg, ok=ok)
                if not ok:
                    rep.violation(f"stylua_lib::{pn} first-token-not-followed {K}.{fld}",
                                  f"{pn} answers {sorted(map(str, outs))} for {K}: it does not look at the first token of "
                                  f"`{fld}`, so `[ [[s]] .. x ]` / `[ ([[s]]) ]` is printed as `[[[s]] ..` which does not lex",
                                  pf.loc(), cfg)
    return rep


# ---------------------------------------------------------------------------
# R-SEMI

ENDS_WITH_EXPRESSION = {"Assignment", "LocalAssignment", "FunctionCall", "Repeat", "CompoundAssignment"}
CAN_START_WITH_PAREN = {"FunctionCall", "Assignment", "CompoundAssignment"}


def rule_semi(ctx, prop):
    rep = Report(prop, "R-SEMI", "check_stmt_requires_semicolon covers every statement kind that can end with an "
                                 "expression and every next-statement kind that can start with `(`")
    for cfg, prog in ctx.programs.items():
        f = prog.fn("stylua_lib", "formatters::block::check_stmt_requires_semicolon")
        if not rep.anchor(f is not None, "check_stmt_requires_semicolon", cfg):
            continue
        sv = set(prog.variants("full_moon::ast::Stmt", "stylua_lib"))
        try:
            res = Enumerator(f, max_paths=20000).run()
        except TooManyPaths:
            rep.anchor(False, "check_stmt_requires_semicolon: too many paths", cfg)
            continue
        cur = set()
        nxt = set()

        def admits(cons, V):
            if cons is None:
                return True
            if isinstance(cons, str):
                return cons == V
            return V not in cons[1]
        for st in res:
            v = st.vals.get(0)
            may_true = not (v and v[0] == "const" and v[1] is False)
            if not may_true:
                continue
            c1 = st.disc.get("arg:1")
            nkeys = [k for k in st.disc if k.startswith("arg:2") and any(
                (isinstance(st.disc[k], str) and st.disc[k] in sv) or
                (isinstance(st.disc[k], tuple) and set(st.disc[k][1]) & sv) for _ in [0])]
            for V in sv:
                if admits(c1, V):
                    cur.add(V)
            for k in nkeys:
                for V in sv:
                    if isinstance(st.disc[k], str) and st.disc[k] == V:
                        nxt.add(V)
        want_cur = ENDS_WITH_EXPRESSION & sv
        want_nxt = CAN_START_WITH_PAREN & sv
        for V in sorted(want_cur):
            ok = V in cur
            rep.inst(f"{f.key} current={V}", {"kind": V, "role": "statement ending with an expression"}, cfg, ok=ok)
            if not ok:
                rep.violation(f"{f.key} current-statement-not-covered {V}",
                              f"a {V} statement can end with an expression but check_stmt_requires_semicolon never "
                              f"returns true for it: `<{V}>; (f)()` loses its semicolon and re-parses as a call",
                              f.loc(), cfg)
        for V in sorted(want_nxt):
            ok = V in nxt
            rep.inst(f"{f.key} next={V}", {"kind": V, "role": "statement that can start with `(`"}, cfg, ok=ok)
            if not ok:
                rep.violation(f"{f.key} next-statement-not-covered {V}",
                              f"a following {V} statement can start with `(` but is not examined", f.loc(), cfg)
        # whether the next statement starts with `(` is a question about its *first* target / prefix: the parenthesis test
        # is applied to `.iter().next()` / `.first()` / a direct accessor, never through a quantifier over all targets
        members = [f] + [g for g in prog.fns("stylua_lib") if g.path.startswith(f.path + "::{closure")]
        quant = []
        tests = 0
        for g in members:
            for b, t in g.calls():
                c = callee(t)
                if re.search(r"Iterator>?::(all|any|last|nth|rev|skip|find|position|fold|filter|max_by|min_by)$", c.split("::<")[0]):
                    quant.append(c.split("::")[-1].split("<")[0])
                if re.search(r"has_parentheses$", c):
                    tests += 1
        rep.inst(f"{f.key} asks about the first target only", {"parenthesis tests": tests, "quantifiers": sorted(set(quant))}, cfg,
                 ok=not quant and tests >= 1)
        if quant:
            rep.violation(f"{f.key} first-token-question-quantified {sorted(set(quant))}",
                          f"check_stmt_requires_semicolon decides `the next statement starts with (` through "
                          f"{sorted(set(quant))} over the statement's parts: only the first target decides how the statement "
                          f"starts, so `x = y; (a).b, c = 1, 2` can lose the semicolon it needs", f.loc(), cfg)
        # format_block must consult it and build the `;` on the true edge
        fb = prog.fn("stylua_lib", "formatters::block::format_block")
        if rep.anchor(fb is not None, "format_block", cfg):
            cs = [(b, t) for b, t in fb.calls() if callee(t) == f.path]
            ok = False
            for b, t in cs:
                e = bool_edge(fb, b)
                if e:
                    tr, fl = e
                    # on the true edge a Some(semicolon) is built; on the false edge None
                    some = any(s["k"] == "assign" and s["rv"]["k"] == "agg" and s["rv"].get("variant") == "Some"
                               and fb.dominates(tr, bb) for bb, si_, s in fb.stmts())
                    ok = ok or some
            rep.inst(f"{fb.key} semicolon-kept-when-required", None, cfg, ok=ok)
            if not ok:
                rep.violation(f"{fb.key} semicolon-not-kept", "format_block does not keep/insert a semicolon on the true "
                                                             "edge of check_stmt_requires_semicolon", fb.loc(), cfg)
    return rep


# R-SEMI(last): whatever check_stmt_requires_semicolon (and the helpers only it reaches) learns about how the *current*
# statement ends, it learns from the syntactically last child. Accessors / fields that name a non-last child of a node an
# expression can end with are never consulted (the then-branch of `if c then {} else y`, the lhs of `a + b`, the operand
# of `x :: T`): an answer computed from them says nothing about the token in front of the next statement's `(`.
NON_LAST_ACCESSORS = re.compile(
    r"(IfExpression::(if_expression|condition|else_if_expressions|if_token|then_token|else_token)|"
    r"ElseIfExpression::(condition|expression|else_if_token|then_token)|TypeAssertion::(expression|assertion_op))$")
NON_LAST_FIELDS = {("BinaryOperator", "lhs"), ("BinaryOperator", "binop"), ("UnaryOperator", "unop"),
                   ("TypeAssertion", "expression")}


def rule_semi_last(ctx, prop):
    rep = Report(prop, "R-SEMI(last)", "the semicolon decision looks at the current statement only through last-child "
                                       "accessors (never the then-branch / condition of an if-expression, the lhs of a "
                                       "binary operator, the operand of a type assertion)")
    for cfg, prog in ctx.programs.items():
        f = prog.fn("stylua_lib", "formatters::block::check_stmt_requires_semicolon")
        if not rep.anchor(f is not None, "check_stmt_requires_semicolon", cfg):
            continue
        seen, work = {}, [f]
        while work:
            g = work.pop()
            if g.path in seen:
                continue
            seen[g.path] = g
            work.extend(h for h in prog.fns("stylua_lib") if h.path.startswith(g.path + "::{closure"))
            for b, t in g.calls():
                h = prog.fn("stylua_lib", callee(t))
                # helpers of the block formatter only: shared utilities (trivia_util ...) answer other questions
                if h is not None and h.path.startswith("formatters::block::"):
                    work.append(h)
        for g in seen.values():
            bad = []
            for b, t in g.calls():
                c = callee(t).split("::<")[0]
                if NON_LAST_ACCESSORS.search(callee(t)):
                    bad.append((callee(t).split("ast::")[-1], t["sp"]))
            for b, si_, st in g.stmts():
                if st["k"] != "assign":
                    continue
                rv = st["rv"]
                pl = rv.get("p") if rv["k"] in ("ref", "rawptr", "discr") else (op_place(rv.get("o")) if rv.get("o") else None)
                pr = (pl or {}).get("p") or []
                for i in range(len(pr) - 1):
                    a, bb = pr[i], pr[i + 1]
                    if isinstance(a, dict) and "v" in a and isinstance(bb, dict) and (a["v"], bb.get("f")) in NON_LAST_FIELDS:
                        bad.append((f"{a['v']}.{bb['f']}", st.get("sp")))
            rep.inst(f"{g.key} last-child accessors only", {"fn": g.key}, cfg, ok=not bad)
            for what, sp in bad:
                rep.violation(f"{g.key} semicolon-decision-from-non-last-child {what}",
                              f"{g.path} (reached from check_stmt_requires_semicolon) consults {what}, which is not the last child "
                              f"of its node: whether `;` is needed before a following `(` depends on the token the statement ends "
                              f"with (e.g. `local x = if c then {{}} else y; (f)()` would lose its semicolon and re-parse as a call)",
                              g.loc(sp), cfg, witness={"input": "local x = if c then {} else y; (f)()"})
        rep.floor("functions of the semicolon decision", len(seen), 2, cfg)
    return rep


def rule_cond(ctx, prop):
    rep = Report(prop, "R-COND", "condition parentheses are removed only at the top of a condition")
    for cfg, prog in ctx.programs.items():
        n = 0
        for f, bi, t in call_sites(prog, r"^formatters::stmt::remove_condition_parentheses$", "stylua_lib"):
            n += 1
            pr = provenance(f, t["args"][0])
            calls = prov_calls(pr)
            ok = bool(calls) and all(re.search(r"::(condition|until)$", c) for c in calls)
            rep.inst(f"{f.key} remove_condition_parentheses(arg)", {"fn": f.key, "arg_from": sorted(calls)}, cfg, ok=ok)
            if not ok:
                rep.violation(f"{f.key} condition-parens-removed-from-subexpression",
                              f"{f.path} applies remove_condition_parentheses to a value that is not a whole "
                              f"condition ({sorted(calls)})", f.loc(t["sp"]), cfg)
        for f, bi, o in fn_refs(prog, r"remove_condition_parentheses$", "stylua_lib"):
            rep.violation(f"{f.key} remove_condition_parentheses-used-as-value",
                          "remove_condition_parentheses is passed as a function value (call sites cannot be audited)",
                          f.loc(), cfg)
        rep.floor("remove_condition_parentheses call sites", n, 4, cfg)
    return rep


# ---------------------------------------------------------------------------
# R-COLLAPSE: one-line ("collapsed") layouts are only chosen after every token that would be followed by more
# text on the same line was tested for comments (a `--` comment there would swallow the rest of the line)

COLLAPSE_GUARDS = [
    # (name, member functions, node accessor -> sides that must be tested)
    ("single-line if", ["formatters::stmt::format_if", "formatters::stmt::is_if_guard"],
     {"if_token": {"trailing"}, "condition": {"leading", "trailing"}, "then_token": {"leading", "trailing"},
      "block": {"leading", "trailing"}}),
    ("collapsed function body", ["formatters::functions::should_collapse_function_body"],
     {"parameters_parentheses": {"trailing"}, "end_token": {"leading"}, "block": {"leading", "trailing"},
      "return_type?luau": {"trailing"}}),
]
COMMENT_TEST = re.compile(r"(trivia_util::contains_comments$|has_leading_comments$|has_trailing_comments$|"
                          r"token_contains_comments\w*$|contains_singleline_comments$|has_inline_comments$)")


def _accessor_chain(f, operand, depth=0):
    """';'-terminated names of the accessor calls / fields a value was obtained through, innermost last:
    `fb.parameters_parentheses().tokens().1` -> '...::tokens;.1;...::parameters_parentheses;'"""
    if is_const(operand) or depth > 8:
        return ""
    root, steps = access_path(f, operand)
    out = "".join("." + (s[1] if len(s) > 1 else "[]") + ";" for s in reversed(steps))
    if root[0] == "call":
        t = f.blocks[root[1]]["term"]
        out += "::" + callee(t).split("::")[-1] + ";"
        cand = [a for a in t["args"] if not is_const(a) and
                not any(x in f.local_ty(op_place(a)["l"]) for x in ("Context", "Shape", "FormatTriviaType"))]
        if cand:
            out += _accessor_chain(f, cand[0], depth + 1)
    return out


def rule_collapse(ctx, prop):
    import r_replace
    rep = Report(prop, "R-COLLAPSE", "a one-line layout is chosen only after every token that will be followed by more text "
                                     "on that line was tested for comments")
    for cfg, prog in ctx.programs.items():
        for name, members, need in COLLAPSE_GUARDS:
            fns = [prog.fn("stylua_lib", m) for m in members]
            if not rep.anchor(all(f is not None for f in fns), f"collapse guard functions {members}", cfg):
                continue
            # comment tests moved into a private boolean helper (`condition_requires_multiline(.., token, cond, token)`) count
            from inline import inlined
            fns = [inlined(prog, f, lambda caller, h, t: h.locals[0] == "bool" and len(h.blocks) <= 100 and
                           re.search(r"^formatters::(stmt|functions|block|table|assignment|expression)::", h.path) and
                           h.path not in members, depth=1) for f in fns]
            tested = {}
            for f in fns:
                for b, t in f.calls():
                    c = callee(t)
                    sides = None
                    node_arg = None
                    if COMMENT_TEST.search(c):
                        n = c.split("::")[-1]
                        sides = {"leading"} if "leading" in n else {"trailing"} if "trailing" in n else {"leading", "trailing"}
                        node_arg = t["args"][0]
                    elif re.search(r"::(map_or|is_some_and|map_or_else|is_none_or)$", c) and \
                            any(is_const(a) and COMMENT_TEST.search((a.get("rfn") or a.get("fn") or "").split("::<")[0])
                                for a in t["args"]):
                        # `opt.map_or(false, contains_comments)`
                        fnname = [a.get("rfn") or a.get("fn") for a in t["args"] if is_const(a) and "fn" in a][0]
                        n = fnname.split("::<")[0].split("::")[-1]
                        sides = {"leading"} if "leading" in n else {"trailing"} if "trailing" in n else {"leading", "trailing"}
                        node_arg = t["args"][0]
                    elif re.search(r"Iterator>::any$|::any$", c) and len(t["args"]) >= 2:
                        # `.leading_trivia().any(trivia_is_comment)`
                        fnref = [r for r in provenance(f, t["args"][1], through=None) if r[0] == "const" and "trivia_is_comment" in r[1]]
                        if fnref:
                            for r in provenance(f, t["args"][0], through=None):
                                if r[0] == "call" and re.search(r"(leading_trivia|trailing_trivia)$", r[1]):
                                    tt = f.blocks[r[2]]["term"]
                                    sides = {"leading"} if "leading_trivia" in r[1] else {"trailing"}
                                    node_arg = tt["args"][0]
                    if sides is None or node_arg is None or is_const(node_arg):
                        continue
                    key = _accessor_chain(f, node_arg)
                    for acc in [k.split("?")[0] for k in need]:
                        if f"::{acc};" in key or f".{acc};" in key:
                            tested.setdefault(acc, set()).update(sides)
            import extract as _ex
            need = {k.split("?")[0]: v for k, v in need.items()
                    if "?" not in k or k.split("?")[1] in _ex.FEATURES[cfg]}
            for acc, sides in need.items():
                missing = sorted(sides - tested.get(acc, set()))
                rep.inst(f"stylua_lib {name}: {acc} tested for comments", {"guard": name, "token": acc,
                                                                            "tested_sides": sorted(tested.get(acc, set()))},
                         cfg, ok=not missing)
                if missing:
                    rep.violation(f"stylua_lib::{members[0]} collapse-without-comment-test {acc}.{','.join(missing)}",
                                  f"the {name} layout is chosen without testing the {missing} comments of `{acc}`: a "
                                  f"line comment there ends up in front of the rest of the collapsed line and comments "
                                  f"it out", fns[0].loc(), cfg)
        # the single-line if is returned only under is_if_guard(..) == true
        f = prog.fn("stylua_lib", "formatters::stmt::format_if")
        if f is not None:
            gs = [(b, t) for b, t in f.calls() if callee(t) == "formatters::stmt::is_if_guard"]
            ok = False
            if len(gs) == 1:
                e = bool_edge(f, gs[0][0])
                if e:
                    tr, fl = e
                    # every aggregate / with_block call building the collapsed form is dominated by the true edge
                    wb = [b for b, t in f.calls() if callee(t).endswith("If::with_block") and f.dominates(tr, b)]
                    ok = bool(wb)
            rep.inst("stylua_lib format_if: collapsed form built only under is_if_guard", None, cfg, ok=ok)
            if not ok:
                rep.violation("stylua_lib::formatters::stmt::format_if collapse-not-guarded",
                              "the single-line if is built without is_if_guard(..) dominating it", f.loc(), cfg)
    return rep


# ---------------------------------------------------------------------------------------------------------------
def _ast_ty(t):
    t = t.replace("&", "").replace("mut ", "").strip()
    return t.startswith("full_moon::ast::") or t == "full_moon::tokenizer::TokenReference"


def _deep_roots(f, o, depth=0, seen=None):
    """parameters / captured variables an operand is computed from, through every argument of every call"""
    seen = seen if seen is not None else set()
    out = set()
    for r in provenance(f, o, through=None):
        if r[0] in ("arg", "upvar"):
            out.add((r[0], r[1]))
        elif r[0] == "call" and depth < 8 and r[2] not in seen:
            seen.add(r[2])
            for a in f.blocks[r[2]]["term"]["args"]:
                if not is_const(a):
                    out |= _deep_roots(f, a, depth + 1, seen)
    return out


def rule_element(ctx, prop):
    """R-ELEMENT: a closure that maps over child nodes rebuilds each child from that child."""
    rep = Report(prop, "R-ELEMENT", "a closure of type |&T| -> T over child nodes builds the returned T from its own element: "
                                    "no AST-typed part of the rebuilt node comes only from a captured sibling / parent node")
    for cfg, prog in ctx.programs.items():
        n = 0
        for f in prog.fns("stylua_lib"):
            if f.kind != "Closure" or "formatters::" not in f.path or f.argc < 2:
                continue
            rt = strip_ty(f.locals[0])
            if not rt.startswith("full_moon::ast::") or strip_ty(f.locals[2]) != rt:
                continue
            if not forward_uses(f, 2):
                continue      # `|_| captured.update(..)`: a closure that ignores its parameter is not a formatter of it
            ups = f.upvars or []
            ast_ups = {str(i) for i, ty in enumerate(ups) if _ast_ty(ty.replace("&", ""))}
            for b, t in f.calls():
                c = callee(t)
                if not (c.startswith(rt + "::new") or c.startswith(rt + "::with_")):
                    continue
                args = t["args"][1:] if "::with_" in c else t["args"]
                for ai, a in enumerate(args):
                    if is_const(a) or not _ast_ty(f.local_ty(op_place(a)["l"])):
                        continue
                    n += 1
                    roots = _deep_roots(f, a)
                    from_elem = ("arg", 2) in roots
                    from_outer = sorted(r[1] for r in roots if r[0] == "upvar" and str(r[1]) in ast_ups)
                    ok = from_elem or not from_outer
                    rep.inst(f"{f.key} {c.split('::')[-1]} argument {ai} derives from the element", None, cfg, ok=ok)
                    if not ok:
                        rep.violation(f"{f.key} child-built-from-other-node {c.split('::')[-1]} arg={ai}",
                                      f"{f.path} rebuilds a {rt.split('::')[-1]} for each child, but argument {ai} of "
                                      f"{c.split('::')[-1]} is computed from a captured node (capture {from_outer}: "
                                      f"{[ups[int(i)] for i in from_outer]}) and not from the child itself: every child gets the "
                                      f"parent's / sibling's expression", f.loc(t["sp"]), cfg)
            # (2) nothing in the closure is computed from a captured node alone: every AST-typed argument of every call
            # has the element among its sources (a helper fed with `parent.expression()` next to `child.then_token()`)
            if ast_ups:
                for b, t in f.calls():
                    for ai, a in enumerate(t["args"]):
                        if is_const(a) or not _ast_ty(f.local_ty(op_place(a)["l"])):
                            continue
                        roots = _deep_roots(f, a)
                        from_outer = sorted(r[1] for r in roots if r[0] == "upvar" and str(r[1]) in ast_ups)
                        if from_outer and ("arg", 2) not in roots:
                            n += 1
                            rep.inst(f"{f.key} {callee(t).split('::')[-1]} argument {ai} derives from the element", None, cfg, ok=False)
                            rep.violation(f"{f.key} child-built-from-other-node {callee(t).split('::')[-1]} arg={ai}",
                                          f"{f.path} maps over child nodes, but argument {ai} of {callee(t).split('::')[-1]} is "
                                          f"taken from a captured node (capture {from_outer}: {[ups[int(i)] for i in from_outer]}) "
                                          f"and not from the child: every child is rebuilt with the parent's / sibling's part",
                                          f.loc(t["sp"]), cfg)
        import extract
        rep.floor("AST-typed constructor arguments in map-over-children closures", n, 2 if "luau" in extract.FEATURES[cfg] else 0, cfg)
    return rep


def rule_simple_block(ctx, prop):
    """a block may be collapsed onto one line only if it is one statement (or one last statement): the collapse paths
    rebuild the body from `stmts().next()` / `last_stmt()` alone"""
    from paths import Enumerator, TooManyPaths
    rep = Report(prop, "R-COLLAPSE(count)", "every path on which is_block_simple answers yes has established that the block holds "
                                            "exactly one statement and no last statement, or no statement at all")
    for cfg, prog in ctx.programs.items():
        f = prog.fn("stylua_lib", "formatters::trivia_util::is_block_simple")
        if not rep.anchor(f is not None, "is_block_simple", cfg):
            continue
        try:
            res = Enumerator(f, summaries=False, track_cmp=True, max_paths=20000).run()
        except TooManyPaths:
            rep.anchor(False, "is_block_simple: too many paths", cfg)
            continue

        def deep(o, depth=0, seen=None):
            seen = set() if seen is None else seen
            out = set()
            if depth > 10 or o is None or is_const(o):
                return out
            for r in provenance(f, o, through=None):
                if r[0] == "call" and r[2] not in seen:
                    seen.add(r[2])
                    out.add(r[1])
                    tt = f.blocks[r[2]]["term"]
                    if tt["args"]:
                        out |= deep(tt["args"][0], depth + 1, seen)
            return out
        n = 0
        bad = 0
        for st in res:
            v0 = st.vals.get(0)
            yes = (v0 and v0[0] == "const" and v0[1] is True) or (v0 and v0[0] in ("callres",)) or v0 is None
            if v0 and v0[0] == "const" and v0[1] is False:
                continue
            n += 1
            hd = {}
            for k, v in st.hist:
                hd.setdefault(k, []).append(v)
            # evidence
            count_one = False
            for k, v in st.hist:
                if k == "cmp":
                    op, a, b, outcome = v
                    if (op == "Eq" and outcome) or (op == "Ne" and not outcome):
                        for x, y in ((a, b), (b, a)):
                            if is_const(y) and str(y.get("v")) in ("1", "1_usize") and not is_const(x):
                                cs = deep(x)
                                if any(c.endswith("Block::stmts") for c in cs) and any(re.search(r"::(count|len)$", c) for c in cs):
                                    count_one = True
            answers = []
            for b_, c_, t_ in st.calls:
                if re.search(r"Iterator>?::next$", c_) and t_["args"] and any(c.endswith("Block::stmts") for c in deep(t_["args"][0])):
                    answers += [v for v in hd.get(f"call:{b_}", []) if v in ("Some", "None")]
            # `block.stmts().next().is_none()` answered yes
            for b_, c_, t_ in st.calls:
                m = re.search(r"Option::<.*>::is_(none|some)$|Option::<T>::is_(none|some)$", c_)
                if m and t_["args"]:
                    cs = deep(t_["args"][0])
                    if any(c.endswith("Block::stmts") for c in cs) and any(re.search(r"Iterator>?::next$", c) for c in cs):
                        want = "none" in c_.split("::")[-1]
                        for v in hd.get(f"dec:{b_}", []):
                            if v is want:
                                answers.append("None")
                            else:
                                answers.append("Some")
            none_first = answers[:1] == ["None"]
            some_then_none = "Some" in answers and "None" in answers[answers.index("Some"):]
            ok = count_one or none_first or some_then_none
            if not ok:
                bad += 1
        rep.inst(f"{f.key} yes-paths know the statement count", {"yes_paths": n}, cfg, ok=bad == 0)
        if bad:
            rep.violation(f"{f.key} simple-block-without-statement-count",
                          f"is_block_simple can answer yes on {bad} path(s) that never establish that the block has exactly one "
                          f"statement (count() == 1, or next() answered Some and then None) or none at all: with "
                          f"collapse_simple_statement the collapsed body is rebuilt from the first statement only, so the other "
                          f"statements of the block vanish from the output", f.loc(), cfg)
        rep.floor("yes-paths of is_block_simple", n, 2, cfg)
    return rep


LENGTH_CHANGING = re.compile(r"Iterator::(flatten|filter|filter_map|flat_map|skip|skip_while|take|take_while|step_by|dedup|chain|zip|"
                             r"rev|peekable|scan|map_while|fuse|cycle|last|nth)$|::(retain|dedup|truncate|remove|drain|sort[a-z_]*|reverse)$")


def rule_positional(ctx, prop):
    """lists that are matched to the names of a `local` by position keep one slot per name, in order"""
    rep = Report(prop, "R-ELEMENT(positional)", "the attribute / type-specifier lists handed to with_attributes / with_type_specifiers "
                                                "derive from the statement's own list through order- and length-preserving steps only")
    for cfg, prog in ctx.programs.items():
        n = 0
        for f in prog.fns("stylua_lib"):
            for b, t in f.calls():
                m = re.search(r"LocalAssignment::with_(attributes|type_specifiers)$", callee(t))
                if not m or len(t["args"]) < 2:
                    continue
                n += 1
                seen = set()
                calls = []
                work = [t["args"][1]]
                while work and len(seen) < 60:
                    o = work.pop()
                    if is_const(o):
                        continue
                    for r in provenance(f, o, through=None):
                        if r[0] == "call" and r[2] not in seen:
                            seen.add(r[2])
                            calls.append(r[1])
                            ta = f.blocks[r[2]]["term"]["args"]
                            if ta:
                                work.append(ta[0])
                bad = sorted({c.split("::")[-1] for c in calls if LENGTH_CHANGING.search(c)})
                src_ok = any(c.endswith(f"LocalAssignment::{m.group(1)}") for c in calls)
                ok = not bad
                rep.inst(f"{f.key} with_{m.group(1)} keeps one slot per name", {"from_own_list": src_ok, "steps": sorted({c.split('::')[-1] for c in calls})[:8]},
                         cfg, ok=ok)
                if not ok:
                    rep.violation(f"{f.key} positional-list-reshaped with_{m.group(1)} via={','.join(bad)}",
                                  f"{f.path} builds the list for with_{m.group(1)} through {bad}: the list is matched to the names by "
                                  f"position, so dropping or reordering slots moves an attribute / type to another variable "
                                  f"(`local ok, h <close> = ..` becomes `local ok <close>, h = ..`)", f.loc(t["sp"]), cfg)
        if "lua54" in cfg or cfg in ("luau", "release", "all"):
            rep.floor("with_attributes / with_type_specifiers call sites", n, 1, cfg)
    return rep
