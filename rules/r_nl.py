"""R-NL: single source of line endings and indentation (C10)."""
from engine import Report
from facts import *
from paths import *

PATTERN_CALLS = re.compile(
    r"(str::<impl str>::(contains|find|rfind|matches|split|rsplit|split_once|starts_with|ends_with|"
    r"trim_end_matches|trim_start_matches|trim_matches|strip_suffix|strip_prefix|match_indices)$|"
    r"<char as std::cmp::PartialEq>::(eq|ne)$|cmp::PartialEq>::(eq|ne)$|::eq$|::ne$|ShortString::contains$)")
REPLACE = re.compile(r"str::<impl str>::replace$|str::replace$")


def _nl(o):
    if not is_const(o):
        return False
    s = o.get("s")
    if isinstance(s, str) and ("\n" in s or "\r" in s):
        return True
    if o.get("ty") == "char" and o.get("v") in ("\n", "\r"):
        return True
    return False


def rule_nl(ctx, prop):
    rep = Report(prop, "R-NL", "newline and indentation tokens have a single source: who may construct whitespace "
                               "tokens, and where newline literals may flow")
    for cfg, prog in ctx.programs.items():
        # (1) who may construct TokenType::Whitespace
        n = 0
        for f in prog.fns("stylua_lib"):
            for b, si_, s in f.stmts():
                if s["k"] == "assign" and s["rv"]["k"] == "agg" and s["rv"].get("variant") == "Whitespace" and \
                        s["rv"].get("adt", "").endswith("TokenType"):
                    n += 1
                    ok = f.path in ("context::create_newline_trivia", "formatters::general::format_token")
                    rep.inst(f"{f.key} constructs TokenType::Whitespace", {"fn": f.key, "at": f.loc(s["sp"])}, cfg, ok=ok)
                    if not ok:
                        rep.violation(f"{f.key} extra-whitespace-constructor",
                                      f"{f.path} builds a TokenType::Whitespace token itself: newlines/indentation must "
                                      f"come from create_newline_trivia / create_indent_trivia (configured line ending "
                                      f"and indent)", f.loc(s["sp"]), cfg)
        rep.floor("TokenType::Whitespace constructors", n, 2, cfg)
        # (2) spaces / tabs
        m = 0
        for f, b, t in call_sites(prog, r"TokenType::(spaces|tabs)$", "stylua_lib"):
            m += 1
            kind = callee(t).split("::")[-1]
            a = t["args"][0]
            if kind == "tabs":
                ok = f.path == "context::create_plain_indent_trivia"
                rep.inst(f"{f.key} tabs()", None, cfg, ok=ok)
                if not ok:
                    rep.violation(f"{f.key} tabs-outside-indent-source",
                                  f"{f.path} creates tab whitespace outside create_plain_indent_trivia", f.loc(t["sp"]), cfg)
                continue
            consts = [r for r in provenance(f, a, through=None) if r[0] == "const"]
            allc = provenance(f, a, through=None)
            if all(r[0] == "const" for r in allc) and allc:
                vals = {r[1] for r in allc}
                ok = vals <= {"v:0", "v:1"}
                rep.inst(f"{f.key} spaces({sorted(vals)})", None, cfg, ok=ok)
                if not ok:
                    rep.violation(f"{f.key} spaces-constant {sorted(vals)}",
                                  f"{f.path} inserts a fixed run of spaces {sorted(vals)} (only 0 or 1 separator spaces "
                                  f"are expected; indentation must come from create_indent_trivia)", f.loc(t["sp"]), cfg)
            else:
                ok = f.path == "context::create_plain_indent_trivia"
                rep.inst(f"{f.key} spaces(dynamic)", None, cfg, ok=ok)
                if not ok:
                    rep.violation(f"{f.key} dynamic-spaces-outside-indent-source",
                                  f"{f.path} creates a computed run of spaces outside create_plain_indent_trivia",
                                  f.loc(t["sp"]), cfg)
        rep.floor("TokenType::spaces/tabs call sites", m, 15, cfg)
        # (3) newline literals: every occurrence is a pattern, or the source in line_ending_character
        k = 0
        for f in prog.fns("stylua_lib"):
            if not (f.path.startswith("formatters::") or f.path.startswith("context::") or
                    f.path.startswith("<") or f.path.startswith("sort_requires")):
                continue
            occ = []   # (kind, bi, consumer description, ok)
            for bi, blk in enumerate(f.blocks):
                for s in blk["st"]:
                    if s["k"] != "assign":
                        continue
                    rv = s["rv"]
                    if rv["k"] == "use" and _nl(rv["o"]) and not s["dst"].get("p"):
                        for u in forward_uses(f, s["dst"]["l"]):
                            occ.append((bi, rv["o"], u))
                    elif rv["k"] == "binop":
                        for o in (rv["a"], rv["b"]):
                            if _nl(o):
                                occ.append((bi, o, ("binop", bi, s)))
                    elif rv["k"] == "agg":
                        for oi, o in enumerate(rv["ops"]):
                            if _nl(o):
                                occ.append((bi, o, ("agg", bi, s, oi)))
                t = blk["term"]
                if t["k"] == "call":
                    for ai, a in enumerate(t["args"]):
                        if _nl(a):
                            occ.append((bi, a, ("call", bi, t, ai)))
            for bi, o, u in occ:
                k += 1
                lit = o.get("s", o.get("v"))
                ok = False
                what = u[0]
                if u[0] == "binop":
                    ok = u[2]["rv"]["op"] in ("Eq", "Ne")
                    what = f"compare {u[2]['rv']['op']}"
                elif u[0] == "call":
                    c = callee(u[2])
                    ai = u[3]
                    what = f"{c} arg{ai}"
                    if PATTERN_CALLS.search(c) and ai >= 1:
                        ok = True
                    elif REPLACE.search(c):
                        if ai == 1:
                            ok = True
                        elif ai == 2:
                            # only the normalisation "\r\n" -> "\n"
                            pat = [r[1] for r in provenance(f, u[2]["args"][1], through=None) if r[0] == "const"]
                            ok = lit == "\n" and pat == ["s:\r\n"]
                    elif f.path == "context::line_ending_character" and re.search(r"String as std::convert::From<&str>>::from$|::from$", c):
                        ok = True
                    elif re.search(r"::(any|all|filter|position|take_while|skip_while)$", c):
                        ok = True
                elif u[0] == "agg" and "closure" in u[2]["rv"]:
                    ok = True  # captured by a closure: the closure body is audited separately
                rep.inst(f"{f.key} newline-literal {lit!r} -> {what}", {"fn": f.key, "literal": lit, "use": what}, cfg, ok=ok)
                if not ok:
                    rep.violation(f"{f.key} newline-literal-flows-to {what.split('::')[-1]}",
                                  f"{f.path}: the literal {lit!r} is not used as a search pattern (flows to {what}): a "
                                  f"hard-coded line ending can reach the output instead of the configured one",
                                  f.loc(), cfg)
        rep.floor("newline literal uses", k, 10, cfg)
        # (4) line_ending_character table
        le = prog.fn("stylua_lib", "context::line_ending_character")
        if rep.anchor(le is not None, "context::line_ending_character", cfg):
            want = {"Unix": "\n", "Windows": "\r\n"}
            for v, s in want.items():
                res = run_with_argvals(le, {"arg:1": v}, r".")
                got = set()
                for st in res:
                    for hk, hv in st.hist:
                        if not (isinstance(hk, str) and hk.startswith("argval:")):
                            continue
                        bi = int(hk[7:])
                        t = le.blocks[bi]["term"]
                        for a, av in zip(t["args"], hv):
                            if av and av[0] in ("constx", "const") and isinstance(av[1], str) and av[1].startswith("s:"):
                                got.add(av[1][2:])
                            elif av is None and not is_const(a):
                                # not a per-path constant: fall back to everything that can flow here
                                for r in provenance(le, a, through=None):
                                    if r[0] == "const" and r[1].startswith("s:"):
                                        got.add(r[1][2:])
                ok = got == {s}
                rep.inst(f"{le.key} {v} -> {s!r}", {"variant": v, "string": sorted(got)}, cfg, ok=ok)
                if not ok:
                    rep.violation(f"{le.key} {v}-maps-to {sorted(got)!r}",
                                  f"LineEndings::{v} yields {sorted(got)!r}, expected {s!r}", le.loc(), cfg)
        # (5) create_newline_trivia = Whitespace(line_ending_character(config().line_endings))
        cn = prog.fn("stylua_lib", "context::create_newline_trivia")
        if rep.anchor(cn is not None, "context::create_newline_trivia", cfg):
            ok = False
            for b, si_, s in cn.stmts():
                if s["k"] == "assign" and s["rv"]["k"] == "agg" and s["rv"].get("variant") == "Whitespace":
                    pr = provenance(cn, s["rv"]["ops"][0])
                    calls = prov_calls(pr)
                    ok = "context::line_ending_character" in calls and not [r for r in pr if r[0] == "const" and r[1].startswith("s:")]
                    # its argument is config().line_endings
                    for bb, t in cn.calls():
                        if callee(t) == "context::line_ending_character":
                            ap = access_path(cn, t["args"][0])
                            ok = ok and ap[1][-1:] == (("f", "line_endings"),)
            rep.inst(f"{cn.key} = Whitespace(line_ending_character(config.line_endings))", None, cfg, ok=ok)
            if not ok:
                rep.violation(f"{cn.key} newline-not-from-config",
                              "create_newline_trivia does not build its token from line_ending_character("
                              "config().line_endings)", cn.loc(), cfg)
        # (6) the replacement in newline conversions comes from line_ending_character
        r6 = 0
        for f, b, t in call_sites(prog, REPLACE, "stylua_lib"):
            pat = [r[1] for r in provenance(f, t["args"][1], through=None) if r[0] == "const"]
            if pat == ["v:\n"] or pat == ["s:\n"]:
                r6 += 1
                pr = provenance(f, t["args"][2])
                ok = "context::line_ending_character" in prov_calls(pr) and not [r for r in pr if r[0] == "const"]
                rep.inst(f"{f.key} replace('\\n', line_ending_character(..))", {"at": f.loc(t["sp"])}, cfg, ok=ok)
                if not ok:
                    rep.violation(f"{f.key} newline-conversion-not-configured",
                                  f"{f.path} converts line feeds to something other than the configured line ending",
                                  f.loc(t["sp"]), cfg)
        rep.floor("newline conversions inside multi-line tokens", r6, 1, cfg)
        # (7) indent source decision table
        ci = prog.fn("stylua_lib", "context::create_plain_indent_trivia")
        if rep.anchor(ci is not None, "context::create_plain_indent_trivia", cfg):
            res = Enumerator(ci).run()
            table = {}
            for st in res:
                key = None
                for k2, v in st.disc.items():
                    if isinstance(v, str) and v in ("Tabs", "Spaces"):
                        key = v
                made = [c.split("::")[-1] for _, c, _ in st.calls if re.search(r"TokenType::(spaces|tabs)$", c)]
                table.setdefault(key, set()).update(made)
            ok = table.get("Tabs") == {"tabs"} and table.get("Spaces") == {"spaces"}
            rep.inst(f"{ci.key} Tabs->tabs, Spaces->spaces", {"table": {k2: sorted(v) for k2, v in table.items() if k2}}, cfg, ok=ok)
            if not ok:
                rep.violation(f"{ci.key} indent-type-table", f"indent tokens per IndentType: {table}", ci.loc(), cfg)
            # spaces argument = indent_level * config().indent_width ; tabs argument = indent_level
            for b, t in ci.calls():
                c = callee(t)
                if c.endswith("TokenType::spaces"):
                    pr = provenance(ci, t["args"][0], through=None)
                    mul = any(r[0] == "op" and r[1].startswith("Mul") for r in pr)
                    lvl = ("arg", 2) in pr
                    wid = False
                    for bb, si_, s in ci.stmts():
                        if s["k"] == "assign" and s["rv"]["k"] in ("use",) and not is_const(s["rv"]["o"]):
                            if proj_fields(op_place(s["rv"]["o"]))[-1:] == [("f", "indent_width")]:
                                wid = True
                    ok = mul and lvl and wid
                    rep.inst(f"{ci.key} spaces(level * indent_width)", None, cfg, ok=ok)
                    if not ok:
                        rep.violation(f"{ci.key} spaces-width", "space indentation is not indent_level * indent_width",
                                      ci.loc(t["sp"]), cfg)
                if c.endswith("TokenType::tabs"):
                    pr = provenance(ci, t["args"][0], through=None)
                    ok = pr == {("arg", 2)}
                    rep.inst(f"{ci.key} tabs(level)", None, cfg, ok=ok)
                    if not ok:
                        rep.violation(f"{ci.key} tabs-count", "tab indentation is not indent_level tabs", ci.loc(t["sp"]), cfg)
        # (8) format_eof: one newline appended after trailing whitespace was popped
        fe = prog.fn("stylua_lib", "formatters::general::format_eof")
        if rep.anchor(fe is not None, "format_eof", cfg):
            pops = [b for b, t in fe.calls() if callee(t) == "formatters::general::pop_until_no_whitespace"]
            nls = [b for b, t in fe.calls() if callee(t) == "context::create_newline_trivia"]
            ok = len(pops) == 1 and len(nls) == 1 and fe.dominates(pops[0], nls[0])
            rep.inst(f"{fe.key} pop-whitespace then one newline", None, cfg, ok=ok)
            if not ok:
                rep.violation(f"{fe.key} eof-newline-shape",
                              "format_eof does not (pop trailing whitespace, then append exactly one configured newline)",
                              fe.loc(), cfg)
        # (8b) pop_until_no_whitespace establishes its postcondition on every return path: the vector is empty or its last
        # token is not Whitespace (so that format_eof appends exactly one newline after the last comment / shebang)
        pw = prog.fn("stylua_lib", "formatters::general::pop_until_no_whitespace")
        if rep.anchor(pw is not None, "pop_until_no_whitespace", cfg):
            try:
                pres = Enumerator(pw, max_paths=5000, max_visits=2, summaries=False).run()
            except TooManyPaths:
                pres = []
                rep.anchor(False, "pop_until_no_whitespace: too many paths", cfg)
            nret = 0
            for st in pres:
                nret += 1
                calls = [(b, c) for b, c, t in st.calls]
                names = [c for b, c in calls]
                mut = [i for i, c in enumerate(names) if re.search(r"Vec::<T, A>::(pop|push|truncate|clear|remove|retain|drain|insert|swap_remove|split_off)$|pop_until_no_whitespace$", c)]
                why = None
                last_mut = names[mut[-1]] if mut else None
                kinds = [v for k, v in st.hist if isinstance(v, (str, tuple)) and
                         (v == "Whitespace" or (isinstance(v, tuple) and v[0] == "not" and "Whitespace" in v[1]) or
                          (isinstance(v, str) and v in ("Shebang", "SingleLineComment", "MultiLineComment", "Identifier", "Number", "StringLiteral", "Symbol", "Eof")))]
                opts = [v for k, v in st.hist if v in ("None", "Some")]
                if last_mut is not None and last_mut.endswith("pop_until_no_whitespace"):
                    ok = True                      # induction: the recursive call is the last thing that touches the vector
                elif last_mut is None:
                    # nothing was removed or added: fine only if the path learned that the vector is empty / ends in a
                    # non-Whitespace token
                    ok = (opts and opts[-1] == "None") or (kinds and kinds[-1] != "Whitespace")
                    why = "returns without having looked at the last token"
                elif last_mut.endswith("::push"):
                    ok = bool(kinds) and kinds[-1] != "Whitespace"
                    why = "pushes a token back that is not known to be non-Whitespace"
                elif last_mut.endswith("::pop"):
                    # popped and stopped: only fine if the vector is now known empty (pop returned None)
                    ok = bool(opts) and opts[-1] == "None"
                    if not ok:
                        # loop form: the last test after the pop says the new last token is not Whitespace / absent
                        ok = bool(kinds) and kinds[-1] != "Whitespace" and st.hist and st.hist[-1][1] != "Whitespace"
                    why = "stops after a pop without knowing what is now last"
                else:
                    ok = False
                    why = f"modifies the vector through {last_mut.split('::')[-1]}, which this rule cannot relate to `last token is not Whitespace`"
                rep.inst(f"{pw.key} return path establishes `empty or last token not Whitespace` ({[c.split('::')[-1] for c in names]})", None, cfg, ok=bool(ok))
                if not ok:
                    rep.violation(f"{pw.key} postcondition-not-established {why.split(',')[0] if why else ''}",
                                  f"a return path of pop_until_no_whitespace {why}: trailing whitespace can survive at the end of "
                                  f"the file and format_eof appends its newline after it (several line endings at EOF)",
                                  pw.loc(), cfg)
            rep.floor("return paths of pop_until_no_whitespace", nret, 2, cfg)
        # (9) single-line comments and the shebang are trimmed at the end: the text of the rebuilt token is derived from the
        # input text through a `trim_end` (inline or inside a local helper)
        ft = prog.fn("stylua_lib", "formatters::general::format_token")
        if rep.anchor(ft is not None, "format_token", cfg):
            import r_keep
            seen9 = set()
            for b, si_, s_ in ft.stmts():
                if s_["k"] == "assign" and s_["rv"]["k"] == "agg" and s_["rv"].get("variant") in ("SingleLineComment", "Shebang") \
                        and s_["rv"].get("adt", "").endswith("TokenType"):
                    v = s_["rv"]["variant"]
                    seen9.add(v)
                    r9 = r_keep._text_ops(prog, ft, s_["rv"]["ops"][0])
                    ok = r9 is not None and "trim_end" in r9[0]
                    rep.inst(f"{ft.key} {v} trimmed", None, cfg, ok=ok)
                    if not ok:
                        rep.violation(f"{ft.key} {v}-not-trimmed",
                                      f"format_token does not trim the {v} text: trailing whitespace / a stray carriage "
                                      f"return of a CRLF file reaches the output", ft.loc(s_["sp"]), cfg)
            rep.anchor(seen9 == {"SingleLineComment", "Shebang"}, f"format_token rebuilds SingleLineComment and Shebang ({sorted(seen9)})", cfg)
        # (10) who sanitises trivia taken from the input: the formatters that pass tokens through format_token /
        # load_token_trivia on the current tree still do (comments moved behind a table comma are re-formatted there: without
        # it a CRLF file keeps `\r` in front of the configured line ending). Reference through time, by enclosing function.
        SANITISERS = {
            "formatters::general::format_token": {"formatters::general::format_token_reference",
                                                  "formatters::general::load_token_trivia",
                                                  "formatters::table::format_multiline_table"},
            "formatters::general::load_token_trivia": {"formatters::general::format_end_token", "formatters::general::format_eof",
                                                       "formatters::general::format_symbol",
                                                       "formatters::general::format_token_reference"},
        }
        for san, want in SANITISERS.items():
            have = {g.path.split("::{closure")[0] for g, b_, t_ in call_sites(prog, "^" + re.escape(san) + "$", "stylua_lib")}
            for w in sorted(want):
                if prog.fn("stylua_lib", w) is None:
                    continue       # the function is gone: not decided
                ok = w in have
                rep.inst(f"stylua_lib::{w} passes input trivia through {san.split('::')[-1]}", None, cfg, ok=ok)
                if not ok:
                    rep.violation(f"stylua_lib::{w} no-longer-sanitises-through {san.split('::')[-1]}",
                                  f"{w} used to hand the trivia it moves to {san.split('::')[-1]} (which trims a comment's trailing "
                                  f"whitespace / carriage return and converts block-comment line endings) and no longer does: raw "
                                  f"input trivia reaches the output, e.g. a stray `\r` before the configured line ending for CRLF "
                                  f"input", prog.fn("stylua_lib", w).loc(), cfg)
    return rep
