"""C01 Formatted output is always syntactically valid - static necessary conditions."""
import r_tree
import r_paren
import r_arms
import r_guard
import r_interp
import r_typaren
import r_replace
import r_keep
import r_regex
import r_layout

EXPLANATION = (
    "Named mechanisms of the property, each decided on every path of every feature configuration: (R-PAREN d) the "
    "`- -x` guard is present on every constructor of a unary minus from a formatted operand (single-line and hanging); "
    "(R-BRACKET) every constructor of `[` child `]` (index, table key, Luau type indexer) tests for a long-bracket "
    "string and spaces it; (R-SEMI) check_stmt_requires_semicolon covers every statement kind that ends with an "
    "expression x every kind that can start with `(`; (R-SYM) every literal written by fmt_symbol!/fmt_op!/"
    "TokenReference::symbol is a valid symbol, newline free, and is the lexeme of the token it replaces. (R-COLLAPSE) the single-line `if` and the collapsed function body are chosen only after every token that would be followed by more text on the line was tested for comments. (R-ARMS) every arm that handles a feature-gated AST variant on the pinned tree (frozen table, 200+ arms; invisible to the default-feature suite and usually followed by a silent wildcard) is still present. (R-GUARD) every comment test that selects a comment-safe layout on the current tree (frozen table: function, predicate, node) still exists and asks about the same node, in formatters and in the predicate helpers. (R-INTERP, luau) every interpolated-string segment is built from format_expression's result after that *formatted* result was asked whether it is a table constructor, and a space is prepended when it is (`{{` does not lex). KNOWN GAP (F21, DESIGN section 10): a line comment directly after many tokens (numeric-for header, `local`, `function`, callee name, `[` ..) swallows the code printed after it; genuine violations of this class exist on the tree and are not reported by this check. Not decided: "
    "that a trailing line comment is always followed by a newline on every layout (layout dependent); the optional "
    "built-in re-parse."
    "Later rounds: (R-KEEP(e)) per variant, a trivia getter and its setter name the same field; (R-COMMENTLAYOUT) nine confirmed sites where a comment test must force the hanging layout. Rounds 17-19: (R-REGEX) the escape-rewriting table also under C01. Rounds 20-21: the grammar oracle of R-PAREN for every operand role (a type assertion left of `<` must keep its parentheses or the output does not parse). Round 23: (R-SEMI(last)) check_stmt_requires_semicolon and the block-formatter helpers it reaches never consult a non-last child (then-branch / condition of an if-expression, lhs of a binary operator, operand of a type assertion) when judging how the current statement ends.")
ASSUMPTIONS = ["Lua lexical facts: `--` starts a comment, `[[` opens a long bracket, a statement starting with `(` "
               "continues the previous expression", "the lexeme tables in r_tree.py restate Lua 5.1-5.4/Luau tokens",
               "rustc MIR and Instance::try_resolve are trusted"]


def run(ctx):
    return [r_paren.rule_paren(ctx, "C01", parts=("minus",)), r_tree.rule_bracket(ctx, "C01"),
            r_tree.rule_semi(ctx, "C01"), r_tree.rule_semi_last(ctx, "C01"), r_tree.rule_sym(ctx, "C01"), r_tree.rule_collapse(ctx, "C01"), r_arms.rule_arms(ctx, "C01"),
            r_guard.rule_guard(ctx, "C01"), r_replace.rule_strip_contract(ctx, "C01"), r_interp.rule_interp(ctx, "C01"), r_typaren.rule_typaren(ctx, "C01"),
            r_paren.rule_paren(ctx, "C01", parts=("oracle",), roles=("prefix",), all_kinds=True,
                               why="on a call / index prefix they are mandatory: `({..})[i]` becomes `{..}[i]`, "
                                   "`(function() end)()` becomes `function() end()`, which does not parse"),
            r_keep.rule_getter_setter_fields(ctx, "C01"), r_layout.rule_comment_layout(ctx, "C01"), r_regex.rule_regex(ctx, "C01"), r_paren.rule_paren(ctx, "C01", parts=("oracle",), roles=("lhs-other", "lhs^", "rhs", "unary-operand", "lhs-unknown", "assert-operand"),
                               why="which changes the parse at that role - for a type assertion on the left of `<` the output does not parse at all (`v :: T < x` opens a generic argument list)")]
