#!/usr/bin/env python3
"""Regenerate /verif/MANIFEST.json from the property modules that exist."""
import importlib
import json
import os
import sys

HERE = os.path.dirname(os.path.abspath(__file__))
VERIF = os.path.dirname(HERE)
sys.path.insert(0, HERE)

TECH = {
    "C01": "MIR path enumeration + dominance: guarded constructors (bracket string, unary minus), semicolon table and first-target clause, lexeme table, collapse comment tests, frozen tables of feature-gated arms and comment guards, strip contracts; interpolated-string brace guard on the formatted segment; bracket-string predicate path table; type-parenthesis tables (R-TYPAREN); per-variant getter/setter field agreement (R-KEEP(e)); frozen table of comment tests that must force the hanging layout (R-COMMENTLAYOUT); escape-rewriting table (R-REGEX) also under C01; grammar oracle of parenthesis removal for every operand role; semicolon decision consults last children only (R-SEMI(last))",
    "C02": "MIR path enumeration: variant preservation of every formatter arm, child-from-own-element closures, lexeme table, parenthesis and type-parenthesis decision tables vs grammar oracle, call-sugar table, symbolic evaluation of rewritten literals; R-COMMENTLAYOUT (no code swallowed by a comment at nine confirmed sites); getter/setter field agreement; Luau tuple contents under the enclosing context; semicolon decision consults last children only (R-SEMI(last): accessor / field-projection blacklist over the call closure of check_stmt_requires_semicolon)",
    "C03": "MIR typestate + accounting: trivia obligations of every discarded token discharged on all paths, Replace-site accounting and census, kept-token trivia pipeline (format_token / load_token_trivia / format_eof), getter/setter side agreement, frozen comment guards; R-COMMENTLAYOUT path tables; taken comment vectors consumed on every path (R-TAKE); printed text not post-processed (R-PRINT); getter-copied comments leave their source (R-COPY); token/expression pairs from one node (R-PAIR); path tables of the trailing-trivia getter and updater of each node type compared row by row under compatible conditions (R-TRIVIAPAIR)",
    "C04": "constant + regex-AST audit of the escape rewriting, decision-table extraction of quote selection; bracket-string guard and predicate path table (a long string after `[` is another literal); InterpolatedString segments rebuilt from the input literal only, no regex rewrite outside the StringLiteral arm; no lossy decoding of the input (R-EXACTREAD); R-PRINT; parser input provenance (R-PARSE(input))",
    "C05": "MIR decision-table extraction (ExpressionContext x inner kind) + role/context call-site pairs vs Lua grammar oracle, all layout paths; composite oracle kinds for unary operators over greedy operands; who may call remove_condition_parentheses",
    "C07": "MIR exhaustiveness of matches on non_exhaustive full_moon enums per feature configuration; dominance rules; prefix-role parenthesis invariant behind a stated belief; no formatter applied to a formatter's result (R-ONCE); caller-supplied offsets never index text (R-SLICE); R-ONCE through iterator items and closure parameters; parser input provenance and syntax conversion table (R-PARSE); frozen set of discarded trial-layout results (R-WASTE: formatting hoisted out of its guard is exponential in the depth); frozen bounded-cost trial shapes (R-TRIALSHAPE); frozen comment guards (R-GUARD)",
    "C08": "MIR dominance: skip edge returns the node untouched, block post-processing guarded by FormatNode::Normal, toggle pairing; dominance of the range answers by the exit of the ignore-directive scan; toggle state threaded through the walk; table-field walkers ask about ignored fields; the sort guard walks the whole group (iterator-chain provenance); frozen comment guards (R-GUARD); toggle independent of the range (R-RANGE(toggle)); toggle closures never driven by a short-circuiting iterator method (R-SKIP(walk), closure provenance into the adaptor call)",
    "C09": "MIR dominance + who-may-call on the out-of-range path; exhaustive enumeration of the orderings of (node start, node end, start bound, end bound) against the path table of the range test; abstract block-indent levels composed over the range-only visitor's call graph (R-INDENT); table-field walkers of the range-only visitor honour ignore directives; R-ONCE (formatted nodes carry no positions); out-of-range statements handed to the dispatching formatter (R-SKIP(h) path table); R-RANGE(toggle)",
    "C10": "MIR who-may-construct whitespace tokens, per-path constant audit of newline/indent literals, postcondition of the EOF whitespace trimmer on every return path, sanitiser-caller table; summary-based taint analysis of raw input trivia to the trivia sinks (R-RAW) with the sanitiser's postcondition; frozen comment guards (R-GUARD); builder chains over cloned input nodes replace every field (R-BUILDER, ADT field lists); R-PRINT; toggle pairing on the last statement (R-SKIP(d)); closures of formatters never return bare clones of input nodes (R-RAWNODE(closure)); CFG path exclusion of padding application and multi-line layout in format_index (R-PADLINE, backward dataflow through the vec! expansion and own closures)",
    "C11": "MIR decision-table extraction of option functions vs documented meaning, must-call siblings; quoted-string path clause; look-ahead table of the call formatter; both directions of the call-parentheses decision (three-valued documented conditions); measurement copies never returned (R-OPT(measure)); R-RAWNODE(closure)",
    "C12": "MIR who-may-call sort, stable-sort callee, gating as a path property, first-iteration decision table of the grouping (previous part x kind x line distance), ignore pairing; (statement, semicolon) pairs moved whole; membership evidence (exactly one name / expression) on every group-member path; frozen table of feature-gated arms of the sorter's predicates (R-ARMS); toggle walk dominates every emit and forms one state (R-SORT(toggle)); the sort pass rewrites leading trivia only; every statement lands in a partition (R-GROUP(total)); adjacency measured on the (statement, semicolon) pair (R-GROUP(pairend), Self type of the resolved Node::end_position call)",
    "C13": "MIR who-may-write file system / exit status, dominance by !opt.check, atomic-monotone status writes; verification flag wiring; exact no-difference tests of the diff producers (R-DIFFNONE); path table of check-mode verdicts (Complete only on create_diff's None; R-CHECKVERDICT); diff arguments as read (R-DIFFARGS); every Err edge of the output thread raises the status (R-ERRSTATUS); exit status raised by direct stores only, also for the walker (R-ERRSTATUS after F24); R-EXACTREAD",
    "C14": "MIR dominance: write only after Ok and difference; one send per worker; output loop has no early exit; verification flag wiring; build-manifest rule (no panic = abort profile); format only on the parser's Ok edge (R-PARSE); job only inside the pool (R-WORKERS(pool)); no lossy decoding of the input (R-EXACTREAD); panic_count of the pool that runs the jobs; R-ERRSTATUS direct stores; verification level chosen by opt.verify alone (named violation); verification copy taken from the parameter (R-VERIFYINPUT)",
    "C15": "MIR provenance of the returned Config (CLI overrides applied last), path table of the upward search stop test, fallback-location rule, constant audit of config file names; search start directory and search root provenance; stdin file path always seeds the search (R-CFG(k) path table); flag-skipped path clause of load_overrides",
    "C16": "MIR dominance of dispatch by de-duplication; constant audit of globs/ignore names; decision table of explicit-path predicate; walker option order; glob override root; primary / fallback position of the two ignore-file lookups; every path argument becomes a walker root; ignore verdict from matched_path_or_any_parents (R-IGNOREMATCH); dispatch guarded by Path::is_file of the entry path",
    "C17": "MIR who-may-write stdout, payload provenance, no fs mutation on the stdin path; configuration search root provenance on the stdin path; pool size bound (R-WORKERS); no lossy decoding of stdin (R-EXACTREAD); override-last on the stdin fallback; R-CFG(k); println only under formats refused without --check; R-IGNOREMATCH; logger target never stdout; stdin ignore lookup reached from the respect_ignores test by unconditional edges only (R-IGNOREGUARD, dominance + straight-line reachability)",
    "C18": "MIR dataflow: argument order from format_code's result to TextDiff::from_lines, frozen idiom table of exact no-difference tests with polarity, symbolic linear forms of the JSON line numbers over the DiffOp fields, iterator-chain completeness of the mismatch texts (all changes, matching tag), loop-exit structure, unified-diff builder options; the line diff itself (crate similar) is assumed; path table of check-mode verdicts in format_file / format_string (R-CHECKVERDICT); producer bytes unmodified on the way out of create_diff (R-DIFFBYTES); derived Serialize of DiffMismatch writes every field (R-DIFFSER); build-manifest rule: pinned version of the diff engine x algorithm selected by the appliable producers vs a table of versions confirmed to report inconsistent DiffOp indices (R-DIFFDEP, finding F25)",
    "C19": "static race pattern: lattice-monotone atomic status updates, join-before-read, no shared mutable captures; single writer per file name (R-FS); no static / thread-local state in the library (R-NOSTATE); one job per file (dedup clause of R-WALK); pool parameters independent of the thread count",
    "C20": "MIR + ADT facts: flag/config enum conversions total and name preserving, override wiring field-by-field, deny_unknown_fields in derived visitors, editorconfig mapping table; configuration errors propagated (R-CFGERR); provenance of the path handed to editorconfig::parse (R-EC(path): a file, never the searched directory); EditorConfig-derived Config never stored (R-EC(per-file)); path clause of load_overrides (no flag skipped by an early return)",
}

NOT_APPLICABLE = {
    "C06": "idempotence is format(format(p)) = format(p): its truth lives in the interaction of input-layout evidence "
           "(byte offsets, preserved blank lines) with width arithmetic; no clause of it is visible in the shape of the "
           "code and no sound static argument in reach bounds those runtime quantities (DESIGN.md section 4)",
}

PENDING_REASON = "no static check is registered for this property yet in this tree (rules under construction; see DESIGN.md)"


def main():
    props = [json.loads(l) for l in open(os.path.join(VERIF, "properties.jsonl"))]
    checks = []
    na = []
    for p in props:
        pid = p["id"]
        modname = "p_" + pid.lower()
        if pid in NOT_APPLICABLE:
            na.append({"property_id": pid, "reason": NOT_APPLICABLE[pid]})
            continue
        if not os.path.exists(os.path.join(HERE, modname + ".py")):
            na.append({"property_id": pid, "reason": PENDING_REASON})
            continue
        mod = importlib.import_module(modname)
        checks.append({
            "property_id": pid,
            "quick_cmd": f"./check {pid} --tier quick",
            "thorough_cmd": f"./check {pid} --tier thorough",
            "evidence_file": f"/verif/evidence/{pid}.json",
            "replay_cmd_template": f"./check {pid} --replay {{path}}",
            "engine": "stylua-facts+rules",
            "level_claimed": {
                "category": "other",
                "text": "static analysis: necessary structural conditions of the property decided on every path of "
                        "every feature configuration from rustc MIR facts; decides the named clauses, not the whole "
                        "behaviour. " + mod.EXPLANATION,
                "design_ref": f"DESIGN.md section 3 ({pid})",
            },
            "level_note": "trusted base: rustc (MIR, Instance::try_resolve), third-party crates as documented; " +
                          "; ".join(mod.ASSUMPTIONS),
            "technique": TECH.get(pid, "custom MIR rules"),
        })
    man = {
        "version": 1,
        "setup_cmd": "./setup.sh",
        "hooks": {
            "guard": "stylua_verif",
            "enable": "none needed: the analysis reads the unmodified build (RUSTC_WORKSPACE_WRAPPER under cargo +nightly check); "
                      "no source in /repo is guarded by this cfg",
            "baseline_off_cmd": "cd /repo && cargo test --workspace --no-fail-fast --offline",
            "source_commits": [],
            "add_only": True,
        },
        "engines": [
            {"name": "stylua-facts", "path": "/verif/driver", "serves_properties": [c["property_id"] for c in checks],
             "kind_free_text": "rustc_private driver (nightly) dumping MIR facts: CFG, resolved callees, discriminant "
                               "switches with variant names, aggregates, constants, ADT tables, macro provenance"},
            {"name": "rules", "path": "/verif/rules", "serves_properties": [c["property_id"] for c in checks],
             "kind_free_text": "Python 3 (stdlib) rule engine: dominators, who-may-call, exhaustiveness, decision-table "
                               "extraction, provenance, typestate; known findings by exact key"},
        ],
        "checks": checks,
        "not_applicable": na,
        "notes": "Static analysis only: no check formats Lua, runs the stylua binary or the test suite. Facts are "
                 "re-extracted whenever a content hash of /repo/src, Cargo.toml, Cargo.lock changes. Quick tier = 3 "
                 "feature configurations (default, luau, release set), thorough = 9. Genuine defects found on the "
                 "pinned tree are either repaired by `fix:` commits in /repo or listed in KNOWN_FINDINGS.txt.",
    }
    with open(os.path.join(VERIF, "MANIFEST.json"), "w") as f:
        json.dump(man, f, indent=1)
    print(f"MANIFEST.json: {len(checks)} checks, {len(na)} not applicable")


if __name__ == "__main__":
    main()
