"""C03 No comment is lost, duplicated or altered - static necessary condition on discarded tokens."""
import p_c07
import r_drop
import r_pair
import r_replace
import r_keep
import r_guard
import r_layout

EXPLANATION = (
    "Typestate over path enumeration: for every function that can return something else than the wrapper it was given "
    "(Expression::Parentheses, FunctionArgs::Parentheses, Luau TypeInfo::Tuple) - i.e. every site where the `(` `)` "
    "tokens of the input stop existing - each path that drops them must contain calls that return the leading and "
    "the trailing trivia of both tokens (leading_trivia / trailing_trivia / *_comments / take_*_comments on the "
    "span's tokens, on a formatted copy of the span, or on the whole node for its outer sides); boolean tests do not "
    "count. The same for a semicolon that format_block does not re-emit. (R-REPLACE) in the functions that move comments across operators, commas and `=` (a table of (function, side) pairs frozen from the pinned tree), every FormatTriviaType::Replace of a node's trivia is preceded by a complete read of that side of the same node (All, or Single + Multiline). (R-KEEP) on the kept-token route: format_token rebuilds each comment kind as itself with the same bracket level and a text that only went through trim_end / the newline chain; load_token_trivia only skips Whitespace; format_eof and pop_until_no_whitespace only discard Whitespace. This is the 'comments of removed tokens are "
    "transplanted' mechanism, checked per token and per side. (R-REPLACE(census)) no new Replace of a node's trivia appears anywhere without a complete read of that side of the node in the same function (crate-wide count per side, bounded by the reviewed sites); (R-GUARD) the frozen comment tests still exist. (R-COMMENTLAYOUT) a frozen table of seven confirmed sites where a comment test chooses the hanging / multi-line layout: no path on which the test answered true returns the flat formatter's node. KNOWN GAP (F21, DESIGN section 10): beyond those sites, code swallowed by a line comment that is followed by more text on the same line is not decided (no layout knowledge); genuine violations of this class exist on the tree and are not reported. Later rounds: (R-TAKE) the comment vector returned by take_leading_comments / take_trailing_comments is consumed on every path to the return; (R-KEEP(e)) getter / setter field agreement per variant. Not decided: comments of kept tokens (they go through  Rounds 17-19: (R-PRINT) the printed text is returned as printed; (R-COPY) comments read with a getter and attached elsewhere leave their source. Rounds 20-21: (R-PAIR) keyword token and expression of one if-expression arm come from one node."
    "format_token_reference / format_symbol), duplication, ordering among moved comments. Round 23: (R-TRIVIAPAIR) the GetTrailingTrivia and UpdateTrailingTrivia impls of every node type that has both are path-enumerated; any getter row and updater row whose conditions (on accessor results / the variant of self) can hold together name the same child or one the sub-tree of the other - otherwise the multi-line list layouts read the comments of one child and overwrite those of another; the same for the GetLeadingTrivia / UpdateLeadingTrivia siblings (R-TRIVIAPAIR(leading)); receivers bound by an or-pattern are not resolved and not judged.")
ASSUMPTIONS = ["full_moon attaches every comment to exactly one token as leading or trailing trivia",
               "rustc MIR and Instance::try_resolve are trusted"]


def run(ctx):
    return [r_drop.rule_drop(ctx, "C03"), r_replace.rule_replace(ctx, "C03"), r_replace.rule_replace_census(ctx, "C03"),
            r_keep.rule_keep_format_token(ctx, "C03"), r_keep.rule_keep_load(ctx, "C03"), r_keep.rule_keep_eof(ctx, "C03"),
            r_guard.rule_guard(ctx, "C03"), r_keep.rule_span_side(ctx, "C03"), r_replace.rule_strip_contract(ctx, "C03"), r_replace.rule_strip_callers(ctx, "C03"), r_keep.rule_getter_setter_fields(ctx, "C03"), r_layout.rule_comment_layout(ctx, "C03"), r_layout.rule_take(ctx, "C03"), r_layout.rule_copy(ctx, "C03"), r_layout.rule_pair_source(ctx, "C03"), p_c07.rule_print(ctx, "C03"), r_pair.rule_trivia_pair(ctx, "C03"), r_pair.rule_trivia_pair_leading(ctx, "C03")]
