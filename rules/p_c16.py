"""C16 Exactly the selected files are processed, each once - static necessary conditions."""
import r_cli

EXPLANATION = (
    "A-DOM / constant audit over crate stylua in every feature configuration: the format_file dispatch is dominated "
    "by `!seen_files.contains(path)` and `seen_files.insert(path)` on the same set and key; the default glob set is "
    "{**/*.lua} plus {**/*.luau} exactly when the luau feature is compiled in; a glob mismatch skips the file and the "
    "default-glob test is guarded by should_respect_ignores(); WalkBuilder::hidden receives `!opt.allow_hidden`; the "
    "custom ignore file name is `.styluaignore`; should_respect_ignores is `!explicit || respect_ignores`; format_file "
    "has one caller (R-FS); the --glob override matcher is rooted at std::env::current_dir(); walker options are set once, "
    "in an order in which none overwrites another. Not decided: what the `ignore` crate's walker yields; path spelling aliases."
    "Later rounds: (R-WALK roots) the loop over the path arguments cannot return to its head without WalkBuilder::add. Rounds 17-19: (R-IGNOREMATCH) path_is_stylua_ignored answers with matched_path_or_any_parents(path, false). Rounds 20-21: the dispatch is guarded by Path::is_file of the entry's path (symbolic links followed).")
ASSUMPTIONS = ["the `ignore` and `globset` crates behave as documented", "rustc MIR and Instance::try_resolve are trusted"]


def run(ctx):
    return [r_cli.rule_walk(ctx, "C16"), r_cli.rule_fs(ctx, "C16"), r_cli.rule_ignore_arg(ctx, "C16"), r_cli.rule_ignore_order(ctx, "C16"), r_cli.rule_ignore_match(ctx, "C16")]
