"""C14 A failing file is left untouched and does not stop the others - static necessary conditions."""
from engine import Report
from facts import *
import r_cli
import p_c07

EXPLANATION = (
    "A-DOM / A-WHO over crate stylua and stylua_lib::format_ast: (R-FS) the single fs::write happens only after "
    "format_code returned Ok, only if the text differs, with the formatted text, to the path that was read; "
    "(R-WORKERS) every worker closure sends exactly one Result on every normal path and the output loop only ends "
    "when the channel is closed; (R-LOOPEXIT) inside the directory-walk loop only configuration / ignore-file errors can abort the run - no per-file operation is followed by `?`; (R-ERRSTATUS) every Err handled by the output thread raises the status to 2; (R-EXIT) worker panics map to status 2; (R-PANICMODE) no Cargo profile / rustflags of the workspace selects panic = \"abort\" (a panicking worker must unwind for that); (R-VERIFY) format_ast returns Err on both "
    "verification failures before Ok(ast), and with OutputVerification::Full every path to Ok(ast) passes the reparse of the printed formatted tree and AstVerifier::compare(input clone, reparse) == true. Not decided: atomicity of fs::write itself, read-only files."
    "Later rounds: (R-PARSE) format only on the parser's Ok edge; (R-WORKERS) jobs only inside the pool, on the pool whose panic_count decides the exit status; (R-EXACTREAD). Rounds 17-19: (R-ERRSTATUS) direct stores only, also for the walker. Round 22: (R-VERIFYINPUT) --verify compares against a clone of the tree format_ast was given.")
ASSUMPTIONS = ["std::fs::write either fails or replaces the file (its own atomicity is outside the stated fault model)",
               "threadpool counts panicking jobs in panic_count()",
               "rustc MIR and Instance::try_resolve are trusted"]


def rule_verify(ctx, prop):
    rep = Report(prop, "R-VERIFY", "format_ast: both verification failures return Err before any Ok(ast)")
    for cfg, prog in ctx.programs.items():
        f = prog.fn("stylua_lib", "format_ast")
        if f is not None:
            from inline import inlined, small_helper
            f = inlined(prog, f, small_helper(prog, keep=r"^(sort_requires::|formatters::|context::|verify_ast::)"))
        if not rep.anchor(f is not None, "format_ast", cfg):
            continue
        oks = [b for b, si_, s in f.stmts() if s["k"] == "assign" and s["rv"]["k"] == "agg" and s["rv"].get("variant") == "Ok"
               and s["rv"].get("adt", "").endswith("result::Result")]
        rep.floor("Ok(ast) returns in format_ast", len(oks), 1, cfg)
        # --- path form: with verify_output == Full, every path that returns Ok went through the reparse (Ok edge) of
        # the printed formatted tree and through AstVerifier::compare(== true) of the input clone with the reparse
        from paths import Enumerator, TooManyPaths
        vi = [i for i in range(1, f.argc + 1) if f.locals[i].endswith("OutputVerification")]
        if not rep.anchor(len(vi) == 1, "verify_output parameter of format_ast", cfg):
            continue
        try:
            res = Enumerator(f, init_disc={f"arg:{vi[0]}": "Full"}, summaries=False, max_paths=5000).run()
        except TooManyPaths:
            rep.anchor(False, "format_ast: too many paths", cfg)
            continue
        nok = 0
        seen_err = set()
        for st in res:
            v0 = st.vals.get(0)
            if not (v0 and v0[0] == "agg" and v0[2] == "Ok"):
                # an error path: which verification failure does it report?
                for bb in st.trail:
                    for s_ in f.blocks[bb]["st"]:
                        if s_["k"] == "assign" and s_["rv"]["k"] == "agg" and s_["rv"].get("variant") in \
                                ("VerificationAstError", "VerificationAstDifference"):
                            seen_err.add(s_["rv"]["variant"])
                for _, c_, t_ in st.calls:
                    if c_.endswith("map_err"):
                        for r_ in provenance(f, t_["args"][1], through=None):
                            if r_[0] == "const" and "VerificationAstError" in r_[1]:
                                seen_err.add("VerificationAstError")
                continue
            nok += 1
            parsed = [(b, t) for b, c, t in st.calls if re.search(r"full_moon::parse(_fallible)?$", c)]
            cmpd = [(b, t) for b, c, t in st.calls if c.endswith("AstVerifier::compare")]
            why = None
            if not parsed:
                why = "no-reparse"
            elif not cmpd:
                why = "no-compare"
            elif st.decisions.get(cmpd[0][0]) is not True:
                why = "compare-result-ignored"
            else:
                # what is reparsed is the printed formatted tree; what is compared is the input clone and the reparse
                pt = parsed[0][1]
                src = prov_calls(provenance(f, pt["args"][0]))
                fmt_ok = any(c.endswith("CodeFormatter::format") for c in src)
                roots = [provenance(f, x) for x in cmpd[0][1]["args"][1:3]]
                cl_ok = any(("arg", 1) in r for r in roots) and \
                    any(re.search(r"parse(_fallible)?$|into_result$", c) for r in roots for c in prov_calls(r))
                if not fmt_ok:
                    why = "reparse-of-something-else"
                elif not cl_ok:
                    why = "compare-operands"
            rep.inst(f"{f.key} verify=Full path to Ok reparses and compares", {"calls": [c.split("::")[-1] for _, c, _ in st.calls]},
                     cfg, ok=why is None)
            if why:
                skipped_by = sorted({callee(f.blocks[b]["term"]).split("::")[-1] for b in st.decisions} |
                                    {k for k, v in st.disc.items() if k.startswith("call:") and v in ("None", "Some")})
                rep.violation(f"{f.key} verification-skipped {why}",
                              f"with OutputVerification::Full a path of format_ast returns Ok(ast) with {why} (decided by "
                              f"{skipped_by}): unparseable or altered output is returned as a success and the CLI writes it "
                              f"over the file", f.loc(), cfg)
        rep.floor("verify=Full paths of format_ast returning Ok", nok, 1, cfg)
        for v in ("VerificationAstError", "VerificationAstDifference"):
            ok = v in seen_err
            rep.inst(f"{f.key} {v}-returns-Err", None, cfg, ok=ok)
            if not ok:
                rep.violation(f"{f.key} {v}-does-not-abort",
                              f"with OutputVerification::Full no error path of format_ast reports Error::{v}", f.loc(), cfg)
    return rep


def run(ctx):
    return [r_cli.rule_fs(ctx, "C14"), r_cli.rule_workers(ctx, "C14"), r_cli.rule_exit(ctx, "C14"), r_cli.rule_err_status(ctx, "C14"), r_cli.rule_loop_exit(ctx, "C14"),
            rule_verify(ctx, "C14"), r_cli.rule_verify_wiring(ctx, "C14"), r_cli.rule_panic_mode(ctx, "C14"), r_cli.rule_job_only_in_pool(ctx, "C14"), p_c07.rule_parse(ctx, "C14"), r_cli.rule_exact_read(ctx, "C14"), p_c07.rule_verify_input(ctx, "C14")]
