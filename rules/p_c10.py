"""C10 Output whitespace obeys line_endings and indent settings - static necessary conditions."""
import p_c07
import r_nl
import r_raw
import r_guard
import r_layout
import r_skip
import r_pad

EXPLANATION = (
    "A-WHO + constant audit over stylua_lib in every feature configuration: TokenType::Whitespace is constructed only "
    "in create_newline_trivia and in the pass-through arm of format_token; tabs only in create_plain_indent_trivia; "
    "spaces(n) only there (n = level * indent_width) or with the constants 0/1; every string/char literal containing "
    "a line feed or carriage return flows only into search patterns (contains/find/replace pattern/compare), except "
    "the two literals of line_ending_character (Unix -> LF, Windows -> CRLF, extracted as a decision table) and the "
    "LF of the CRLF->LF normalisation; create_newline_trivia takes its text from line_ending_character(config."
    "line_endings); the newline conversions inside block comments / long strings use it too; format_eof pops trailing "
    "whitespace then appends one newline; line comments and the shebang are trimmed. (R-RAW) a summary-based taint "
    "analysis over the whole library: token collections taken from *unformatted* nodes (receiver chain rooted in a "
    "parameter that some caller binds to raw input; formatters, constructors and strip helpers give clean nodes) flow "
    "through iterator adaptors, closures, vec!/push/extend, tuples and helper summaries; such tokens may reach "
    "FormatTriviaType::Append/Replace or TokenReference::new only through format_token / load_token_trivia / a "
    "format_* helper - otherwise a line comment of a CRLF file keeps its carriage return. Not decided: 'exactly one line "
    "ending at EOF' beyond the shape; raw nodes returned whole by a formatter (the rule judges token collections, not "
    "nodes rebuilt with with_*())."
    "Later rounds: (R-BUILDER) a `to_owned().with_*()` chain over a cloned input node replaces every field of the struct (fields from the ADT facts). Rounds 17-19: (R-PRINT); (R-SKIP(d)) toggle pairing. Not decided in general: which trivia ends up at the start of a line. Rounds 20-21: (R-RAWNODE(closure)) closures of formatter functions never return a bare clone of an input node. Round 23: (R-PADLINE) in format_index no CFG path both applies a spaces() padding token (update_leading/trailing_trivia whose argument is built from TokenType::spaces, directly or through an own closure) and builds the multi-line layout (create_indent_trivia): the pad would follow the indent.")
ASSUMPTIONS = ["full_moon::TokenType::spaces/tabs produce exactly n spaces / tabs",
               "rustc MIR and Instance::try_resolve are trusted"]


def run(ctx):
    return [r_nl.rule_nl(ctx, "C10"), r_raw.rule_raw(ctx, "C10"), r_raw.rule_sanitiser(ctx, "C10"), r_guard.rule_guard(ctx, "C10"), r_layout.rule_builder(ctx, "C10"), p_c07.rule_print(ctx, "C10"), r_skip.rule_toggle(ctx, "C10"), r_layout.rule_closure_raw(ctx, "C10"), r_pad.rule_padline(ctx, "C10")]
