"""C18 Diffs printed by `--check` reconstruct the formatted file - the structural clauses (what StyLua's own code adds
on top of the `similar` crate)."""
import r_cli
import r_diff

EXPLANATION = (
    "The property as a whole is a round trip over runtime texts and is NOT decided: which lines `similar` reports as "
    "equal, and that its unified-diff printer is correct, are assumed. Decided, from the MIR of crate stylua in every "
    "feature configuration, are the clauses that live in StyLua's own code and whose breakage breaks the round trip: "
    "(R-DIFFARGS) the (original, formatted) pair keeps its order from format_code's result through create_diff and every "
    "producer down to TextDiff::from_lines(old, new); (R-DIFFNONE) every producer and the Summary arm answer `no "
    "difference` through a recognised exact test with the right polarity (grouped ops empty / every op Equal / strings "
    "equal), (R-NODIFF) never through a floating-point comparison; (R-DIFFJSON) each non-Equal DiffOp arm of "
    "output_diff_json pushes exactly one mismatch on every path, its line numbers are the linear forms index and "
    "index+len-1 over the op's own fields (evaluated symbolically through the checked add/sub), its texts are the "
    "collection of all changes of that op with the matching tag (never the first change only) and the empty string on "
    "the side without lines, and no arm leaves the loops early; (R-DIFFUNI) output_diff_unified writes the Display of "
    "unified_diff() of from_lines(old, new) with the missing-newline hint untouched; (R-DIFFSUMMARY) the Summary arm "
    "prints `<file_name>\\n`."
    "Later rounds: (R-CHECKVERDICT); (R-DIFFBYTES) the bytes returned by output_diff_unified / output_diff reach create_diff's caller unmodified (no mutating Vec operation, also inside mapped closures). Round 22: (R-DIFFSER) every JSON mismatch record carries all six fields. Round 23: (R-DIFFDEP) the version of `similar` pinned by Cargo.lock together with the algorithm the producers select is compared with the table of versions confirmed (by running the crate alone) to report DiffOp indices that do not tile the texts; 2.4.0 with the default algorithm is such a version - finding F25, listed in KNOWN_FINDINGS.txt.")
ASSUMPTIONS = ["similar::TextDiff computes a correct line diff and prints a correct unified diff (known to be false for similar 2.4.0 on inputs with a repeated block: F25, reported by R-DIFFDEP)",
               "the JSON convention for a side without lines is the range [index, index] with an empty text (frozen from the code)",
               "rustc MIR and Instance::try_resolve are trusted"]


def run(ctx):
    return [r_diff.rule_args(ctx, "C18"), r_diff.rule_none(ctx, "C18"), r_cli.rule_nodiff(ctx, "C18"),
            r_diff.rule_json(ctx, "C18"), r_diff.rule_unified(ctx, "C18"), r_diff.rule_summary(ctx, "C18"), r_cli.rule_check_verdict(ctx, "C18"), r_diff.rule_report_bytes(ctx, "C18"), r_diff.rule_json_fields(ctx, "C18"), r_diff.rule_dep(ctx, "C18")]
