"""Run the fact extractor (rustc_private driver) on /repo's current working tree for a set
of feature configurations. Results are cached by a content hash of the inputs, so that the
20 property checks share one extraction. The deciding step always re-hashes /repo on every
run: a changed source file means a new extraction.
"""
import fcntl
import hashlib
import os
import shutil
import subprocess
import sys
import time
from concurrent.futures import ThreadPoolExecutor

VERIF = os.path.dirname(os.path.dirname(os.path.abspath(__file__)))
REPO = os.environ.get("VERIF_REPO", "/repo")
CACHE = os.environ.get("VERIF_CACHE", os.path.join(VERIF, ".cache"))
DRIVER_DIR = os.path.join(VERIF, "driver")
DRIVER = os.path.join(DRIVER_DIR, "target", "release", "stylua-facts")

CONFIGS = {
    "default": [],
    "luau": ["--features", "luau"],
    "release": ["--features", "lua52,lua53,lua54,luau,luajit"],
    "lua52": ["--features", "lua52"],
    "lua53": ["--features", "lua53"],
    "lua54": ["--features", "lua54"],
    "luajit": ["--features", "luajit"],
    "nodefault": ["--no-default-features"],
    "all": ["--all-features"],
}
QUICK = ["default", "luau", "release"]
THOROUGH = ["default", "luau", "release", "lua52", "lua53", "lua54", "luajit", "nodefault", "all"]

# feature sets per config (for rules that need to know what is compiled in)
FEATURES = {
    "default": set(),
    "luau": {"luau"},
    "release": {"lua52", "lua53", "lua54", "luau", "luajit"},
    "lua52": {"lua52"},
    "lua53": {"lua52", "lua53"},
    "lua54": {"lua52", "lua53", "lua54"},
    "luajit": {"luajit"},
    "nodefault": set(),
    "all": {"lua52", "lua53", "lua54", "luau", "luajit", "serialize", "fromstr"},
}


def sysroot():
    return subprocess.check_output(["rustc", "+nightly", "--print", "sysroot"], text=True).strip()


def ensure_driver():
    if os.path.exists(DRIVER):
        src_m = max(os.path.getmtime(os.path.join(DRIVER_DIR, "src", "main.rs")),
                    os.path.getmtime(os.path.join(DRIVER_DIR, "Cargo.toml")))
        if os.path.getmtime(DRIVER) >= src_m:
            return
    os.makedirs(CACHE, exist_ok=True)
    with open(os.path.join(CACHE, "driver.lock"), "w") as lk:
        fcntl.flock(lk, fcntl.LOCK_EX)
        env = dict(os.environ, CARGO_NET_OFFLINE="true")
        r = subprocess.run(["cargo", "build", "--release", "--offline"], cwd=DRIVER_DIR, env=env,
                           stdout=subprocess.PIPE, stderr=subprocess.STDOUT, text=True)
        if r.returncode != 0:
            sys.stderr.write(r.stdout)
            raise SystemExit("cannot build fact extractor")


def tree_hash(root=None):
    root = root or REPO
    h = hashlib.sha256()
    with open(DRIVER, "rb") as f:
        h.update(hashlib.sha256(f.read()).digest())
    paths = []
    for base in ("src",):
        for dp, dn, fn in os.walk(os.path.join(root, base)):
            dn.sort()
            for n in sorted(fn):
                paths.append(os.path.join(dp, n))
    for n in ("Cargo.toml", "Cargo.lock"):
        paths.append(os.path.join(root, n))
    for p in paths:
        h.update(os.path.relpath(p, root).encode())
        h.update(b"\0")
        try:
            with open(p, "rb") as f:
                h.update(hashlib.sha256(f.read()).digest())
        except OSError:
            h.update(b"<missing>")
    return h.hexdigest()[:24]


def _run_one(config, outdir, root, log):
    """run cargo check with the driver for one config; facts land in outdir."""
    tdir = os.path.join(CACHE, "target", config)
    os.makedirs(tdir, exist_ok=True)
    os.makedirs(outdir, exist_ok=True)
    # cargo's freshness cache would skip the wrapper: drop the workspace members' fingerprints
    fpd = os.path.join(tdir, "debug", ".fingerprint")
    if os.path.isdir(fpd):
        for n in os.listdir(fpd):
            if n.startswith("stylua-"):
                shutil.rmtree(os.path.join(fpd, n), ignore_errors=True)
    env = dict(os.environ)
    env.update({
        "LD_LIBRARY_PATH": os.path.join(sysroot(), "lib") + ":" + env.get("LD_LIBRARY_PATH", ""),
        "RUSTFLAGS": "-Zmir-opt-level=0 -Zub-checks=no -Awarnings",
        "RUSTC_WORKSPACE_WRAPPER": DRIVER,
        "CARGO_TARGET_DIR": tdir,
        "CARGO_NET_OFFLINE": "true",
        "STYLUA_FACTS_OUT": outdir,
        "STYLUA_FACTS_CONFIG": config,
    })
    env.pop("RUSTC_WRAPPER", None)
    cmd = ["cargo", "+nightly", "check", "--offline", "--lib", "--bins"] + CONFIGS[config]
    t0 = time.time()
    r = subprocess.run(cmd, cwd=root, env=env, stdout=subprocess.PIPE, stderr=subprocess.STDOUT, text=True)
    with open(log, "w") as f:
        f.write(r.stdout)
    ok = r.returncode == 0 and all(os.path.exists(os.path.join(outdir, n))
                                   for n in ("stylua_lib.json", "stylua.json"))
    return config, ok, time.time() - t0, r.stdout[-3000:]


def extract(configs, root=None, verbose=True):
    """returns {config: [paths of fact files]}; raises SystemExit on build failure."""
    root = root or REPO
    ensure_driver()
    os.makedirs(CACHE, exist_ok=True)
    with open(os.path.join(CACHE, "extract.lock"), "w") as lk:
        fcntl.flock(lk, fcntl.LOCK_EX)
        th = tree_hash(root)
        base = os.path.join(CACHE, "facts", th)
        todo = []
        for c in configs:
            d = os.path.join(base, c)
            if not (os.path.exists(os.path.join(d, "stylua_lib.json")) and os.path.exists(os.path.join(d, "stylua.json"))
                    and os.path.exists(os.path.join(d, "OK"))):
                todo.append(c)
        if todo:
            # prune old fact sets (keep disk bounded)
            fdir = os.path.join(CACHE, "facts")
            if os.path.isdir(fdir):
                olds = sorted((os.path.getmtime(os.path.join(fdir, n)), n) for n in os.listdir(fdir) if n != th)
                now = time.time()
                for mt, n in olds[:-6]:
                    # another check (a parallel run on a scratch copy) may be about to read a recent set: only sets that
                    # have not been touched for a while are dropped
                    if now - mt > 900:
                        shutil.rmtree(os.path.join(fdir, n), ignore_errors=True)
            if verbose:
                print(f"[extract] tree {th}: extracting configs {todo} from {root}", flush=True)
            with ThreadPoolExecutor(max_workers=min(len(todo), 5)) as ex:
                futs = [ex.submit(_run_one, c, os.path.join(base, c), root, os.path.join(base, c + ".log")) for c in
                        todo if not os.makedirs(base, exist_ok=True)]
                for f in futs:
                    c, ok, dt, tail = f.result()
                    if not ok:
                        sys.stderr.write(tail)
                        raise SystemExit(f"[extract] config {c}: build failed or fact files missing (fail closed)")
                    with open(os.path.join(base, c, "OK"), "w") as fh:
                        fh.write("ok")
                    if verbose:
                        print(f"[extract] config {c}: {dt:.1f}s", flush=True)
        elif verbose:
            print(f"[extract] tree {th}: cached facts for {list(configs)}", flush=True)
        try:
            os.utime(base, None)
        except OSError:
            pass
        return {c: [os.path.join(base, c, "stylua_lib.json"), os.path.join(base, c, "stylua.json")] for c in configs}, th


if __name__ == "__main__":
    tier = sys.argv[1] if len(sys.argv) > 1 else "quick"
    cfgs = THOROUGH if tier == "thorough" else QUICK
    r, th = extract(cfgs)
    print(th)
