"""C09 Range formatting touches only statements inside the range - static necessary conditions."""
import r_skip

EXPLANATION = (
    "(a) on the NotInRange edge of should_format_node, format_stmt / format_last_stmt only enter the stmt_block "
    "path; (b) every function on that path (stmt_block::*, format_last_stmt_block) calls only format_block, its own "
    "siblings and shape helpers - no node formatter, no trivia update, no token construction - so out-of-range "
    "statements are rebuilt from their original tokens; (c) format_block's shared post-processing is dominated by "
    "should_format_node == Normal; (R-EOF) format_eof returns its token unchanged unless Normal. Not decided: the "
    "byte-offset comparison itself, 'in-range statements equal the whole-file result' (layout).")
ASSUMPTIONS = ["to_owned/clone of a full_moon node reproduces its tokens and trivia verbatim",
               "rustc MIR and Instance::try_resolve are trusted"]


def run(ctx):
    return [r_skip.rule_skip_edge(ctx, "C09", statuses=("NotInRange",)), r_skip.rule_block_path(ctx, "C09"),
            r_skip.rule_post(ctx, "C09"), r_skip.rule_eof(ctx, "C09"),
            r_skip.rule_sort_guard(ctx, "C09", must_block=("NotInRange",))]
