"""C09 Range formatting touches only statements inside the range - static necessary conditions."""
import r_skip
import r_range
import r_indent
import p_c07
import r_raw

EXPLANATION = (
    "(a) on the NotInRange edge of should_format_node, format_stmt / format_last_stmt only enter the stmt_block "
    "path; (b) every function on that path (stmt_block::*, format_last_stmt_block) calls only format_block, its own "
    "siblings and shape helpers - no node formatter, no trivia update, no token construction - so out-of-range "
    "statements are rebuilt from their original tokens; (c) format_block's shared post-processing is dominated by "
    "should_format_node == Normal; (R-EOF) format_eof returns its token unchanged unless Normal. (R-RANGE) the byte-offset "
    "test itself: should_format_node touches the node offsets and the bounds through order comparisons only, so every "
    "ordering of (start, end, start bound, end bound) and every combination of present bounds is enumerated against "
    "the MIR paths and must yield NotInRange exactly when the node starts before the start bound or ends after the end "
    "bound. (R-INDENT) the block-indent level with which a nested block is reached, as an abstract level relative to "
    "the holding statement's shape (increment_block_indent = +1, level-preserving Shape methods classified from the MIR "
    "of shape.rs, captured shapes followed through closure aggregates, composed over the calls between the range-only "
    "visitor's functions): exactly +1 from both entries of the range-only visitor and at every format_block call of the "
    "ordinary formatters - the necessary condition for an in-range statement nested in an out-of-range one to get the "
    "indentation whole-file formatting gives it. Not decided: the rest of 'in-range statements equal the whole-file "
    "result' (layout; tables and hanging expressions add indent levels the range-only visitor does not model)."
    "Later rounds: (R-ONCE) no formatter is applied to a node that came out of a formatter (such nodes carry no source positions, so every range test on them answers NotInRange). Rounds 17-19: (R-SKIP(h)) an out-of-range statement found in a sequence is handed to the formatter that dispatches to the range-only visitor; (R-RANGE(toggle)).")
ASSUMPTIONS = ["to_owned/clone of a full_moon node reproduces its tokens and trivia verbatim",
               "rustc MIR and Instance::try_resolve are trusted"]


def run(ctx):
    return [r_skip.rule_skip_edge(ctx, "C09", statuses=("NotInRange",)), r_skip.rule_block_path(ctx, "C09"),
            r_skip.rule_post(ctx, "C09"), r_skip.rule_eof(ctx, "C09"),
            r_skip.rule_sort_guard(ctx, "C09", must_block=("NotInRange",)),
            r_range.rule_range(ctx, "C09"), r_indent.rule_indent(ctx, "C09"), r_skip.rule_field_walkers(ctx, "C09"), p_c07.rule_parse_input(ctx, "C09"), r_raw.rule_once(ctx, "C09"), r_skip.rule_descend(ctx, "C09"), r_range.rule_toggle_ignores_range(ctx, "C09")]
