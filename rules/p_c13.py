"""C13 `--check` never writes and its exit status tells the truth - static necessary conditions."""
import r_cli
import r_diff

EXPLANATION = (
    "Who-may-write / who-may-set-status analysis over the MIR of both crates in every feature configuration: "
    "(R-FS) the only file-system mutating call in stylua + stylua_lib is fs::write in format_file and it is "
    "dominated by the false edge of `opt.check`; (R-EXIT) EXIT_CODE is written only by the Diff arm (1) and by the "
    "logger under Level::Error (2), read after pool.join(), combined with panic_count()>0 -> 2 and handed to the "
    "single process::exit; (R-ATOMIC) no write can downgrade a 2; (R-ERRSTATUS) every path of the output thread that handles an Err result raises the status to 2. (R-VERIFYFLAG) OutputVerification::Full is chosen exactly under opt.verify - no other option takes part. (R-NODIFF) the functions that produce an optional diff take no decision through a floating-point comparison (a similarity ratio is not an equality test). Decides these structural clauses; does not decide "
    "that status 0 coincides with 'every file equals its formatted form' for the diff formats beyond that (depends on `similar`)."
    "Later rounds: (R-CHECKVERDICT) in check mode Complete only on create_diff's None, Diff only on its Some; (R-ERRSTATUS) every Err edge of the output thread raises the status to 2. Rounds 17-19 (after the F24 repair): (R-ERRSTATUS) only direct EXIT_CODE stores raise the status - unconditional under is_err() of the received result or inside the arm - in the output thread and for the walker's Err items; error!() does not count, its record may be filtered out by STYLUA_LOG; (R-EXACTREAD).")
ASSUMPTIONS = ["std/ignore/threadpool/env_logger behave as documented",
               "FS_MUTATORS in r_cli.py enumerates the std APIs that can mutate the file system",
               "rustc MIR and Instance::try_resolve are trusted"]


def run(ctx):
    return [r_cli.rule_fs(ctx, "C13"), r_cli.rule_exit(ctx, "C13"), r_cli.rule_atomic(ctx, "C13"), r_cli.rule_err_status(ctx, "C13"), r_cli.rule_nodiff(ctx, "C13"), r_cli.rule_verify_wiring(ctx, "C13"), r_diff.rule_none(ctx, "C13"), r_diff.rule_args(ctx, "C13"), r_cli.rule_check_verdict(ctx, "C13"), r_cli.rule_exact_read(ctx, "C13")]
