"""R-TRIVIAPAIR (C03): the GetTrailingTrivia and the UpdateTrailingTrivia implementation of one node type address the
same child under the same conditions.

Multi-line list layouts read a node's trailing comments with the getter, clear / re-attach them with the updater
(`format_contained_punctuated_multiline`, `format_punctuated_multiline`, the hanging paths). If the getter reads child A
where the updater writes child B, the comments that sit on B are never read and then overwritten - they vanish.
Decided here, per feature configuration: both impls are path-enumerated (paths.Enumerator); every returning path gives a
row  {condition on an accessor result / on self's variant} -> child whose trivia is read / written  (access path of the
receiver of the one `trailing_trivia` / `update_trailing_trivia` call on the path, `call:<block>` roots renamed to the
accessor they call). Any getter row and updater row whose conditions can hold together must name the same child - or one the sub-tree of the other, since either side may
delegate to the child's own impl where the other reaches into it (`end_token(x)` vs `x`). Rows are
compared semantically (compatible conditions), not textually, so nesting `if let` inside `match` or matching on a tuple
of the same accessors does not change the verdict. Rows with no or several such calls (generic impls, iterators) are not judged.
"""
import re
from engine import Report
from facts import callee
from paths import Enumerator, TooManyPaths, access_path, path_key

ROOT = re.compile(r"call:(\d+)")


def _norm(f, key, depth=0):
    """rename `call:<block>` roots to `<accessor>(<receiver>)` so that rows of two functions are comparable"""
    def sub(m):
        bi = int(m.group(1))
        t = f.blocks[bi]["term"]
        name = callee(t).split("::<")[0].split("::")[-1]
        recv = ""
        if t.get("args") and depth < 4:
            try:
                recv = _norm(f, path_key(access_path(f, t["args"][0])), depth + 1)
            except Exception:
                recv = "?"
        return f"{name}({recv})"
    return ROOT.sub(sub, key)


def _rows(f, pat):
    res = Enumerator(f, max_paths=20000).run()
    rows = []
    for st in res:
        tg = []
        for bi, c, t in st.calls:
            if pat.search(c) and t.get("args"):
                tg.append(_norm(f, path_key(access_path(f, t["args"][0]))))
        cond = {_norm(f, k): v for k, v in st.disc.items()}
        rows.append((cond, tg))
    return rows


def _compatible(a, b):
    for k in set(a) & set(b):
        x, y = a[k], b[k]
        if isinstance(x, str) and isinstance(y, str):
            if x != y:
                return False
        elif isinstance(x, str):
            if x in y[1]:
                return False
        elif isinstance(y, str):
            if y in x[1]:
                return False
    return True


def rule_trivia_pair(ctx, prop):
    rep = Report(prop, "R-TRIVIAPAIR", "the GetTrailingTrivia and UpdateTrailingTrivia impls of a node type address the same "
                                       "child under the same conditions (path tables compared row by row)")
    _sides(ctx, rep, "trailing", "Trailing")
    return rep


def _sides(ctx, rep, side, Side):
    getp = re.compile(r"(^|::|>::)%s_trivia$" % side)
    updp = re.compile(r"(^|::|>::)update_%s_trivia$" % side)
    for cfg, prog in ctx.programs.items():
        G, U = {}, {}
        for f in prog.fns("stylua_lib"):
            if f.impl_trait and f.impl_trait.endswith("Get%sTrivia" % Side) and f.path.endswith("::%s_trivia" % side):
                G[f.impl_self] = f
            if f.impl_trait and f.impl_trait.endswith("Update%sTrivia" % Side) and f.path.endswith("::update_%s_trivia" % side):
                U[f.impl_self] = f
        pairs = sorted(set(G) & set(U))
        judged = 0
        for k in pairs:
            g, u = G[k], U[k]
            try:
                gr, ur = _rows(g, getp), _rows(u, updp)
            except TooManyPaths:
                rep.note(f"{k}: too many paths, not judged @{cfg}")
                continue
            short = k.split("::")[-1]
            for gc, gt in gr:
                if len(gt) != 1 or "local:" in gt[0]:
                    continue    # unresolved receiver (a binding shared by an or-pattern): not judged
                for uc, ut in ur:
                    if len(ut) != 1 or "local:" in ut[0] or not _compatible(gc, uc):
                        continue
                    judged += 1
                    # one side may delegate to the child's own impl where the other reaches into it (`end_token(x)` vs `x`):
                    # the same subtree is what is required; the inner choice is judged at the inner type's own pair
                    ok = gt[0] == ut[0] or ut[0] in gt[0] or gt[0] in ut[0]
                    rep.inst(f"{short} getter {gt[0]} vs updater {ut[0]}", {"type": k, "getter": g.key, "updater": u.key}, cfg, ok=ok)
                    if not ok:
                        cond = ", ".join(f"{a}={b}" for a, b in sorted({**gc, **uc}.items()) if isinstance(b, str))
                        rep.violation(f"{g.key} getter-updater-child-mismatch {short} reads={gt[0]} writes={ut[0]}",
                                      f"for a {short} with [{cond}] Get{Side}Trivia reads the {side} trivia of `{gt[0]}` while "
                                      f"Update{Side}Trivia writes `{ut[0]}`: layouts that move {side} comments (read with the getter, "
                                      f"clear with the updater) delete the comments that sit on `{ut[0]}`", g.loc(), cfg,
                                      witness={"conditions": cond, "getter": g.key, "updater": u.key})
        rep.floor(f"{side} getter/updater pairs", len(pairs), FLOORS[side][0 if cfg in ("default", "nodefault", "lua52", "lua53", "lua54", "luajit") else 1], cfg)
        rep.floor(f"{side} compatible row pairs judged", judged, 8, cfg)


FLOORS = {"trailing": (4, 9), "leading": (4, 4)}


def rule_trivia_pair_leading(ctx, prop):
    rep = Report(prop, "R-TRIVIAPAIR(leading)", "the GetLeadingTrivia and UpdateLeadingTrivia impls of a node type address the "
                                                "same child under the same conditions (path tables compared row by row)")
    _sides(ctx, rep, "leading", "Leading")
    return rep
