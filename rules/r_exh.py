"""R-EXH / R-SUBSET: exhaustive handling of full_moon's (non_exhaustive) AST enums in every
feature configuration.

full_moon decides which variants exist (its own cfgs), StyLua decides which arms exist (its
own cfgs), and the mandatory wildcard arm is `panic!("unknown node")`/`unreachable!`. A variant
that exists in a configuration while its arm does not is a panic for every program that
contains that node on that path.
"""
from engine import Report
from facts import *

# Deliberate subset matches: (fn path regex, enum) -> (kind, detail).  Everything that is not
# listed here must have an empty fall-through set in every configuration.
#   'guarded'  : handled set must contain the set admitted by a guarding predicate (R-SUBSET)
#   'invariant': the value is restricted by construction; the reason is stated and the
#                construction site is checked by the named rule.
SUBSET_TABLE = [
    (r"^formatters::stmt::format_stmt_no_trivia$", "full_moon::ast::Stmt",
     ("guarded", "formatters::trivia_util::is_block_simple")),
    (r"^formatters::functions::block_contains_nested_function$", "full_moon::ast::Stmt",
     ("guarded", "formatters::trivia_util::is_block_simple")),
    (r"^formatters::block::prefix_remove_leading_newlines$", "full_moon::ast::Expression",
     ("invariant", "Lua grammar: the expression inside Prefix::Expression is always parenthesised "
                   "(full_moon parser); StyLua's own Prefix::Expression constructors are checked by R-VARIANT")),
    (r"^sort_requires::sort_requires$", "full_moon::ast::Stmt",
     ("invariant", "RequiresGroup lists are only filled from the LocalAssignment arm of "
                   "partition_nodes_into_groups (checked by R-GROUPFILL below)")),
    (r"^<verify_ast::AstVerifier as full_moon::visitors::VisitorMut>::visit_number$", "full_moon::tokenizer::TokenType",
     ("invariant", "full_moon's visitor calls visit_number only for TokenType::Number tokens")),
    (r"^<verify_ast::AstVerifier as full_moon::visitors::VisitorMut>::visit_string_literal$",
     "full_moon::tokenizer::TokenType",
     ("invariant", "full_moon's visitor calls visit_string_literal only for TokenType::StringLiteral tokens")),
]

FLOOR_MATCHES = {  # panicking-fall-through matches on full_moon enums per config (counted on the pinned tree)
    "default": 70, "luau": 83, "release": 84, "lua52": 70, "lua53": 71, "lua54": 71, "luajit": 70,
    "nodefault": 70, "all": 84,
}


def _subset_entry(path, enum):
    for rx, en, what in SUBSET_TABLE:
        if en == enum and re.search(rx, path):
            return what
    return None


def must_panic_variants(fn, bi, si, div):
    """variants of the switched enum whose edge can never reach a `return`."""
    res = []
    cache = {}
    alltargets = dict(si["targets"])
    for v in si["otherwise_variants"] or []:
        alltargets[v] = si["otherwise"]
    for v, bb in alltargets.items():
        if bb not in cache:
            cache[bb] = can_return(fn, bb, div)
        if not cache[bb]:
            res.append(v)
    # is the fall-through block itself panicking (even if no variant reaches it today)?
    ow = si["otherwise"]
    if ow not in cache:
        cache[ow] = can_return(fn, ow, div)
    return res, (not cache[ow])


def _panic_in(fn, start, div):
    """does the region reachable from `start` contain an explicit panic (not just `unreachable`)"""
    for b in fn.reach_from(start):
        t = fn.blocks[b]["term"]
        if is_panic_call(t):
            return True
        if t["k"] == "call" and f"{fn.crate}::{callee(t)}" in div:
            return True
    return False


def closure_parent_restriction(prog, fn, enum):
    """If `fn` is a closure whose every call site lies in a region reachable only through the
    fall-through edge of a switch on the same enum in the caller (the fmt_op! shape), return the
    set of variants that can reach it (intersection over call sites); else None."""
    if fn.kind != "Closure":
        return None
    sites = [(f, bi) for f, bi, t in call_sites(prog, re.compile("^" + re.escape(fn.path) + "$"), fn.crate)]
    if not sites:
        return None
    allowed = None
    for f, bi in sites:
        found = None
        for sb in f.dominators().get(bi, ()):
            si = switch_info(f, sb)
            if not si or si["enum"] != enum or si.get("unknown_adt"):
                continue
            ow = si["otherwise"]
            if ow in si["targets"].values():
                continue
            if f.pred[ow] != [sb]:
                continue
            if f.dominates(ow, bi):
                found = set(si["otherwise_variants"])
        if found is None:
            return None
        allowed = found if allowed is None else (allowed | found)
    return allowed


def admitted_by_predicate(pred_fn, enum):
    """variants V of `enum` for which the predicate's arm can yield `true`: the arm's region
    (not passing through the fall-through block) assigns the constant true."""
    out = set()
    found = False
    for bi in range(len(pred_fn.blocks)):
        si = switch_info(pred_fn, bi)
        if not si or si["enum"] != enum:
            continue
        found = True
        for v, bb in si["targets"].items():
            region = pred_fn.reach_from(bb, avoid={si["otherwise"]})
            ok = False
            for b in region:
                for s in pred_fn.blocks[b]["st"]:
                    if s["k"] == "assign" and s["rv"]["k"] == "use" and is_const(s["rv"]["o"]) and \
                            s["rv"]["o"].get("v") is True:
                        ok = True
            if ok:
                out.add(v)
    return out if found else None


def run_exh(ctx, prop, crates=("stylua_lib", "stylua")):
    rep = Report(prop, "R-EXH", "every match on a full_moon enum with a panicking wildcard handles every variant "
                                 "that exists in the feature configuration")
    sub = Report(prop, "R-SUBSET", "deliberate subset matches handle at least what their guarding predicate admits")
    for cfg, prog in ctx.programs.items():
        div = ctx.memo(("div", cfg), lambda: diverging_fns(prog))
        nmatch = 0
        seen_subset = set()
        for f in prog.fns():
            if f.crate not in crates:
                continue
            for bi in range(len(f.blocks)):
                if f.blocks[bi]["cleanup"] or bi not in f.reachable():
                    continue
                si = switch_info(f, bi)
                if not si or si.get("unknown_adt"):
                    continue
                a = prog.adt(si["enum"], f.crate)
                if a.get("crate") != "full_moon":
                    continue
                unhandled, ow_panics = must_panic_variants(f, bi, si, div)
                if not ow_panics and not unhandled:
                    continue
                if not _panic_in(f, si["otherwise"], div) and not unhandled:
                    continue
                nmatch += 1
                loc = f.loc(f.blocks[bi]["term"]["sp"])
                ikey = f"{f.key} enum={si['enum'].split('::')[-1]}"
                entry = _subset_entry(f.path, si["enum"])
                restr = closure_parent_restriction(prog, f, si["enum"])
                if restr is not None:
                    unhandled = [v for v in unhandled if v in restr]
                if entry is not None:
                    seen_subset.add((f.path, si["enum"]))
                    kind, detail = entry
                    handled = set(si["targets"]) - set(unhandled)
                    if kind == "guarded":
                        pf = prog.fn("stylua_lib", detail)
                        if not sub.anchor(pf is not None, f"predicate {detail}", cfg):
                            continue
                        adm = admitted_by_predicate(pf, si["enum"])
                        if not sub.anchor(adm is not None and len(adm) >= 3, f"admitted set of {detail}", cfg):
                            continue
                        missing = sorted(adm - handled)
                        sub.inst(f"{ikey} guarded-by={detail}",
                                 {"fn": f.key, "handled": sorted(handled), "admitted": sorted(adm), "at": loc},
                                 cfg, ok=not missing)
                        for v in missing:
                            sub.violation(f"{f.key} enum={si['enum'].split('::')[-1]} admitted-but-unhandled={v}",
                                          f"{detail} admits {si['enum']}::{v} but {f.path} panics on it "
                                          f"(handled: {sorted(handled)})", loc, cfg,
                                          {"admitted": sorted(adm), "handled": sorted(handled)})
                    else:
                        sub.inst(f"{ikey} invariant", {"fn": f.key, "reason": detail, "at": loc}, cfg)
                    continue
                rep.inst(ikey, {"fn": f.key, "enum": si["enum"], "handled": len(si["targets"]),
                                "fallthrough": unhandled, "at": loc}, cfg, ok=not unhandled)
                for v in unhandled:
                    rep.violation(f"{f.key} enum={si['enum'].split('::')[-1]} fallthrough={v}",
                                  f"{si['enum']}::{v} exists in configuration '{cfg}' but the match at {loc} "
                                  f"sends it to the panicking wildcard arm", loc, cfg,
                                  {"handled": sorted(si["targets"]), "fallthrough": unhandled})
        rep.floor("panicking-wildcard matches on full_moon enums", nmatch, FLOOR_MATCHES.get(cfg, 70) - 4, cfg)
        # every table entry must still exist (otherwise the table is stale -> fail closed)
        for rx, en, what in SUBSET_TABLE:
            hit = any(re.search(rx, p) and e == en for p, e in seen_subset)
            if not hit and what[0] == "guarded":
                # Goto arm only exists with lua52: the guarded matches exist in every config
                sub.anchor(False, f"subset match {rx} on {en}", cfg)
        # R-GROUPFILL: RequiresGroup lists only receive LocalAssignment statements
        _groupfill(prog, sub, cfg)
    return [rep, sub]


def _groupfill(prog, sub, cfg):
    f = prog.fn("stylua_lib", "sort_requires::partition_nodes_into_groups")
    if f is not None:
        from inline import inlined, small_helper
        f = inlined(prog, f, small_helper(prog, keep=r"extract_identifier_from_token$|get_expression_kind$"))
    if not sub.anchor(f is not None, "sort_requires::partition_nodes_into_groups", cfg):
        return
    # every construction of a BlockPartition::RequiresGroup happens in a loop iteration whose statement is known to be a
    # Stmt::LocalAssignment (path enumeration: the match may sit in a classifying helper that returns an Option)
    from paths import Enumerator, TooManyPaths, first_iteration
    agg_blocks = {}
    for bi, sidx, s in f.stmts():
        if s["k"] == "assign" and s["rv"]["k"] == "agg" and s["rv"].get("variant") == "RequiresGroup":
            agg_blocks[bi] = s
    sub.floor("RequiresGroup constructions", len(agg_blocks), 1, cfg)
    if not agg_blocks:
        return
    try:
        pres = Enumerator(f, summaries=False, max_visits=2, max_paths=60000, track_cmp=True).run()
    except TooManyPaths:
        sub.anchor(False, "partition_nodes_into_groups: too many paths", cfg)
        return
    nexts = [b for b, t in f.calls() if callee(t).endswith("Iterator>::next") or callee(t).endswith("Iterator::next")]
    n = 0
    bad = False
    lacking = set()

    def deep(o, depth=0, seen=None):
        seen = set() if seen is None else seen
        out = set()
        if depth > 10 or o is None or is_const(o):
            return out
        for r in provenance(f, o, through=None):
            if r[0] == "call" and r[2] not in seen:
                seen.add(r[2])
                out.add(r[1])
                tt = f.blocks[r[2]]["term"]
                if tt["args"]:
                    out |= deep(tt["args"][0], depth + 1, seen)
        return out

    def exactly_one(getter, calls1, hist1):
        """evidence on this iteration that `node.<getter>()` holds exactly one element: `len() == 1`, or an iterator over it
        that answered Some and then None"""
        for k, v in hist1:
            if k != "cmp":
                continue
            op, a, b, outcome = v
            if not ((op == "Eq" and outcome) or (op == "Ne" and not outcome)):
                continue
            for x, y in ((a, b), (b, a)):
                if is_const(y) and str(y.get("v")) in ("1", "1_usize") and not is_const(x):
                    cs = deep(x)
                    if any(c.endswith("::" + getter) for c in cs) and any(c.endswith("::len") for c in cs):
                        return True
        answers = []
        hd = {}
        for k, v in hist1:
            hd.setdefault(k, []).append(v)
        for b_, c_, t_ in calls1:
            if b_ in nexts and t_["args"] and any(c.endswith("::" + getter) for c in deep(t_["args"][0])):
                answers += [v for v in hd.get(f"call:{b_}", []) if v in ("Some", "None")]
        return "Some" in answers and "None" in answers[answers.index("Some"):]
    for st in pres:
        head = next((b for b, c, t in st.calls if b in nexts), None)
        if head is None:
            continue
        calls1, blocks1, hist1 = first_iteration(st, head)
        if not (blocks1 & set(agg_blocks)):
            continue
        n += 1
        if not any(v == "LocalAssignment" for k, v in hist1):
            bad = True
        for getter in ("names", "expressions"):
            if not exactly_one(getter, calls1, hist1):
                lacking.add(getter)
    sub.inst(f"{f.key} group members bind exactly one name to exactly one expression", {"paths": n}, cfg, ok=not lacking)
    for getter in sorted(lacking):
        sub.violation(f"{f.key} group-member-count-unchecked {getter}",
                      f"a statement is put into a requires group on a path that never establishes that its `{getter}()` list holds "
                      f"exactly one element: `local a, b = require(\"x\")` (or `local a = require(\"x\"), y`) becomes a group member "
                      f"keyed by its first name - it no longer closes the group and is moved by the sort", f.loc(), cfg)
    s0 = list(agg_blocks.values())[0]
    sub.inst(f"{f.key} RequiresGroup-construct", {"fn": f.key, "at": f.loc(s0["sp"]), "paths": n}, cfg, ok=not bad and n > 0)
    if bad or n == 0:
        sub.violation(f"{f.key} RequiresGroup-construct-unguarded",
                      "a RequiresGroup is built in an iteration whose statement is not known to be a LocalAssignment: "
                      "sort_requires's `_ => unreachable!()` becomes reachable", f.loc(s0["sp"]), cfg)
