"""C05 Parentheses are dropped only where they cannot matter - static decision over roles x contexts x kinds."""
import r_paren

EXPLANATION = (
    "The property is a statement about a finite decision structure, so this is close to a full static decision of "
    "its structural part: (a) the decision table T[context][inner kind] of check_excess_parentheses is extracted "
    "from MIR by enumerating all paths under discriminant constraints (no execution); (b) for every function that "
    "consults it, which contexts can reach the removal branch and with which context the inner expression is "
    "re-formatted after removal; (c) for every call site of a context-taking formatter (single-line, hanging, "
    "hang_binop_expression) the operand role (lhs of ^, lhs, rhs, unary operand, assertion operand, prefix, whole) "
    "and the context passed, closed under a fix-point over the call graph; each (role, context) reaching a gate is "
    "checked against a Lua/Luau grammar oracle Unsafe(role); (d) every constructor of a unary operator from a "
    "formatted operand tests for a leading minus. All feature configurations. Not decided: widths (which layout "
    "path a given input takes), multi-value positions beyond treating every whole expression as one."
    "Later rounds: The oracle also knows `Unary(op)[IfExpression|TypeAssertion]`: a unary operator over a greedy operand keeps its parentheses at every operator role.")
ASSUMPTIONS = ["the grammar oracle r_paren.unsafe() restates Lua 5.1-5.4/Luau operator precedence and multi-value "
               "truncation", "only `^` and `..` are right associative (BinOp::is_right_associative)",
               "rustc MIR and Instance::try_resolve are trusted"]


def run(ctx):
    return [r_paren.rule_paren(ctx, "C05"), r_paren.rule_condition_parens(ctx, "C05")]
