"""C02 Formatting never changes what the program means - static necessary conditions."""
import r_keep
import r_tree
import r_paren
import r_arms
import r_typaren
import r_regex
import r_opt
import r_layout

EXPLANATION = (
    "(R-VARIANT) for every formatter over a full_moon enum and every variant of every feature configuration, all paths "
    "return the same variant built from the same node (path enumeration; the only exceptions are call sugar, "
    "redundant parentheses and type parentheses, each governed by its own rule); (R-SYM) the literal written over a "
    "token is that token's lexeme (operators, keywords, separators); (R-PAREN a-c) the redundant-parenthesis decision "
    "is grammar safe at every operand role on every layout path; (R-SEMI) the semicolon requirement table; (R-TYPAREN) the Luau keep_parentheses(type, context) table keeps the parentheses the type grammar needs, each context mark sets the field of its name, and union / intersection / optional / variadic operands are formatted under their own mark on the single-line and the hanging path; (R-COND) "
    "condition parentheses are removed only from whole conditions. (R-ARMS) every arm that handles a feature-gated AST variant on the pinned tree (frozen table, 200+ arms; invisible to the default-feature suite and usually followed by a silent wildcard) is still present. (R-OPT(parens)) the call-sugar conversion drops parentheses only around exactly one argument of the right kind and builds the sugar node from that argument; (R-ELEMENT) a closure |&T| -> T that maps over child nodes builds each returned node from its own element, not from a captured parent / sibling; (R-REGEX) literals denote the same values: the escape / quote / number rewriting rules shared with C04. Not decided: token order inside every layout, "
    "anything depending on widths."
    "Later rounds: (R-COMMENTLAYOUT) nine confirmed sites where a comment test must force the hanging / multi-line layout, so no code is swallowed by a line comment there. Rounds 20-21: (R-KEEP(e)); (R-TYPAREN tuple clause); who may call remove_condition_parentheses. Round 23: (R-SEMI(last)) check_stmt_requires_semicolon and the block-formatter helpers it reaches never consult a non-last child (then-branch / condition of an if-expression, lhs of a binary operator, operand of a type assertion) when judging how the current statement ends.")
ASSUMPTIONS = ["the grammar oracle and lexeme tables restate Lua 5.1-5.4/Luau facts",
               "full_moon's Display of a node prints its tokens in field order",
               "rustc MIR and Instance::try_resolve are trusted"]


def run(ctx):
    return [r_tree.rule_variant(ctx, "C02"), r_tree.rule_sym(ctx, "C02"),
            r_paren.rule_paren(ctx, "C02", parts=("table", "oracle", "context-lost")),
            r_tree.rule_semi(ctx, "C02"), r_tree.rule_semi_last(ctx, "C02"), r_tree.rule_cond(ctx, "C02"), r_typaren.rule_typaren(ctx, "C02"), r_arms.rule_arms(ctx, "C02"),
            r_regex.rule_regex(ctx, "C02"), r_opt.rule_call_parens(ctx, "C02"), r_tree.rule_element(ctx, "C02"), r_tree.rule_simple_block(ctx, "C02"), r_paren.rule_condition_parens(ctx, "C02"), r_tree.rule_positional(ctx, "C02"), r_layout.rule_comment_layout(ctx, "C02"), r_keep.rule_getter_setter_fields(ctx, "C02")]
