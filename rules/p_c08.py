"""C08 `-- stylua: ignore` regions are reproduced verbatim - static necessary conditions."""
import r_guard
import r_skip
import r_directive
import r_range

EXPLANATION = (
    "Path enumeration / dominance over the MIR of every feature configuration: (a) in every single-node formatter "
    "that consults should_format_node (format_stmt, format_last_stmt, format_field, format_eof) the Skip edge returns "
    "a clone of the input node with no formatter call in between; (c) every post-processing call of format_block "
    "(leading-newline removal, trailing-trivia moves, semicolon rewriting) is dominated by should_format_node == "
    "Normal; (d) wherever should_format_node or a per-element formatter is applied along a sequence (block "
    "statements, table fields, require groups) the Context was produced by check_toggle_formatting, so ignore "
    "start/end regions are honoured; (R-DIRECTIVE) the detectors compare exactly the three directive texts with a "
    "trimmed line of the comment text of a leading trivia token (backward walk through iterator adaptors and closures), "
    "a match returns Skip / sets formatting_disabled true|false in the returned Context, and formatting_disabled "
    "makes should_format_node return Skip first. (R-RANGE(order)) NotInRange / Normal are answered only in blocks dominated by "
    "the exit of the leading-comment scan: an ignore directive wins over the formatting range. Not decided: the position of the reproduced slice in the output."
    "Later rounds: (R-SORTGUARD member walk) the statements shown to should_format_node are the items of an iterator over the whole require group. Rounds 17-19: (R-GUARD) frozen comment tests; (R-RANGE(toggle)) check_toggle_formatting takes no decision on the formatting range. Round 23: (R-SKIP(walk)) no closure that threads check_toggle_formatting is driven by a short-circuiting iterator method (any / all / find / take_while ...): the toggle walk visits every member of the sequence.")
ASSUMPTIONS = ["to_owned/clone of a full_moon node reproduces its tokens and trivia verbatim",
               "rustc MIR and Instance::try_resolve are trusted"]


def run(ctx):
    return [r_skip.rule_skip_edge(ctx, "C08", statuses=("Skip",)), r_skip.rule_post(ctx, "C08"),
            r_skip.rule_toggle(ctx, "C08"), r_skip.rule_sort_guard(ctx, "C08", must_block=("Skip",)),
            r_directive.rule_directive(ctx, "C08"), r_skip.rule_node_type(ctx, "C08"),
            r_range.rule_ignore_first(ctx, "C08"), r_skip.rule_toggle_chain(ctx, "C08"), r_skip.rule_toggle_walk_total(ctx, "C08"), r_skip.rule_field_walkers(ctx, "C08"), r_guard.rule_guard(ctx, "C08"), r_range.rule_toggle_ignores_range(ctx, "C08")]
