"""R-RAW: input trivia reaches the output only through the sanitiser (C10).

A single-line comment of a CRLF file carries its `\\r`; a block comment carries the input's newlines. `format_token`
(reached through load_token_trivia / format_token_reference / format_symbol / ...) is the only code that trims and
converts them. The rule is a summary-based taint analysis over the MIR of crate stylua_lib, no execution:

  * node rawness: a full_moon value is *raw* when the root of its receiver chain (accessors, to_owned, with_*,
    update_*_trivia, Option/iterator plumbing) is a parameter that some caller binds to raw input, and *clean* when the
    root is the result of a formatter (`formatters::*::format_*`), a constructor (TokenReference::new / symbol,
    Token::new, create_*_trivia) or a strip_* helper;
  * token rawness: a token collection (Vec<Token>, iterators over Token, tuples / options of those) is raw when it is
    derived from a raw node by any non-sanitising call, flows through iterator adaptors, closures (captured values and
    items), `push` / `extend` / `append`, tuples, `vec![..]`;
  * helpers and closures get summaries over symbolic labels (parameter i / captured value k), substituted at each call
    site; which parameters are really raw is the least fixpoint over all call sites, seeded at the public entry points;
  * sink: a raw token collection handed to FormatTriviaType::Append / Replace or to TokenReference::new.
"""
from engine import Report
from facts import *

TOK = re.compile(r"tokenizer::Token(?![A-Za-z])")
SANITISE = re.compile(r"(^|::)formatters::(?!stmt::stmt_block::)[a-z_]+(::[a-z_]+)?::format_[a-z_0-9]+$|"
                      r"(^|::)formatters::general::load_token_trivia$|(^|::)formatters::[a-z_]+::fmt_[a-z_]+$")
FRESH = re.compile(r"TokenReference::(new|symbol)$|Token::new$|create_[a-z_]*trivia$|TokenType::(spaces|tabs)$|"
                   r"(^|::)strip_[a-z_]*trivia$|(^|::)strip_trivia$|Vec::<.*>::new$|Vec::<T>::new$|Default>::default$")
MUTATORS = re.compile(r"::(push|extend|append|insert|extend_from_slice|push_back|push_front)$|Extend<.*>>::extend$")
RANGE_ONLY = re.compile(r"^formatters::stmt::stmt_block::|^formatters::block::format_last_stmt_block$")


def tokty(ty):
    return bool(TOK.search(ty))


GENERIC_NODE = re.compile(r"^&?(mut )?(Self|[A-Z]|impl .*Node.*)$")


def nodety(ty):
    return "full_moon::ast::" in ty or "TokenReference" in ty or "full_moon::node::" in ty or bool(GENERIC_NODE.search(ty))


class FnSummary:
    def __init__(self):
        self.tret = frozenset()     # labels flowing to a token-typed return value
        self.nret = frozenset()     # labels of the node returned (receiver-chain root)
        self.sinks = []             # [(block, kind, labels, sources)]
        self.calls = []             # [(block, callee fn key, [labels per arg])] for the parameter fixpoint


class Analysis:
    def __init__(self, prog):
        self.prog = prog
        self.fns = {f.path: f for f in prog.fns("stylua_lib")}
        self.summ = {}
        self.busy = set()

    # -------------------------------------------------------------------------------------------------------------
    def local_fn(self, t):
        for nm in (callee(t), callee_full(t) if "callee_full" in globals() else None):
            if nm and nm in self.fns:
                return self.fns[nm]
        return None

    def summary(self, f):
        if f.path in self.summ:
            return self.summ[f.path]
        if f.path in self.busy:
            return FnSummary()
        self.busy.add(f.path)
        s = self._analyse(f)
        self.busy.discard(f.path)
        self.summ[f.path] = s
        return s

    # -------------------------------------------------------------------------------------------------------------
    def _analyse(self, f):
        S = FnSummary()
        nmemo = {}

        def closure_of(o):
            for r in provenance(f, o, through=None, into_aggs=False):
                if r[0] == "agg" and r[1].startswith("closure "):
                    nm = r[1][len("closure "):]
                    # closures of a helper that was inlined away keep their old name in the aggregate (alias)
                    g = self.fns.get(nm) or self.prog.fn("stylua_lib", nm)
                    if g is not None:
                        for s_ in f.blocks[r[2]]["st"]:
                            if s_["k"] == "assign" and s_["rv"]["k"] == "agg" and s_["rv"].get("closure") in (g.path, nm):
                                return g, s_["rv"]["ops"]
            return None, None

        def node_labels(o, depth=0):
            """labels of the receiver-chain root(s) of a node-valued operand"""
            if o is None or is_const(o) or depth > 30:
                return frozenset()
            pl = op_place(o)
            key = (pl["l"], tuple(str(e) for e in pl.get("p", [])))
            if key in nmemo:
                return nmemo[key]
            nmemo[key] = frozenset()
            out = set()
            it = _iter_item(f, o)
            if it is not None:
                res = frozenset().union(*[node_labels(x, depth + 1) for x in it]) if it else frozenset()
                nmemo[key] = res
                return res
            if f.kind == "Closure" and pl["l"] == 1:
                fs = [e["f"] for e in pl.get("p", []) if isinstance(e, dict) and "f" in e]
                if fs:
                    out.add(("u", int(fs[0])))
                    nmemo[key] = frozenset(out)
                    return nmemo[key]
            l = pl["l"]
            ds = f.defs().get(l, [])
            if 1 <= l <= f.argc and not (f.kind == "Closure" and l == 1):
                out.add(("p", l))
            for bi, si, st_ in ds:
                if si != "term":
                    rv = st_["rv"]
                    if rv["k"] in ("use", "cast", "repeat"):
                        out |= node_labels(rv["o"], depth + 1)
                    elif rv["k"] in ("ref", "rawptr"):
                        out |= node_labels({"cp": rv["p"]}, depth + 1)
                    elif rv["k"] == "agg" and "closure" not in rv:
                        for x in rv["ops"]:
                            if not is_const(x):
                                xty = f.local_ty(op_place(x)["l"])
                                if nodety(xty) or tokty(xty):
                                    out |= node_labels(x, depth + 1)
                    continue
                t = st_
                c = callee(t)
                if SANITISE.search(c) or FRESH.search(c):
                    continue
                h = self.local_fn(t)
                if h is not None and h.kind != "Closure" and not RANGE_ONLY.search(h.path):
                    hs = self.summary(h)
                    labs = hs.nret | hs.tret
                    for lb in labs:
                        if lb[0] == "p" and lb[1] - 1 < len(t["args"]):
                            out |= node_labels(t["args"][lb[1] - 1], depth + 1)
                    continue
                if re.search(r"(Option|Result)::<.*>::(map|and_then|map_or|map_or_else|then|unwrap_or_else|or_else)$|"
                             r"(Option|Result)::<T(, E)?>::(map|and_then|map_or|map_or_else|unwrap_or_else|or_else)$|Pair::<T>::map$|"
                             r"Iterator::map$", c):
                    g, cops = closure_of(t["args"][-1])
                    if g is not None and nodety(g.locals[0]):
                        gs = self.summary(g)
                        for lb in gs.nret | gs.tret:
                            if lb[0] == "u" and lb[1] < len(cops):
                                out |= node_labels(cops[lb[1]], depth + 1)
                            elif lb[0] == "p":
                                out |= node_labels(t["args"][0], depth + 1)
                        continue
                for a in t["args"]:
                    if is_const(a):
                        continue
                    ty = f.local_ty(op_place(a)["l"])
                    if nodety(ty) or tokty(ty) or a is t["args"][0]:
                        out |= node_labels(a, depth + 1)
            nmemo[key] = frozenset(out)
            return nmemo[key]

        TL = {}
        SRC = {}

        def tl(o):
            if o is None or is_const(o):
                return frozenset()
            pl = op_place(o)
            if f.kind == "Closure" and pl["l"] == 1:
                fs = [e["f"] for e in pl.get("p", []) if isinstance(e, dict) and "f" in e]
                if fs:
                    return frozenset({("u", int(fs[0]))})
            return TL.get(pl["l"], frozenset())

        def both(a):
            """labels of an argument: a token collection answers with its tracked token labels (which know about
            sanitising closures); a node answers with the root(s) of its receiver chain"""
            if a is None or is_const(a):
                return frozenset()
            ty = f.local_ty(op_place(a)["l"])
            if tokty(ty) and not nodety(ty.replace("TokenReference", "").replace("tokenizer::Token", "")):
                return tl(a)
            return tl(a) | node_labels(a)

        def add(l, labs, src=None):
            if not labs:
                return False
            cur = TL.get(l, frozenset())
            new = cur | labs
            if src:
                SRC.setdefault(l, set()).update(src)
            if new != cur:
                TL[l] = new
                return True
            return False

        for i in range(1, f.argc + 1):
            if f.kind == "Closure" and i == 1:
                continue
            if tokty(f.locals[i]) and not nodety(f.locals[i]):
                TL[i] = frozenset({("p", i)})
        changed = True
        rounds = 0
        lifted_sinks = {}
        while changed and rounds < 12:
            changed = False
            rounds += 1
            for b, si_, s in f.stmts():
                if s["k"] != "assign":
                    continue
                d = s["dst"]["l"]
                rv = s["rv"]
                labs = frozenset()
                src = set()
                if rv["k"] in ("use", "cast", "repeat"):
                    labs = tl(rv["o"])
                    if not is_const(rv["o"]):
                        src = SRC.get(op_place(rv["o"])["l"], set())
                elif rv["k"] in ("ref", "rawptr"):
                    labs = tl({"cp": rv["p"]})
                    src = SRC.get(rv["p"]["l"], set())
                elif rv["k"] == "agg" and "closure" not in rv:
                    for x in rv["ops"]:
                        labs |= tl(x)
                        if not is_const(x):
                            src |= SRC.get(op_place(x)["l"], set())
                if labs and (tokty(f.local_ty(d)) or not nodety(f.local_ty(d))):
                    changed |= add(d, labs, src)
                    if s["dst"].get("p"):
                        # a write through a pointer (`vec![a, b]` fills a fresh Box through `*ptr`): the owner of the
                        # pointee holds the value too
                        for bi2, si2, s2 in f.defs().get(d, []):
                            if si2 != "term" and s2["rv"]["k"] in ("cast", "use", "ref", "rawptr"):
                                src_pl = op_place(s2["rv"]["o"]) if s2["rv"]["k"] in ("cast", "use") else s2["rv"]["p"]
                                if src_pl and not is_const(s2["rv"].get("o", {})):
                                    changed |= add(src_pl["l"], labs, src)
            for b, t in f.calls():
                c = callee(t)
                if "p" in t["dst"]:
                    continue
                d = t["dst"]["l"]
                dty = f.local_ty(d)
                if SANITISE.search(c) or FRESH.search(c):
                    continue
                args = t["args"]
                # mutation through &mut receiver
                if MUTATORS.search(c) and len(args) >= 2 and not is_const(args[0]):
                    tgt = None
                    for r in provenance(f, args[0], through=None, into_aggs=False):
                        pass
                    ds = f.defs().get(op_place(args[0])["l"], [])
                    if len(ds) == 1 and ds[0][1] != "term" and ds[0][2]["rv"]["k"] == "ref" and not ds[0][2]["rv"]["p"].get("p"):
                        tgt = ds[0][2]["rv"]["p"]["l"]
                        # `&mut *(&mut v)` chains
                        ds2 = f.defs().get(tgt, [])
                        while len(ds2) == 1 and ds2[0][1] != "term" and ds2[0][2]["rv"]["k"] == "ref":
                            tgt = ds2[0][2]["rv"]["p"]["l"]
                            ds2 = f.defs().get(tgt, [])
                    if tgt is not None:
                        labs = frozenset()
                        src = set()
                        for a in args[1:]:
                            labs |= tl(a)
                            if not is_const(a):
                                src |= SRC.get(op_place(a)["l"], set())
                            g, cops = closure_of(a)
                        changed |= add(tgt, labs, src)
                    continue
                if not tokty(dty):
                    # a node-valued or scalar result: not tracked as a token collection
                    # (closures passed here may still contain sinks: lift them)
                    for a in args:
                        g, cops = closure_of(a)
                        if g is not None:
                            self._lift(f, b, g, cops, args, both, lifted_sinks, SRC)
                    continue
                labs = frozenset()
                src = set()
                h = self.local_fn(t)
                if h is not None and h.kind == "Closure" and len(args) == 2 and not is_const(args[1]):
                    # a local closure called directly: (env, (a1, .., an)); its summary speaks of its own parameters
                    # (2..) and captured values
                    hs = self.summary(h)
                    tup = None
                    for bi2, si2, s2 in f.defs().get(op_place(args[1])["l"], []):
                        if si2 != "term" and s2["rv"]["k"] == "agg" and "tuple" in s2["rv"]:
                            tup = s2["rv"]["ops"]
                    g2, cops = closure_of(args[0])
                    for lb in hs.tret:
                        if lb[0] == "p" and tup is not None and 0 <= lb[1] - 2 < len(tup):
                            labs |= both(tup[lb[1] - 2])
                        elif lb[0] == "u" and cops is not None and lb[1] < len(cops):
                            labs |= both(cops[lb[1]])
                    if labs:
                        src.add("closure")
                elif h is not None and h.kind != "Closure" and not RANGE_ONLY.search(h.path):
                    hs = self.summary(h)
                    for lb in hs.tret:
                        if lb[0] == "p" and lb[1] - 1 < len(args):
                            a = args[lb[1] - 1]
                            got = both(a)
                            if got:
                                labs |= got
                                src.add(h.path.split("::")[-1])
                else:
                    closure_decides = False
                    recv_labs = frozenset()
                    recv_src = set()
                    for ai, a in enumerate(args):
                        if is_const(a):
                            continue
                        aty = f.local_ty(op_place(a)["l"])
                        g, cops = closure_of(a)
                        if g is not None:
                            gs = self.summary(g)
                            sub = self._subst(gs.tret, cops, args, both)
                            labs |= sub
                            if sub:
                                pass
                            self._lift(f, b, g, cops, args, both, lifted_sinks, SRC)
                            if tokty(g.locals[0]):
                                closure_decides = True
                            continue
                        got = tl(a)
                        gsrc = set(SRC.get(op_place(a)["l"], set())) if got else set()
                        if nodety(aty) and not tokty(aty.replace("TokenReference", "")):
                            nl = node_labels(a)
                            if nl:
                                gsrc.add(c.split("::")[-1])
                            got = got | nl
                        if ai == 0 and re.search(r"Iterator::(map|flat_map|filter_map|scan)$|Option::<.*>::(map|and_then)$", c):
                            # the items of the receiver reach the result only through the closure (`p` labels of its
                            # summary stand for them): kept aside, used when the closure hands its argument on
                            recv_labs, recv_src = got, gsrc
                            continue
                        labs |= got
                        src |= gsrc
                    if recv_labs:
                        if closure_decides:
                            # closure summaries substitute every `p` label by all arguments: redo it for the receiver only
                            for a in args:
                                g, cops = closure_of(a)
                                if g is not None and any(lb[0] == "p" for lb in self.summary(g).tret):
                                    labs |= recv_labs
                                    src |= recv_src
                        else:
                            labs |= recv_labs
                            src |= recv_src
                changed |= add(d, labs, src)
        # sinks
        for b, si_, s in f.stmts():
            if s["k"] == "assign" and s["rv"]["k"] == "agg" and s["rv"].get("adt", "").endswith("FormatTriviaType") \
                    and s["rv"].get("variant") in ("Append", "Replace") and s["rv"]["ops"]:
                o = s["rv"]["ops"][0]
                labs = tl(o)
                if labs and not _formatted_later(f, s["dst"]["l"]):
                    # the node the tokens are attached to: attaching raw tokens to a node that is itself raw changes nothing
                    recv = frozenset()
                    found = False
                    for u in forward_uses(f, s["dst"]["l"]):
                        if u[0] == "call" and re.search(r"update_(leading_|trailing_)?trivia$", callee(u[2])) and u[3] >= 1:
                            found = True
                            recv |= node_labels(u[2]["args"][0])
                    S.sinks.append((b, s["rv"]["variant"], labs, frozenset(SRC.get(op_place(o)["l"], set())), s.get("sp"),
                                    recv if found else None))
        for b, t in f.calls():
            if re.search(r"TokenReference::new$", callee(t)) and len(t["args"]) == 3:
                labs = tl(t["args"][0]) | tl(t["args"][2])
                if labs:
                    srcs = set()
                    for a in (t["args"][0], t["args"][2]):
                        if not is_const(a):
                            srcs |= SRC.get(op_place(a)["l"], set())
                    S.sinks.append((b, "TokenReference::new", labs, frozenset(srcs), t.get("sp"), None))
        for k, v in lifted_sinks.items():
            S.sinks.append(v)
        if tokty(f.locals[0]):
            S.tret = TL.get(0, frozenset())
        if nodety(f.locals[0]) and not SANITISE.search(f.path):
            S.nret = node_labels({"cp": {"l": 0}})
        # calls to local functions: argument labels (for the parameter fixpoint)
        for b, t in f.calls():
            h = self.local_fn(t)
            if h is None or h.kind == "Closure":
                continue
            al = []
            for a in t["args"]:
                al.append(both(a))
            S.calls.append((b, h.path, al))
        # functions handed over as values (`pair.map(var_remove_leading_newline)`, a formatter passed to
        # format_punctuated): their parameters receive what the other arguments of that call hold
        for b, t in f.calls():
            for a in t["args"]:
                if is_const(a) and a.get("fn"):
                    h = self.fns.get(a.get("rfn") or a["fn"]) or self.fns.get(a["fn"])
                    if h is None or h.kind == "Closure":
                        continue
                    labs = frozenset()
                    for a2 in t["args"]:
                        if not is_const(a2):
                            labs |= both(a2)
                    S.calls.append((b, h.path, [labs] * h.argc))
        S.src = SRC
        S.tl = dict(TL)
        return S

    def _subst(self, labels, cops, args, both):
        out = frozenset()
        for lb in labels:
            if lb[0] == "u" and cops is not None and lb[1] < len(cops):
                out |= both(cops[lb[1]])
            elif lb[0] == "p" and lb[1] >= 2:
                # an item of the adaptor's receiver (or any other token / node argument of the call)
                for a in args:
                    if is_const(a):
                        continue
                    out |= both(a)
        return out

    def _lift(self, f, b, g, cops, args, both, lifted, SRC):
        gs = self.summary(g)
        for (gb, kind, labs, srcs, sp, recv) in gs.sinks:
            rest = [a for a in args if self._not_closure(f, a)]
            sub = self._subst(labs, cops, rest, both)
            if sub:
                rsub = None if recv is None else self._subst(recv, cops, rest, both)
                lifted[(g.path, gb, kind)] = (b, kind, sub, srcs, sp, rsub)

    def _not_closure(self, f, a):
        if is_const(a):
            return False
        return "closure@" not in f.local_ty(op_place(a)["l"])


def _iter_item(f, o):
    """`for (i, (a, b)) in xs.zip(ys).enumerate()`: the operands the selected component of the loop item comes from
    (a list, possibly empty for the index), or None when `o` is not such a component"""
    from paths import access_path
    try:
        root, steps = access_path(f, o)
    except Exception:
        return None
    if root[0] != "call":
        return None
    t = f.blocks[root[1]]["term"]
    if not re.search(r"Iterator>?::next(_back)?$", callee(t)) or not t["args"]:
        return None
    steps = [st for st in steps]
    if steps[:2] != [("v", "Some"), ("f", "0")]:
        return None
    rest = [st[1] for st in steps[2:] if st[0] == "f"]
    cur = t["args"][0]
    for _ in range(12):
        rs = [r for r in provenance(f, cur, through=None, into_aggs=False) if r[0] == "call"]
        if len(rs) != 1:
            return [cur]
        t2 = f.blocks[rs[0][2]]["term"]
        c2 = callee(t2)
        if re.search(r"Iterator::enumerate$", c2):
            if rest and rest[0] == "0":
                return []
            if rest and rest[0] == "1":
                rest = rest[1:]
            cur = t2["args"][0]
        elif re.search(r"Iterator::zip$", c2):
            if rest and rest[0] in ("0", "1"):
                cur = t2["args"][int(rest[0])]
                rest = rest[1:]
            else:
                return [t2["args"][0], t2["args"][1]]
        elif re.search(r"IntoIterator>::into_iter$|::iter$|::into_pairs$|::pairs$|Iterator::(rev|skip|peekable|by_ref|cloned|copied)$|"
                       r"::iter_mut$|::pairs_mut$", c2) and t2["args"]:
            cur = t2["args"][0]
        else:
            return [cur]
    return [cur]


def _formatted_later(f, local, depth=0, seen=None):
    """every consumer of the value (a FormatTriviaType, then the node updated with it) ends in a formatter call:
    `format_x(ctx, &node.update_trailing_trivia(Append(raw)), ..)` sanitises the attached tokens afterwards"""
    seen = set() if seen is None else seen
    if local in seen or depth > 12:
        return True
    seen.add(local)
    uses = forward_uses(f, local)
    if not uses:
        return False
    for u in uses:
        if u[0] == "ret":
            return False
        if u[0] == "call":
            t = u[2]
            c = callee(t)
            if SANITISE.search(c):
                continue
            if "p" in t["dst"]:
                return False
            dty = f.local_ty(t["dst"]["l"])
            if nodety(dty) or "FormatTriviaType" in dty:
                if not _formatted_later(f, t["dst"]["l"], depth + 1, seen):
                    return False
                continue
            return False
        if u[0] == "agg":
            continue          # forward_uses already follows the aggregate's destination
        return False
    return True


def _agg_dsts(f, o):
    return {s["dst"]["l"] for b, si_, s in f.stmts() if s["k"] == "assign" and s["rv"]["k"] == "agg"}


def param_fixpoint(an, prog):
    """PR: (fn path, arg index) -> really raw, least fixpoint over call sites, seeded at entry points"""
    fns = [f for f in prog.fns("stylua_lib") if f.kind != "Closure"]
    called = set()
    for f in fns:
        for b, h, al in an.summary(f).calls:
            called.add(h)
    # calls made from closures count for their top-level owner
    clos = [f for f in prog.fns("stylua_lib") if f.kind == "Closure"]
    for g in clos:
        for b, h, al in an.summary(g).calls:
            called.add(h)
    PR = set()
    for f in fns:
        if f.path not in called or f.path in ("format_ast", "formatters::block::format_block"):
            for i in range(1, f.argc + 1):
                if nodety(f.locals[i]) or tokty(f.locals[i]):
                    PR.add((f.path, i))
    # closures: their labels are resolved in the owner; for the fixpoint treat a closure's own params / upvars as raw
    # whenever its owner has any raw parameter (over-approximation used only to decide callee parameters)
    owner_raw = lambda path: any(p == path.split("::{closure")[0] for p, i in PR)
    changed = True
    while changed:
        changed = False
        for f in fns + clos:
            s = an.summary(f)
            for b, h, al in s.calls:
                for i, labs in enumerate(al, start=1):
                    if (h, i) in PR:
                        continue
                    raw = False
                    for lb in labs:
                        if f.kind == "Closure":
                            raw = raw or owner_raw(f.path)
                        elif lb[0] == "p" and (f.path, lb[1]) in PR:
                            raw = True
                    if raw:
                        PR.add((h, i))
                        changed = True
    return PR


def rule_raw(ctx, prop, known_ok=()):
    rep = Report(prop, "R-RAW", "token collections taken from raw input nodes reach FormatTriviaType::Append/Replace or "
                                "TokenReference::new only through format_token / load_token_trivia")
    for cfg, prog in ctx.programs.items():
        an = Analysis(prog)
        PR = param_fixpoint(an, prog)
        nsink = 0
        nfn = 0
        for f in prog.fns("stylua_lib"):
            if f.kind == "Closure" or not f.path.startswith("formatters::") or RANGE_ONLY.search(f.path):
                continue
            s = an.summary(f)
            nfn += 1
            for (b, kind, labs, srcs, sp, recv) in s.sinks:
                nsink += 1
                raw_params = sorted(lb[1] for lb in labs if lb[0] == "p" and (f.path, lb[1]) in PR)
                recv_raw = recv is not None and any(lb[0] == "p" and (f.path, lb[1]) in PR for lb in recv)
                # appending raw tokens to a node that is itself raw changes nothing (it is formatted later or judged where
                # it is used); replacing the trivia of a raw token-like node makes the given tokens its trivia for good
                ok = not raw_params or (recv_raw and kind == "Append")
                names = [f.names.get(i, f"_{i}") if hasattr(f, "names") and isinstance(f.names, dict) else f"_{i}" for i in raw_params]
                rep.inst(f"{f.key} {kind} of tokens from {sorted(srcs) or ['?']}", {"raw_params": raw_params, "at": f.loc(sp)}, cfg, ok=ok)
                if not ok:
                    rep.violation(f"{f.key} raw-trivia-attached via={','.join(sorted(srcs)) or '?'} kind={kind} from=arg{','.join(map(str, raw_params))}",
                                  f"{f.path} attaches tokens taken from its unformatted argument(s) {raw_params} (through "
                                  f"{sorted(srcs)}) to the output with {kind} without passing them through format_token / "
                                  f"load_token_trivia: a line comment of a CRLF file keeps its `\\r`, a block comment its input "
                                  f"newlines, whatever line_endings says", f.loc(sp), cfg)
        rep.floor("functions analysed", nfn, 150, cfg)
        rep.floor("trivia sinks fed by tracked token collections", nsink, 10, cfg)
    return rep


COMMENT_KINDS = ("SingleLineComment", "MultiLineComment", "Shebang")


def rule_sanitiser(ctx, prop):
    """what R-RAW relies on: format_token really rewrites every comment token, for every FormatTokenType"""
    from paths import Enumerator, TooManyPaths
    rep = Report(prop, "R-RAW(sanitiser)", "every path of format_token that can be taken by a comment / shebang token rebuilds "
                                           "the token from its trimmed / newline-converted text, whatever the FormatTokenType")
    for cfg, prog in ctx.programs.items():
        f = prog.fn("stylua_lib", "formatters::general::format_token")
        if not rep.anchor(f is not None, "format_token", cfg):
            continue
        kinds = prog.variants("full_moon::tokenizer::TokenType", "stylua_lib") or []
        others = [k for k in kinds if k not in COMMENT_KINDS]

        def kind_of(st):
            """set of token kinds the path can be taken by"""
            poss = set(kinds)
            for k, v in list(st.disc.items()) + [(k, v) for k, v in st.hist]:
                if isinstance(v, str) and v in kinds:
                    poss &= {v}
                elif isinstance(v, tuple) and v and v[0] == "not" and set(v[1]) & set(kinds):
                    poss -= set(v[1])
            return poss
        try:
            res = Enumerator(f, max_paths=60000, prune=lambda st, bi: not (kind_of(st) & set(COMMENT_KINDS))).run()
        except TooManyPaths:
            rep.anchor(False, "format_token: too many paths", cfg)
            continue
        n = 0
        bad = {}
        for st in res:
            poss = kind_of(st) & set(COMMENT_KINDS)
            if not poss:
                continue
            n += 1
            trail = set(st.trail)
            aggs = [s_["rv"]["variant"] for b_, si_, s_ in f.stmts() if b_ in trail and s_["k"] == "assign" and s_["rv"]["k"] == "agg"
                    and s_["rv"].get("adt", "").endswith("TokenType") and s_["rv"].get("variant") in COMMENT_KINDS]
            cleaned = any(re.search(r"format_single_line_comment_string$|<impl str>::(replace|trim_end|trim)$|str::replace$", c)
                          for _, c, _ in st.calls)
            if not (aggs and cleaned):
                ft = sorted({str(v) for k, v in st.hist if isinstance(v, str) and v in ("Token", "LeadingTrivia", "TrailingTrivia")})
                bad.setdefault((tuple(sorted(poss)), tuple(ft)), st)
        rep.inst(f"{f.key} comment tokens are always rebuilt from sanitised text", {"comment_paths": n}, cfg, ok=not bad)
        for (poss, ft), st in sorted(bad.items())[:3]:
            rep.violation(f"{f.key} comment-token-returned-unsanitised kinds={','.join(poss)} format_type={','.join(ft) or 'any'}",
                          f"format_token has a path for {list(poss)} tokens (FormatTokenType {list(ft) or 'any'}) that returns the token "
                          f"without trimming / converting its text: comments moved by the formatter (format_moved_comment) and "
                          f"trivia formatted with that type keep the input's carriage returns", f.loc(), cfg)
        rep.floor("format_token paths taken by comment tokens", n, 3, cfg)
    return rep


FORMATTERS = re.compile(SANITISE.pattern + r"|(^|::)formatters::[a-z_]+::hang_(expression|expression_trailing_newline|punctuated_list|type_info)$")
NEUTRAL = re.compile(r"to_owned$|Clone>::clone$|update_(leading_|trailing_)?trivia$|::with_[a-z_]+$|Deref>::deref$|Box::<.*>::new$|"
                     r"AsRef.*as_ref$|Borrow.*borrow$|Option::<.*>::(unwrap|expect|as_ref)$")


def _formatted_root(f, o, depth=0, seen=None, params=None):
    """the formatter call a node value came out of (through clones, trivia updates, with_*(), the items of an iterator
    over a formatted list), or None; `params` maps parameter locals to the formatter their value came out of"""
    seen = set() if seen is None else seen
    if is_const(o) or depth > 12:
        return None
    l = op_place(o)["l"]
    if params and l in params:
        return params[l]
    items = _iter_item(f, o)
    if items is not None:
        for it in items:
            r = _formatted_root(f, it, depth + 1, seen, params)
            if r:
                return r
        return None
    if l in seen:
        return None
    seen.add(l)
    for bi, si, s in f.defs().get(l, []):
        if si == "term":
            c = callee(s)
            if FORMATTERS.search(c):
                return c
            if NEUTRAL.search(c) and s["args"]:
                r = _formatted_root(f, s["args"][0], depth + 1, seen, params)
                if r:
                    return r
        else:
            rv = s["rv"]
            if rv["k"] in ("use", "cast") and not is_const(rv["o"]):
                r = _formatted_root(f, rv["o"], depth + 1, seen, params)
                if r:
                    return r
            elif rv["k"] == "ref":
                r = _formatted_root(f, {"cp": rv["p"]}, depth + 1, seen, params)
                if r:
                    return r
    return None


VALUE_ADAPTORS = re.compile(r"Pair::<.*>::map$|Pair<.*>::map$|Option::<.*>::(map|and_then|map_or|map_or_else)$")


def _closure_params(prog, g):
    """a closure handed to Pair::map / Option::map receives the receiver's value: when that value came out of a
    formatter, so did the closure's parameter"""
    from r_directive import _closure_site
    if "{closure" not in g.path or g.argc < 2:
        return None
    site = _closure_site(prog, g)
    if site is None:
        return None
    parent, t = site
    if not VALUE_ADAPTORS.search(callee(t)) or not t["args"]:
        return None
    r = _formatted_root(parent, t["args"][0], params=_closure_params(prog, parent))
    return {2: r} if r else None


def rule_once(ctx, prop):
    """a node is formatted once: the tokens a formatter builds carry no source position (byte 0), so a second formatter
    run over them takes the range test, the ignore scan and every position-based decision on meaningless data"""
    rep = Report(prop, "R-ONCE", "no formatter (format_* / hang_expression* / hang_punctuated_list / hang_type_info) is applied "
                                 "to a node that already came out of a formatter")
    for cfg, prog in ctx.programs.items():
        n = nparams = 0
        for f in prog.fns("stylua_lib"):
            if not f.path.startswith("formatters::"):
                continue
            params, n_f = None, 0
            for b, t in f.calls():
                c = callee(t)
                if not FORMATTERS.search(c):
                    continue
                if n_f == 0:
                    params = _closure_params(prog, f)
                    nparams += 1 if params else 0
                n_f += 1
                n += 1
                for i, a in enumerate(t["args"]):
                    if is_const(a) or not nodety(f.local_ty(op_place(a)["l"])):
                        continue
                    r = _formatted_root(f, a, params=params)
                    if r:
                        rep.violation(f"{f.key} formatted-node-formatted-again {c.split('::')[-1]}<-{r.split('::')[-1]}",
                                      f"{f.path} hands {c} a node that came out of {r}: its tokens were rebuilt without source "
                                      f"positions, so under a formatting range should_format_node answers NotInRange for them "
                                      f"(format_field then reaches unreachable!()), and ignore / toggle comments are judged twice",
                                      f.loc(t["sp"]), cfg)
        rep.inst("formatter call sites receive unformatted nodes", {"call_sites": n, "closures_given_formatted_values": nparams}, cfg, ok=True)
        rep.floor("formatter call sites", n, 200, cfg)
    return rep
