"""A small symbolic evaluator for strings built from one input text T and constants (no execution).

`sym(f, operand, trail)` describes the string an operand denotes on one enumerated path (trail = blocks of the path)
as a list of pieces:
    ('lit', s)        a constant
    ('T', k)          the input text from byte k on:  T[k..]
    ('Tp', k, lit)    T[k + len(lit)..], obtained by strip_prefix(lit) of T[k..]   (so T[k..] starts with lit)
or None when the construction is not understood (callers fail closed).
Understood constructions: copies / to_string / to_owned / into / as_str / deref / clone / must_use / expect / unwrap,
String::from(const), `String + &str`, `str::get(n..)`, `strip_prefix(const)`, `format!` (template bytes of
core::fmt::Arguments::new as emitted by this nightly: 0x01..0x7f = literal of that many bytes, 0xc0 = next argument
with Display, 0x00 = end; anything else is not understood).
"""
import ast
from facts import *

PASS = re.compile(r"(ToString>?::to_string|::to_owned|Into<.*>>::into|From<std::string::String>>::from|::as_str|Deref>::deref|"
                  r"Borrow<.*>>::borrow|AsRef<.*>>::as_ref|Clone>::clone|hint::must_use|Option::<.*>::(expect|unwrap)|"
                  r"Option::<T>::(expect|unwrap)|ShortString::new|From<&std::string::String>>::from|ShortString::as_str|"
                  r"String::as_str)$")


def decode_template(pp):
    """b"\\x010\\xc0\\x00" -> [('lit','0'), ('arg',)]  or None"""
    try:
        raw = ast.literal_eval(pp)
    except Exception:
        return None
    if not isinstance(raw, (bytes, bytearray)):
        return None
    out = []
    i = 0
    while i < len(raw):
        b = raw[i]
        if b == 0:
            return out if i == len(raw) - 1 else None
        if b < 0x80:
            out.append(("lit", raw[i + 1:i + 1 + b].decode("utf-8", "replace")))
            i += 1 + b
        elif b == 0xc0:
            out.append(("arg",))
            i += 1
        else:
            return None
    return None


def _roots(f, o, trail):
    rs = provenance(f, o, through=None)
    out = []
    for r in rs:
        if r[0] in ("call", "agg", "op") and trail is not None and r[2] not in trail:
            continue
        out.append(r)
    return out


def _const_str(f, o):
    if is_const(o) and "s" in o:
        return o["s"]
    if is_const(o) and isinstance(o.get("v"), str):
        return o["v"]
    for r in provenance(f, o, through=None):
        if r[0] == "const" and r[1].startswith("s:"):
            return r[1][2:]
        if r[0] == "const" and r[1].startswith("v:") and len(r[1]) == 3:
            return r[1][2:]
    return None


def _const_int(f, o):
    for r in provenance(f, o, through=None):
        if r[0] == "const" and re.match(r"^v:\d+$", r[1]):
            return int(r[1][2:])
    return None


def sym(f, o, trail, is_text, depth=0):
    """is_text(f, term) -> True when a call term yields the input text T (e.g. Token::token_type for the Number arm)"""
    if depth > 12:
        return None
    if is_const(o):
        s = _const_str(f, o)
        return [("lit", s)] if s is not None else None
    rs = _roots(f, o, trail)
    rs = [r for r in rs if not (r[0] == "agg" and (r[1].endswith(("Option::Some", "RangeFrom")) or r[1] in ("tuple", "array")))]
    consts = [r for r in rs if r[0] == "const"]
    others = [r for r in rs if r[0] != "const"]
    if not others and len(consts) == 1:
        c = consts[0][1]
        if c.startswith("s:"):
            return [("lit", c[2:])]
        return None
    if len(others) != 1:
        return None
    r = others[0]
    if r[0] != "call":
        return None
    t = f.blocks[r[2]]["term"]
    c = callee(t)
    if is_text(f, t):
        return [("T", 0)]
    if re.search(r"From<&str>>::from$", c) or c.endswith("String::from"):
        s = _const_str(f, t["args"][0])
        if s is not None:
            return [("lit", s)]
        return sym(f, t["args"][0], trail, is_text, depth + 1)
    if PASS.search(c):
        return sym(f, t["args"][0], trail, is_text, depth + 1)
    if re.search(r"Add<&str>>::add$", c):
        a = sym(f, t["args"][0], trail, is_text, depth + 1)
        b = sym(f, t["args"][1], trail, is_text, depth + 1)
        return a + b if a is not None and b is not None else None
    if re.search(r"<impl str>::get$", c.split("::<")[0]) or c.endswith("<impl str>::get"):
        base = sym(f, t["args"][0], trail, is_text, depth + 1)
        n = _const_int(f, t["args"][1])
        is_from = any(rr[0] == "agg" and rr[1].endswith("RangeFrom") for rr in provenance(f, t["args"][1], through=None))
        if base and len(base) == 1 and base[0][0] == "T" and n is not None and is_from:
            return [("T", base[0][1] + n)]
        return None
    if re.search(r"<impl str>::strip_prefix$", c.split("::<")[0]) or c.endswith("<impl str>::strip_prefix"):
        base = sym(f, t["args"][0], trail, is_text, depth + 1)
        lit = _const_str(f, t["args"][1])
        if base and len(base) == 1 and base[0][0] == "T" and lit is not None:
            return [("Tp", base[0][1], lit)]
        return None
    if c.endswith("fmt::format"):
        return sym(f, t["args"][0], trail, is_text, depth + 1)
    if re.search(r"fmt::Arguments::<'a>::new$", c) or c.endswith("Arguments::new"):
        tmpl = None
        for rr in provenance(f, t["args"][0], through=None):
            if rr[0] == "const" and rr[1].startswith("pp:"):
                tmpl = decode_template(rr[1][3:])
        if tmpl is None:
            return None
        # the argument array
        args = []
        for rr in _roots(f, t["args"][1], trail):
            if rr[0] == "call" and rr[1].endswith("new_display"):
                args.append(rr)
        # order of the array operands
        arr = None
        for b, si_, s in f.stmts():
            if s["k"] == "assign" and s["rv"]["k"] == "agg" and s["rv"].get("array") is not None and (trail is None or b in trail):
                srcs = [provenance(f, x, through=None) for x in s["rv"]["ops"]]
                if srcs and all(any(q[0] == "call" and q[1].endswith("new_display") for q in sr) for sr in srcs) and \
                        {q[2] for sr in srcs for q in sr if q[0] == "call"} == {a[2] for a in args}:
                    arr = [[q for q in sr if q[0] == "call"][0] for sr in srcs]
        if arr is None:
            if len(args) == 1:
                arr = args
            else:
                return None
        out = []
        it = iter(arr)
        for p in tmpl:
            if p[0] == "lit":
                out.append(p)
            else:
                try:
                    a = next(it)
                except StopIteration:
                    return None
                at = f.blocks[a[2]]["term"]
                sub = sym(f, at["args"][0], trail, is_text, depth + 1)
                if sub is None:
                    return None
                out += sub
        return out
    return None


def normalise(pieces, prefix):
    """rewrite pieces with T = prefix ++ R:  returns (literal, tail_offset) meaning literal ++ R[tail_offset..], the
    text must end with exactly one R-piece; None when not expressible"""
    lit = ""
    tail = None
    for p in pieces:
        if tail is not None:
            return None            # something after the remainder of T
        if p[0] == "lit":
            lit += p[1]
        elif p[0] == "T":
            k = p[1]
            if k <= len(prefix):
                lit += prefix[k:]
                tail = 0
            else:
                tail = k - len(prefix)
        elif p[0] == "Tp":
            k = p[1] + len(p[2])
            # T[p[1]..] starts with p[2] - must agree with what is known
            known = prefix[p[1]:]
            if not (known.startswith(p[2]) or p[2].startswith(known)):
                return "contradiction"
            if k <= len(prefix):
                lit += prefix[k:]
                tail = 0
            else:
                tail = k - len(prefix)
    if tail is None:
        return None
    return lit, tail
