"""C04 Literal values survive quote and number normalisation - static necessary conditions."""
import p_c07
import r_regex
import r_opt
import r_tree
import r_cli

EXPLANATION = (
    "Constant + regex-AST audit and decision-table extraction (no matching is performed, no string is rewritten): the "
    "two pattern constants given to Regex::new inside format_token are parsed by the checker's own regex-AST parser: "
    "UNNECESSARY_ESCAPES must be one anchored negated class whose excluded set contains every character that is "
    "meaningful after a backslash in any supported dialect (a b f n r t v \\ \" ' newline CR 0-9 x z u); RE must be "
    "`\\\\?(quote)` | `\\\\(any char incl. newline)` with groups 1 and 2; the replacement closure's table (quote x "
    "output quote -> text; unnecessary escape -> char; necessary -> backslash+char) is extracted by path "
    "enumeration; numbers get the prefix 0 / -0 exactly under starts_with('.') / starts_with('-.'); string tokens "
    "keep their bracket depth, bracket strings only go through replace(); Force*/AutoPrefer* rows of "
    "get_quote_to_use; (R-BRACKET) a long-bracket string that lands directly after `[` (index, table key, type indexer) would "
    "be re-lexed as another literal: every such constructor tests the formatted child with a predicate that answers true for "
    "every string whose quote type is Brackets, whatever its level, and pads it. Decides this alphabet/shape condition, not the transducer over all escape tilings (the "
    "property's own quantifier asks for exhaustive enumeration of strings, a dynamic technique)."
    "Later rounds: (R-EXACTREAD) the input text is never decoded lossily before it is parsed; InterpolatedString segments are rebuilt from the input literal only. Rounds 17-19: (R-PRINT). Rounds 20-21: (R-PARSE(input)) the text parsed is the text given.")
ASSUMPTIONS = ["the `regex` crate implements the syntax as documented; leftmost-first alternation",
               "ESCAPE_ALPHABET in r_regex.py restates the escape sequences of Lua 5.1-5.4 / LuaJIT / Luau",
               "rustc MIR and Instance::try_resolve are trusted"]


def run(ctx):
    # a long-bracket string directly after `[` is re-lexed as a different literal: the bracket guard is a C04 clause too
    return [r_regex.rule_regex(ctx, "C04"), r_opt.rule_quote(ctx, "C04"), r_tree.rule_bracket(ctx, "C04"), r_cli.rule_exact_read(ctx, "C04"), p_c07.rule_print(ctx, "C04"), p_c07.rule_parse_input(ctx, "C04")]
