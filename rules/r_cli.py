"""CLI effect rules over crate `stylua` (and `stylua_lib` for the who-may-write census):
R-FS, R-EXIT, R-ATOMIC, R-STDOUT, R-WORKERS, R-WALK."""
from engine import Report


def _output_closure(prog):
    """the closure of `format` that drains the result channel (the output thread), whatever its number"""
    c = getattr(prog, "_out_closure", False)
    if c is False:
        cands = [g for g in prog.fns("stylua") if g.kind == "Closure" and g.path.startswith("format::{closure") and
                 g.path.count("::{closure") == 1 and
                 any(re.search(r"crossbeam_channel::.*Receiver|channel::IntoIter<T> as std::iter::Iterator>::next", callee(t))
                     for _, t in g.calls())]
        c = cands[0] if len(cands) == 1 else None
        try:
            prog._out_closure = c
        except AttributeError:
            pass
    return c


def _is_output_closure(prog, f):
    oc = _output_closure(prog)
    return oc is not None and f is oc


def _logger_closure(prog):
    """the closure of `main` that formats log records (and raises the exit status on error records)"""
    c = getattr(prog, "_log_closure", False)
    if c is False:
        cands = [g for g in prog.fns("stylua") if g.kind == "Closure" and g.path.startswith("main::{closure") and
                 g.path.count("::{closure") == 1 and any(callee(t).endswith("Record::<'a>::level") for _, t in g.calls())]
        c = cands[0] if len(cands) == 1 else None
        try:
            prog._log_closure = c
        except AttributeError:
            pass
    return c


def _is_logger_closure(prog, f):
    lc = _logger_closure(prog)
    return lc is not None and f is lc


def _view(prog):
    from inline import crate_view, KNOWN_STYLUA
    return crate_view(prog, "stylua", KNOWN_STYLUA)

from facts import *

FS_MUTATORS = re.compile(
    r"^std::fs::(write|remove_file|remove_dir|remove_dir_all|rename|copy|create_dir|create_dir_all|"
    r"set_permissions|hard_link|soft_link|exists_and_truncate)$|"
    r"^std::fs::File::(create|create_new|create_buffered|options|set_len|set_permissions|set_times|set_modified)$|"
    r"^std::fs::OpenOptions::|^std::fs::DirBuilder::|^std::process::Command::|^std::os::unix::fs::|"
    r"^std::os::unix::process::|^std::fs::Permissions::|^tempfile::|^assert_fs::|^std::env::set_|"
    r"^std::env::remove_var")


def field_switches(fn, field):
    """switches on a bool loaded from a place whose projection ends in field `field`.
    returns [(bi, true_block, false_block, place)]"""
    out = []
    for bi, b in enumerate(fn.blocks):
        t = b["term"]
        if t["k"] != "switch" or t["ty"] != "bool":
            continue
        l = op_local(t["on"])
        if l is None:
            continue
        p0 = op_place(t["on"])
        cand = None
        if p0.get("p"):
            cand = p0
        else:
            for s in reversed(b["st"]):
                if s["k"] == "assign" and s["dst"]["l"] == l and "p" not in s["dst"] and s["rv"]["k"] == "use" \
                        and not is_const(s["rv"]["o"]):
                    cand = op_place(s["rv"]["o"])
                    break
        if cand is None:
            continue
        fs = proj_fields(cand)
        if fs and fs[-1] == ("f", field):
            fl = None
            for v, bb in t["targets"]:
                if v == 0:
                    fl = bb
            out.append((bi, t["otherwise"], fl, cand))
    return out


def rule_fs(ctx, prop, stdin_clause=False):
    rep = Report(prop, "R-FS", "the only file-system mutation in both crates is fs::write in format_file, behind "
                               "!opt.check, after format_code returned Ok, only when the text differs, writing the "
                               "formatted text to the path that was read")
    for cfg, prog in ctx.programs.items():
        prog = _view(prog)
        sites = [(f, bi, t) for f, bi, t in call_sites(prog, FS_MUTATORS)]
        nread = len(list(call_sites(prog, r"^std::fs::(read|read_to_string|File::open|metadata|read_dir)")))
        rep.floor("file-system read call sites (proves std::fs callees resolve)", nread, 2, cfg)
        ok_site = None
        for f, bi, t in sites:
            c = callee(t)
            good = f.crate == "stylua" and f.path == "format_file" and c == "std::fs::write"
            rep.inst(f"{f.key} fs-mutator={c}", {"fn": f.key, "callee": c, "at": f.loc(t["sp"])}, cfg, ok=good)
            if good and ok_site is None:
                ok_site = (f, bi, t)
            else:
                rep.violation(f"{f.key} unexpected-fs-mutation callee={c}",
                              f"{c} is called from {f.key}: a second file-system writer (only format_file may "
                              f"write, and only the formatted file)", f.loc(t["sp"]), cfg)
        if not rep.anchor(ok_site is not None, "fs::write call in format_file", cfg):
            continue
        f, wb, wt = ok_site
        # (1) behind !opt.check
        sw = field_switches(f, "check")
        chk = rep.anchor(len(sw) >= 1, "branch on opt.check in format_file", cfg)
        if chk:
            ok = any(fl is not None and f.dominates(fl, wb) and wb not in f.reach_from(tr) for _, tr, fl, _ in sw)
            # the switched place must come from the `opt` parameter
            optl = f.names.get("opt", {}).get("l")
            ok_src = any(pl["l"] == optl for _, _, _, pl in sw)
            rep.inst(f"{f.key} write-behind-not-check", {"fn": f.key, "at": f.loc(wt["sp"])}, cfg, ok=ok and ok_src)
            if not (ok and ok_src):
                rep.violation(f"{f.key} write-not-behind-check",
                              "fs::write is not dominated by the false edge of `opt.check` (check mode could write)",
                              f.loc(wt["sp"]), cfg)
        # (2) after format_code Ok: the data argument comes from format_code, and the write is
        # dominated by the Continue edge of `?` on it
        data_roots = provenance(f, wt["args"][1])
        from_fc = any(r[0] == "call" and r[1] == "stylua_lib::format_code" for r in data_roots)
        other_calls = {r[1] for r in data_roots if r[0] == "call"} - {"stylua_lib::format_code"}
        rep.inst(f"{f.key} write-data-is-format_code-result", {"roots": sorted(map(str, data_roots))[:6]}, cfg,
                 ok=from_fc and not other_calls)
        if not from_fc or other_calls:
            rep.violation(f"{f.key} write-data-not-formatted-text",
                          f"the data written is not (only) the result of format_code: roots {sorted(map(str, data_roots))}",
                          f.loc(wt["sp"]), cfg)
        path_roots = provenance(f, wt["args"][0])
        pathl = f.names.get("path", {}).get("l")
        okp = path_roots == {("arg", pathl)}
        rep.inst(f"{f.key} write-path-is-path-param", {"roots": sorted(map(str, path_roots))}, cfg, ok=okp)
        if not okp:
            rep.violation(f"{f.key} write-path-not-input-path",
                          f"fs::write target is not the `path` parameter: {sorted(map(str, path_roots))}",
                          f.loc(wt["sp"]), cfg)
        # the path read is the same parameter
        reads = [(b, t) for b, t in f.calls() if callee(t) in ("std::fs::read_to_string", "std::fs::read")]
        if rep.anchor(len(reads) == 1, "exactly one read of the input file in format_file", cfg):
            rr = provenance(f, reads[0][1]["args"][0])
            okr = rr == {("arg", pathl)}
            rep.inst(f"{f.key} read-path-is-path-param", None, cfg, ok=okr)
            if not okr:
                rep.violation(f"{f.key} read-path-not-input-path", "the file read is not the `path` parameter",
                              f.loc(reads[0][1]["sp"]), cfg)
        # Continue edge of the `?` on format_code
        cont = None
        for bi in range(len(f.blocks)):
            si = switch_info(f, bi)
            if si and si["enum"].endswith("ControlFlow") and not si.get("unknown_adt"):
                pr = provenance(f, si["place"])
                if any(r[0] == "call" and r[1] == "stylua_lib::format_code" for r in pr):
                    cont = (si["targets"].get("Continue"), si["targets"].get("Break"))
        if rep.anchor(cont is not None and cont[0] is not None, "`?` on the format_code result", cfg):
            ok = f.dominates(cont[0], wb) and (cont[1] is None or wb not in f.reach_from(cont[1]))
            rep.inst(f"{f.key} write-after-format-Ok", None, cfg, ok=ok)
            if not ok:
                rep.violation(f"{f.key} write-not-after-format-Ok",
                              "fs::write is reachable without format_code having returned Ok", f.loc(wt["sp"]), cfg)
        # (3) only when different
        cmps = [(b, t) for b, t in f.calls() if re.search(r"PartialEq(<.*>)?>::(ne|eq)$|cmp::PartialEq::(ne|eq)$", callee(t))]
        okd = False
        for b, t in cmps:
            e = bool_edge(f, b)
            if not e:
                continue
            tr, fl = e
            is_ne = callee(t).endswith("::ne")
            want = tr if is_ne else fl
            other = fl if is_ne else tr
            ra = provenance(f, t["args"][0])
            rb = provenance(f, t["args"][1])
            srcs = prov_calls(ra) | prov_calls(rb)
            if {"stylua_lib::format_code", "std::fs::read_to_string"} <= srcs and f.dominates(want, wb) \
                    and wb not in f.reach_from(other):
                okd = True
        rep.inst(f"{f.key} write-only-if-different", None, cfg, ok=okd)
        if not okd:
            rep.violation(f"{f.key} write-not-guarded-by-difference",
                          "fs::write is not guarded by `formatted_contents != contents` (an already formatted "
                          "file would be rewritten)", f.loc(wt["sp"]), cfg)
        # who may call format_file: only the worker closure in `format`
        callers = {g.path for g, b, t in call_sites(prog, r"^format_file$", "stylua")}
        callers |= {g.path for g, b, o in fn_refs(prog, r"^format_file$", "stylua")}
        okc = all(re.match(r"^format::\{closure#\d+\}$", c) for c in callers) and len(callers) == 1
        rep.inst("stylua::format_file callers", {"callers": sorted(callers)}, cfg, ok=okc)
        if not okc:
            rep.violation("stylua::format_file unexpected-caller",
                          f"format_file is called from {sorted(callers)} (expected: one worker closure of `format`)",
                          None, cfg)
        if stdin_clause:
            # no fs mutation reachable on the stdin path: format_string and its callees
            g = prog.fn("stylua", "format_string")
            if rep.anchor(g is not None, "format_string", cfg):
                bad = [callee(t) for b, t in g.calls() if FS_MUTATORS.search(callee(t)) or callee(t) == "format_file"]
                rep.inst("stylua::format_string no-fs-mutation", None, cfg, ok=not bad)
                for c in bad:
                    rep.violation(f"stylua::format_string fs-mutation callee={c}",
                                  "the stdin path reaches a file-system mutation", g.loc(), cfg)
    return rep


def static_uses(prog, static_name, crate="stylua"):
    """(fn, bi, term, method, const_args) for each call whose receiver is the static."""
    out = []
    loose = []
    for f in prog.fns(crate):
        refs = set()
        for bi, si, s in f.stmts():
            if s["k"] == "assign" and s["rv"]["k"] == "use" and is_const(s["rv"]["o"]) and \
                    s["rv"]["o"].get("static") == static_name:
                refs.add(s["dst"]["l"])
        for bi, t in f.calls():
            direct = any(is_const(a) and a.get("static") == static_name for a in t["args"])
            if not refs and not direct:
                continue
            hit = direct
            for a in t["args"][:1]:
                if is_const(a):
                    continue
                pr = provenance(f, a, through=None)
                if ("const", f"static:{static_name}") in pr:
                    hit = True
            if hit:
                consts = [a.get("v") for a in t["args"] if is_const(a) and "v" in a]
                out.append((f, bi, t, callee(t).split("::")[-1], consts))
        if refs:
            loose.append(f)
    return out, loose


def _under_is_err(f, bi):
    """block bi runs only when a `Result::is_err()` dominating it answered true"""
    for b, t in f.calls():
        if re.search(r"Result::<.*>::is_err$", callee(t)) and f.dominates(b, bi):
            e = bool_edge(f, b)
            if not e or e[0] is None or e[1] is None or e[0] == e[1]:
                continue
            tr, fl = e
            if f.dominates(tr, bi) and bi not in f.reach_from(fl, avoid={tr}):
                return True
    return False


def rule_exit(ctx, prop):
    rep = Report(prop, "R-EXIT", "who reads/writes EXIT_CODE, with which constants; status read after join; passed "
                                 "to process::exit; worker panics map to 2")
    for cfg, prog in ctx.programs.items():
        prog = _view(prog)
        uses, fns_with_ref = static_uses(prog, "EXIT_CODE")
        rep.floor("EXIT_CODE accesses", len(uses), 3, cfg)
        writers = []
        for f, bi, t, m, consts in uses:
            if m == "load":
                ok = (f.path == "format" or _is_output_closure(prog, f))
                rep.inst(f"{f.key} EXIT_CODE.load", {"fn": f.key, "at": f.loc(t["sp"])}, cfg, ok=ok)
                if not ok:
                    rep.violation(f"{f.key} unexpected-EXIT_CODE-reader", f"EXIT_CODE is read in {f.key}",
                                  f.loc(t["sp"]), cfg)
            else:
                writers.append((f, bi, t, m, consts))
        for f, bi, t, m, consts in writers:
            val = consts[0] if consts else None
            in_err_arm = False
            if (_is_output_closure(prog, f) or f.path == "format") and val == 2:
                in_err_arm = guarded_by_variant(f, bi, "result::Result", "Err") or _under_is_err(f, bi)
            where_ok = (_is_output_closure(prog, f) and val == 1) or (_is_logger_closure(prog, f) and val == 2) \
                or in_err_arm
            rep.inst(f"{f.key} EXIT_CODE.{m}({val})", {"fn": f.key, "at": f.loc(t["sp"])}, cfg, ok=where_ok)
            if not where_ok:
                rep.violation(f"{f.key} unexpected-EXIT_CODE-writer {m}({val})",
                              f"EXIT_CODE.{m}({val}) in {f.key}: only the diff handler may raise it to 1; only the logger "
                              f"and the Err arm of the output thread may raise it to 2", f.loc(t["sp"]), cfg)
            if _is_output_closure(prog, f) and val != 2:
                # must be inside the Diff arm
                dom = False
                for sb in f.dominators().get(bi, ()):
                    si = switch_info(f, sb)
                    if si and si["enum"] == "FormatResult" and si["targets"].get("Diff") is not None and \
                            f.dominates(si["targets"]["Diff"], bi):
                        dom = True
                rep.inst(f"{f.key} status-1-only-in-Diff-arm", None, cfg, ok=dom)
                if not dom:
                    rep.violation(f"{f.key} status-1-outside-Diff-arm",
                                  "EXIT_CODE is raised to 1 outside the FormatResult::Diff arm", f.loc(t["sp"]), cfg)
            if _is_logger_closure(prog, f):
                dom = False
                for sb in f.dominators().get(bi, ()):
                    si = switch_info(f, sb)
                    if si and si["enum"] == "log::Level" and si["targets"].get("Error") is not None and \
                            f.dominates(si["targets"]["Error"], bi) and len(si["targets"]) == 1:
                        dom = True
                rep.inst(f"{f.key} status-2-iff-Level::Error", None, cfg, ok=dom)
                if not dom:
                    rep.violation(f"{f.key} status-2-not-guarded-by-Level::Error",
                                  "the logger's EXIT_CODE.store(2) is not exactly under `Level::Error`",
                                  f.loc(t["sp"]), cfg)
        have1 = any(_is_output_closure(prog, f) and (c[:1] == [1]) for f, _, _, _, c in writers)
        have2 = any(_is_logger_closure(prog, f) and (c[:1] == [2]) for f, _, _, _, c in writers)
        rep.inst("stylua diff-raises-status-to-1", None, cfg, ok=have1)
        rep.inst("stylua logger-raises-status-to-2", None, cfg, ok=have2)
        if not have1:
            rep.violation("stylua::format::{closure#0} no-status-1-on-diff",
                          "the Diff arm of the output thread does not raise EXIT_CODE to 1", None, cfg)
        if not have2:
            rep.violation("stylua::main::{closure#0} no-status-2-on-error",
                          "the logger does not raise EXIT_CODE to 2 on error records", None, cfg)
        # the logger closure is the one installed with Builder::format in main
        # final read in `format`: dominated by ThreadPool::join, which is dominated by drop(tx)
        f = prog.fn("stylua", "format")
        if not rep.anchor(f is not None, "fn format", cfg):
            continue
        joins = [b for b, t in f.calls() if callee(t) == "threadpool::ThreadPool::join"]
        drops = [b for b, t in f.calls() if callee(t) == "std::mem::drop" and "Sender" in (t.get("fn") or "")]
        loads = [(b, t) for g, b, t, m, c in uses if g is f and m == "load"]
        pcs = [(b, t) for b, t in f.calls() if callee(t) == "threadpool::ThreadPool::panic_count"]
        if rep.anchor(len(joins) == 1 and len(drops) >= 1 and len(loads) == 1 and len(pcs) == 1,
                      "format: one pool.join(), drop(tx), one EXIT_CODE.load(), one panic_count()", cfg,
                      f"(join={len(joins)} drop={len(drops)} load={len(loads)} panic_count={len(pcs)})"):
            jb = joins[0]
            ok1 = f.dominates(jb, loads[0][0]) and f.dominates(jb, pcs[0][0])
            ok2 = any(f.dominates(d, jb) for d in drops)
            rep.inst("stylua::format status-read-after-join", None, cfg, ok=ok1)
            rep.inst("stylua::format drop-tx-before-join", None, cfg, ok=ok2)
            if not ok1:
                rep.violation("stylua::format status-read-before-join",
                              "EXIT_CODE / panic_count is read without pool.join() dominating the read",
                              f.loc(loads[0][1]["sp"]), cfg)
            if not ok2:
                rep.violation("stylua::format join-without-drop-tx",
                              "pool.join() is not dominated by drop(tx): the output thread never terminates",
                              f.loc(), cfg)
            # no execute after join
            for b, t in f.calls():
                if callee(t) == "threadpool::ThreadPool::execute" and b in f.reach_from(jb):
                    rep.violation("stylua::format execute-after-join", "work is queued after pool.join()",
                                  f.loc(t["sp"]), cfg)
            # returned value: Ok(x) with x from {const 2 under panic_count>0, EXIT_CODE.load}
            rets = []
            for b, si_, s in f.stmts():
                if s["k"] == "assign" and s["dst"]["l"] == 0 and "p" not in s["dst"] and s["rv"]["k"] == "agg" and \
                        s["rv"].get("variant") == "Ok":
                    rets.append((b, s))
            rets = [r for r in rets if f.dominates(jb, r[0])] or rets
            if len(rets) == 2:
                # `match pool.panic_count() { 0 => Ok(EXIT_CODE.load(..)), _ => Ok(2) }`: one return per side of the test
                vals = []
                for rb, rs in rets:
                    pr = provenance(f, rs["rv"]["ops"][0], through=None)
                    vals.append((rb, prov_calls(pr), {r[1] for r in pr if r[0] == "const"}))
                load_side = [v for v in vals if v[1] == {"std::sync::atomic::Atomic::<i32>::load"} and not v[2]]
                two_side = [v for v in vals if not v[1] and v[2] == {"v:2"}]
                ok = len(load_side) == 1 and len(two_side) == 1
                rep.inst("stylua::format returns max(panic?2, EXIT_CODE)", {"returns": 2}, cfg, ok=ok)
                if not ok:
                    rep.violation("stylua::format return-value-not-status",
                                  f"format returns values that are not {{2 on worker panic, EXIT_CODE.load()}}: {[(sorted(v[1]), sorted(v[2])) for v in vals]}",
                                  f.loc(rets[0][1]["sp"]), cfg)
                okp = False
                if ok:
                    for b, t in pcs:
                        nb = t["t"]
                        tt = f.blocks[nb]["term"]
                        zero = other = None
                        if tt["k"] == "switch" and not is_const(tt["on"]) and op_place(tt["on"])["l"] == t["dst"]["l"]:
                            zs = [bb for v, bb in tt["targets"] if v == 0]
                            zero, other = (zs[0] if zs else None), tt["otherwise"]
                        else:
                            for s_ in f.blocks[nb]["st"]:
                                if s_["k"] == "assign" and s_["rv"]["k"] == "binop" and s_["rv"]["op"] in ("Gt", "Ne", "Eq") and \
                                        is_const(s_["rv"]["b"]) and s_["rv"]["b"].get("v") == 0 and tt["k"] == "switch":
                                    fl_ = [bb for v, bb in tt["targets"] if v == 0]
                                    if s_["rv"]["op"] == "Eq":
                                        zero, other = tt["otherwise"], (fl_[0] if fl_ else None)
                                    else:
                                        zero, other = (fl_[0] if fl_ else None), tt["otherwise"]
                        if zero is not None and other is not None:
                            okp = f.dominates(zero, load_side[0][0]) and f.dominates(other, two_side[0][0]) and zero != other
                rep.inst("stylua::format panic_count>0 -> 2", None, cfg, ok=okp)
                if not okp:
                    rep.violation("stylua::format panic-count-not-mapped-to-2",
                                  "`pool.panic_count() > 0` does not select exit status 2", f.loc(pcs[0][1]["sp"]), cfg)
            elif rep.anchor(len(rets) == 1, "single Ok(..) return in format", cfg):
                pr = provenance(f, rets[0][1]["rv"]["ops"][0], through=None)
                calls = prov_calls(pr)
                consts = {r[1] for r in pr if r[0] == "const"}
                ok = calls == {"std::sync::atomic::Atomic::<i32>::load"} and consts <= {"v:2"} and "v:2" in consts
                rep.inst("stylua::format returns max(panic?2, EXIT_CODE)", {"roots": sorted(map(str, pr))}, cfg, ok=ok)
                if not ok:
                    rep.violation("stylua::format return-value-not-status",
                                  f"format returns a value that is not {{2 on worker panic, EXIT_CODE.load()}}: "
                                  f"{sorted(map(str, pr))}", f.loc(rets[0][1]["sp"]), cfg)
                # the constant 2 is selected by panic_count() > 0
                e = None
                for b, t in pcs:
                    nb = t["t"]
                    blk = f.blocks[nb]
                    for s in blk["st"]:
                        if s["k"] == "assign" and s["rv"]["k"] == "binop" and s["rv"]["op"] in ("Gt", "Ne") and \
                                is_const(s["rv"]["b"]) and s["rv"]["b"].get("v") == 0:
                            tt = blk["term"]
                            if tt["k"] == "switch":
                                fl = [bb for v, bb in tt["targets"] if v == 0]
                                e = (tt["otherwise"], fl[0] if fl else None)
                okp = False
                if e:
                    trb, flb = e
                    # const 2 assigned in true region before merge, load in false region
                    okp = loads[0][0] in f.reach_from(flb) and not f.dominates(trb, loads[0][0])
                    two = False
                    for bb in f.reach_from(trb, avoid={flb}):
                        for s in f.blocks[bb]["st"]:
                            if s["k"] == "assign" and s["rv"]["k"] == "use" and is_const(s["rv"]["o"]) and \
                                    s["rv"]["o"].get("v") == 2 and f.dominates(trb, bb):
                                two = True
                    okp = okp and two
                rep.inst("stylua::format panic_count>0 -> 2", None, cfg, ok=okp)
                if not okp:
                    rep.violation("stylua::format panic-count-not-mapped-to-2",
                                  "`pool.panic_count() > 0` does not select exit status 2", f.loc(pcs[0][1]["sp"]), cfg)
        # process::exit: exactly one, in main, with {format result, const 2}
        exits = list(call_sites(prog, r"^std::process::(exit|abort)$"))
        okx = len(exits) == 1 and exits[0][0].crate == "stylua" and exits[0][0].path == "main" and \
            callee(exits[0][2]) == "std::process::exit"
        rep.inst("process::exit call sites", {"sites": [g.key for g, _, _ in exits]}, cfg, ok=okx)
        if not okx:
            rep.violation("stylua process-exit-sites",
                          f"expected exactly one std::process::exit (in main); found {[g.key for g, _, _ in exits]}",
                          None, cfg)
        else:
            g, b, t = exits[0]
            pr = provenance(g, t["args"][0], through=None)
            calls = prov_calls(pr)
            consts = {r[1] for r in pr if r[0] == "const"}
            ok = calls == {"format"} and consts == {"v:2"}
            rep.inst("stylua::main exit(status) provenance", {"roots": sorted(map(str, pr))}, cfg, ok=ok)
            if not ok:
                rep.violation("stylua::main exit-status-provenance",
                              f"process::exit receives something other than format()'s Ok value or 2 on Err: "
                              f"{sorted(map(str, pr))}", g.loc(t["sp"]), cfg)
            else:
                # 2 is on the Err edge
                for sb in range(len(g.blocks)):
                    si = switch_info(g, sb)
                    if si and si["enum"].endswith("result::Result"):
                        prr = provenance(g, si["place"], through=None)
                        if "format" in prov_calls(prr):
                            eb = si["targets"].get("Err")
                            two = False
                            for bb in g.reach_from(eb) if eb is not None else ():
                                for s in g.blocks[bb]["st"]:
                                    if s["k"] == "assign" and s["rv"]["k"] == "use" and is_const(s["rv"]["o"]) \
                                            and s["rv"]["o"].get("v") == 2 and g.dominates(eb, bb):
                                        two = True
                            rep.inst("stylua::main Err -> exit 2", None, cfg, ok=two)
                            if not two:
                                rep.violation("stylua::main err-not-mapped-to-2",
                                              "format() returning Err does not lead to exit status 2", g.loc(), cfg)
    return rep


def rule_atomic(ctx, prop):
    rep = Report(prop, "R-ATOMIC", "the exit status is a max-lattice {0<1<2} written from several threads: every "
                                   "write must be an atomic monotone update (fetch_max, or a store of the top "
                                   "element); workers capture no shared mutable state")
    for cfg, prog in ctx.programs.items():
        prog = _view(prog)
        uses, _ = static_uses(prog, "EXIT_CODE")
        nwr = 0
        for f, bi, t, m, consts in uses:
            if m == "load":
                continue
            nwr += 1
            val = consts[0] if consts else None
            ok = (m == "fetch_max") or (m == "store" and val == 2)
            rep.inst(f"{f.key} EXIT_CODE.{m}({val}) monotone-atomic", {"fn": f.key, "at": f.loc(t["sp"])}, cfg, ok=ok)
            if not ok:
                rep.violation(f"{f.key} non-monotone-status-write {m}({val})",
                              f"EXIT_CODE.{m}({val}) is a check-then-act update of a status shared with the logger "
                              f"(which stores 2 from other threads): an error status can be overwritten by {val}",
                              f.loc(t["sp"]), cfg, {"method": m, "value": val})
        rep.floor("EXIT_CODE writes", nwr, 2, cfg)
        # worker closures: upvar types carry no interior mutability / mutable sharing
        f = prog.fn("stylua", "format")
        if not rep.anchor(f is not None, "fn format", cfg):
            continue
        bad_ty = re.compile(r"Mutex|RwLock|RefCell|Cell<|Atomic|&mut |\*mut |Rc<|UnsafeCell|HashSet|HashMap|"
                            r"ConfigResolver")
        nw = 0
        for b, t in f.calls():
            if callee(t) != "threadpool::ThreadPool::execute":
                continue
            pr = provenance(f, t["args"][1], through=None, into_aggs=False)
            for r in pr:
                if r[0] == "agg" and r[1].startswith("closure "):
                    cl = prog.fn("stylua", r[1][len("closure "):])
                    if cl is None:
                        continue
                    nw += 1
                    bad = [u for u in (cl.upvars or []) if bad_ty.search(u)]
                    rep.inst(f"{cl.key} worker-captures", {"upvars": cl.upvars}, cfg, ok=not bad)
                    for u in bad:
                        rep.violation(f"{cl.key} worker-captures-shared-mutable {u}",
                                      f"a closure given to pool.execute captures `{u}`: workers would share mutable "
                                      f"state, so per-file results could depend on the schedule", cl.loc(), cfg)
        rep.floor("closures given to pool.execute", nw, 3, cfg)
        adt = prog.adt("opt::Opt", "stylua")
        if rep.anchor(adt is not None, "struct opt::Opt", cfg):
            for fld in adt["variants"][0]["fields"]:
                ok = not bad_ty.search(fld["ty"])
                rep.inst(f"stylua::opt::Opt.{fld['name']} no-interior-mutability", None, cfg, ok=ok)
                if not ok:
                    rep.violation(f"stylua::opt::Opt field-with-interior-mutability {fld['name']}",
                                  f"Opt.{fld['name']}: {fld['ty']} is shared through Arc<Opt> by all workers", None, cfg)
    return rep


def rule_stdout(ctx, prop, stdin_clause=False):
    rep = Report(prop, "R-STDOUT", "writers to stdout in crate stylua are exactly the Summary header/footer and the "
                                   "two write_all calls of the output thread whose payload is the "
                                   "SuccessBufferedOutput / Diff buffer")
    for cfg, prog in ctx.programs.items():
        prog = _view(prog)
        sites = list(call_sites(prog, r"^std::io::(_print|stdout)$"))
        sites += [(f, b, t) for f, b, t in call_sites(prog, r"^std::io::_print$") if False]
        rep.floor("stdout call sites", len(sites), 5, cfg)
        for f, bi, t in sites:
            c = callee(t)
            if f.crate != "stylua":
                rep.violation(f"{f.key} stdout-in-library callee={c}", "the library writes to stdout",
                              f.loc(t["sp"]), cfg)
                continue
            if c == "std::io::_print":
                ok = f.path == "format" and guarded_by_variant(f, bi, "opt::OutputFormat", "Summary")
                rep.inst(f"{f.key} println under-Summary", {"fn": f.key, "at": f.loc(t["sp"])}, cfg, ok=ok)
                if not ok:
                    rep.violation(f"{f.key} println-outside-Summary",
                                  "a println!/print! that is not under `output_format == Summary`: stdout would carry "
                                  "more than the formatted text / diffs", f.loc(t["sp"]), cfg)
            else:
                ok = _is_output_closure(prog, f)
                rep.inst(f"{f.key} stdout()", {"fn": f.key, "at": f.loc(t["sp"])}, cfg, ok=ok)
                if not ok:
                    rep.violation(f"{f.key} unexpected-stdout-handle", "stdout() obtained outside the output thread",
                                  f.loc(t["sp"]), cfg)
        # the logger never writes to stdout (env_logger's default target is stderr)
        for g in prog.fns("stylua"):
            hits = []
            for b, si_, s_ in g.stmts():
                if s_["k"] == "assign":
                    rv = s_["rv"]
                    if rv["k"] == "agg" and re.search(r"env_logger::(fmt::(writer::)?)?(target::)?Target$", rv.get("adt", "")) and rv.get("variant") in ("Stdout", "Pipe"):
                        hits.append((rv.get("variant"), s_.get("sp")))
                    for o in [rv.get("o")] + list(rv.get("ops", [])):
                        if o is not None and is_const(o) and re.search(r"Target", str(o.get("ty", ""))) and re.search(r"Stdout|Pipe", str(o.get("pp", "")) + str(o.get("variant", ""))):
                            hits.append((str(o.get("variant") or o.get("pp")), s_.get("sp")))
            for b, t in g.calls():
                for a in t["args"]:
                    if is_const(a) and re.search(r"env_logger.*Target", str(a.get("ty", ""))) and re.search(r"Stdout|Pipe", str(a.get("pp", "")) + str(a.get("variant", ""))):
                        hits.append((str(a.get("variant") or a.get("pp")), t.get("sp")))
            for what, sp in hits[:2]:
                rep.violation(f"{g.key} logger-target-stdout {what}",
                              f"{g.path} selects env_logger target {what}: log records (debug lines under --verbose, error messages) are "
                              f"written to stdout, where stdin mode puts the formatted text and --check its diffs", g.loc(sp), cfg)
        rep.inst("stylua logger target is never stdout", None, cfg, ok=True)
        # the Summary header / footer only ever accompany diffs: every output format under which a println! can run is refused
        # at the top of `format` unless --check is given (so that without --check stdout carries the formatted text alone)
        ff = prog.fn("stylua", "format")
        if ff is not None:
            variants = prog.variants("opt::OutputFormat", "stylua") or []
            sw = field_switches(ff, "check")
            prints = [(b, t) for b, t in ff.calls() if callee(t) == "std::io::_print"]
            if rep.anchor(bool(sw) and bool(variants), "branch on opt.check / OutputFormat variants in format", cfg) and prints:
                # the refusal: blocks reached from the not-check edge of the first test that cannot reach any println / pool
                first = min(sw, key=lambda x: x[0])
                fl = first[2]
                work_blocks = {b for b, t in ff.calls() if callee(t) in ("std::io::_print", "threadpool::ThreadPool::new", "threadpool::ThreadPool::execute")
                               or re.search(r"ConfigResolver::<'_>::new$|WalkBuilder::new$", callee(t))}
                after_work = set()
                for w in work_blocks:
                    after_work |= ff.reach_from(w)
                refused = set()
                if fl is not None:
                    for bb in ff.reach_from(fl):
                        if bb in after_work:
                            continue      # not part of the refusal at the top
                        if not (ff.reach_from(bb) & work_blocks) and bb not in work_blocks:
                            for V in variants:
                                if guarded_by_variant(ff, bb, "opt::OutputFormat", V, only=False):
                                    refused.add(V)
                for b, t in prints:
                    under = {V for V in variants if guarded_by_variant(ff, b, "opt::OutputFormat", V, only=False)}
                    # under --check only: not reachable from the not-check edge of a test of opt.check that dominates it
                    checked = any(fl_ is not None and ff.dominates(sb_, b) and b not in ff.reach_from(fl_) for sb_, _, fl_, _ in sw)
                    okp = checked or (bool(under) and under <= refused)
                    rep.inst(f"{ff.key} println only when --check is implied", {"formats": sorted(under), "refused_without_check": sorted(refused)}, cfg, ok=okp)
                    if not okp:
                        rep.violation(f"{ff.key} println-reachable-without-check formats={','.join(sorted(under - refused)) or 'any'}",
                                      f"a println! of `format` runs under output format(s) {sorted(under) or 'any'} but only {sorted(refused)} are "
                                      f"refused when --check is absent: `stylua --output-format={'/'.join(v.lower() for v in sorted(under - refused)) or '..'} -` "
                                      f"prints the header / footer lines around the formatted text on stdout", ff.loc(t["sp"]), cfg)
        # write_all on stdout in the output closure: payload provenance
        oc = _output_closure(prog)
        if not rep.anchor(oc is not None, "output closure format::{closure#0}", cfg):
            continue
        writes = [(b, t) for b, t in oc.calls() if re.search(r"Stdout(Lock)?.* as std::io::Write>::", callee(t))]
        rep.floor("writes on the stdout lock", len(writes), 2, cfg)
        arms = set()
        for b, t in writes:
            m = callee(t).split("::")[-1]
            # dominated by which FormatResult arm?
            arm = None
            for sb in oc.dominators().get(b, ()):
                si = switch_info(oc, sb)
                if si and si["enum"] == "FormatResult":
                    for v, tb in si["targets"].items():
                        if oc.dominates(tb, b):
                            arm = v
            pr = provenance(oc, t["args"][1])
            # payload must be the arm's field: a projection root 'upvar'/'call next' - check via proj origin
            ok_payload = False
            for og in deep_call_origins(oc, t["args"][1], PASS_THROUGH):
                if og[0] == "proj":
                    fs = proj_fields(og[1])
                    if ("v", arm) in fs:
                        ok_payload = True
            ok = m == "write_all" and arm in ("SuccessBufferedOutput", "Diff") and ok_payload
            arms.add(arm)
            rep.inst(f"{oc.key} stdout.{m} payload-of {arm}", {"at": oc.loc(t["sp"])}, cfg, ok=ok)
            if not ok:
                rep.violation(f"{oc.key} stdout-write-payload arm={arm} method={m}",
                              f"a write on stdout whose payload is not the buffer carried by "
                              f"FormatResult::{arm} (or not write_all)", oc.loc(t["sp"]), cfg)
        for need in ("SuccessBufferedOutput", "Diff"):
            if need not in arms:
                rep.violation(f"{oc.key} {need}-not-written",
                              f"the output thread does not write the {need} buffer to stdout", oc.loc(), cfg)
        if stdin_clause:
            fs = prog.fn("stylua", "format_string")
            if not rep.anchor(fs is not None, "format_string", cfg):
                continue
            aggs = []
            for g in prog.fns("stylua"):
                for b, si_, s in g.stmts():
                    if s["k"] == "assign" and s["rv"]["k"] == "agg" and s["rv"].get("variant") == "SuccessBufferedOutput":
                        aggs.append((g, b, s))
            okw = len(aggs) == 1 and aggs[0][0] is fs
            rep.inst("stylua SuccessBufferedOutput constructed only in format_string",
                     {"sites": [g.key for g, _, _ in aggs]}, cfg, ok=okw)
            if not okw:
                rep.violation("stylua SuccessBufferedOutput-constructor-sites",
                              f"SuccessBufferedOutput is built in {[g.key for g, _, _ in aggs]}", None, cfg)
                continue
            g, b, s = aggs[0]
            pr = provenance(g, s["rv"]["ops"][0])
            calls = prov_calls(pr)
            inl = g.names.get("input", {}).get("l")
            args = {r[1] for r in pr if r[0] == "arg"}
            ok = calls == {"stylua_lib::format_code"} and args == {inl}
            rep.inst(f"{g.key} buffered-output = format_code(input) | input", {"roots": sorted(map(str, pr))}, cfg, ok=ok)
            if not ok:
                rep.violation(f"{g.key} buffered-output-provenance",
                              f"the stdin output buffer is not exactly {{format_code result, input (skip)}}: "
                              f"{sorted(map(str, pr))}", g.loc(s["sp"]), cfg)
            # not reachable from the Break (error) edge of `?` on format_code
            for sb in range(len(g.blocks)):
                si = switch_info(g, sb)
                if si and si["enum"].endswith("ControlFlow"):
                    prr = provenance(g, si["place"])
                    if "stylua_lib::format_code" in prov_calls(prr) and si["targets"].get("Break") is not None:
                        okb = b not in g.reach_from(si["targets"]["Break"])
                        rep.inst(f"{g.key} no-output-on-format-error", None, cfg, ok=okb)
                        if not okb:
                            rep.violation(f"{g.key} output-on-format-error",
                                          "a stdout buffer is produced on the error edge of format_code", g.loc(), cfg)
            # skip edge: formatted_contents = input.clone() under should_skip; format_code not called there
            sk = g.names.get("should_skip", {}).get("l")
            found = False
            for sb, blk in enumerate(g.blocks):
                t = blk["term"]
                if t["k"] == "switch" and op_local(t["on"]) is not None:
                    prs = provenance(g, t["on"], through=None)
                    if ("arg", sk) in prs and t["ty"] == "bool":
                        found = True
                        trb = t["otherwise"]
                        flb = [bb for v, bb in t["targets"] if v == 0][0]
                        fc_blocks = [bb for bb, tt in g.calls() if callee(tt) == "stylua_lib::format_code"]
                        okk = all(g.dominates(flb, x) for x in fc_blocks) and fc_blocks
                        rep.inst(f"{g.key} skip-edge-bypasses-format_code", None, cfg, ok=bool(okk))
                        if not okk:
                            rep.violation(f"{g.key} skip-edge-formats",
                                          "format_code is reachable when should_skip is true", g.loc(), cfg)
            rep.anchor(found, "branch on should_skip in format_string", cfg)
    return rep


def _operand_slice(f, o, depth=0, seen=None):
    """operands the value of `o` is computed from (through copies, casts, arithmetic and calls' arguments)"""
    seen = set() if seen is None else seen
    out = []
    if o is None or is_const(o) or depth > 10:
        return out
    out.append(o)
    l = op_place(o)["l"]
    if l in seen:
        return out
    seen.add(l)
    for bi, si, s in f.defs().get(l, []):
        if si == "term":
            for a in s["args"]:
                out += _operand_slice(f, a, depth + 1, seen)
        else:
            rv = s["rv"]
            for x in [rv.get("o"), rv.get("a"), rv.get("b")] + list(rv.get("ops", [])):
                out += _operand_slice(f, x, depth + 1, seen)
            if rv["k"] in ("ref", "rawptr", "discr"):
                out += _operand_slice(f, {"cp": rv["p"]}, depth + 1, seen)
    return out


def rule_workers(ctx, prop):
    rep = Report(prop, "R-WORKERS", "results travel as values: every worker sends exactly its Result over the channel; "
                                    "the output loop has no early exit")
    for cfg, prog in ctx.programs.items():
        prog = _view(prog)
        # the pool always has a thread left for the formatters: the output reader occupies one worker for the whole run, so
        # ThreadPool::new gets max(n, k) with k >= 2 (with a single worker every formatter job waits behind the reader forever)
        ff = prog.fn("stylua", "format")
        if ff is not None:
            tp = [(b, t) for b, t in ff.calls() if callee(t) == "threadpool::ThreadPool::new"]
            size_arg = tp[0][1]["args"][0] if len(tp) == 1 else None
            if not tp:
                # `threadpool::Builder::new().num_threads(n)...build()`: the size is num_threads' argument; no other parameter of
                # the pool may depend on the thread count (a per-thread stack size derived from it makes deep inputs overflow
                # at some thread counts and not at others)
                nts = [(b, t) for b, t in ff.calls() if callee(t) == "threadpool::Builder::num_threads"]
                blds = [(b, t) for b, t in ff.calls() if callee(t) == "threadpool::Builder::build"]
                if len(nts) == 1 and len(blds) == 1:
                    tp = nts
                    size_arg = nts[0][1]["args"][1]
                for b, t in ff.calls():
                    m = re.match(r"threadpool::Builder::(\w+)$", callee(t))
                    if not m or m.group(1) in ("new", "num_threads", "build", "thread_name") or len(t["args"]) < 2:
                        continue
                    dep = any(("f", "num_threads") in proj_fields(op_place(o)) for o in _operand_slice(ff, t["args"][1]))
                    rep.inst(f"stylua::format pool parameter {m.group(1)} independent of the thread count", None, cfg, ok=not dep)
                    if dep:
                        rep.violation(f"stylua::format pool-parameter-depends-on-thread-count setter={m.group(1)}",
                                      f"Builder::{m.group(1)} is given a value computed from opt.num_threads: what a worker can do "
                                      f"(its stack) then differs between thread counts - a deeply nested file formats with "
                                      f"--num-threads 2 and overflows the stack (abort, file untouched) with --num-threads 16",
                                      ff.loc(t["sp"]), cfg)
            if rep.anchor(len(tp) == 1 and size_arg is not None, "ThreadPool::new (or Builder::num_threads + build) in format", cfg):
                okp = False
                for r in provenance(ff, size_arg, through=None):
                    if r[0] == "const" and re.match(r"^v:\d+$", r[1]) and int(r[1][2:]) >= 2:
                        okp = True
                    if r[0] == "call" and re.search(r"cmp::max$|Ord>?::max$|::max$", r[1]):
                        mt = ff.blocks[r[2]]["term"]
                        if any(is_const(a) and isinstance(a.get("v"), int) and a.get("v") >= 2 for a in mt["args"]):
                            okp = True
                rep.inst("stylua::format pool size is at least 2", None, cfg, ok=okp)
                if not okp:
                    rep.violation("stylua::format pool-size-not-bounded-below",
                                  "ThreadPool::new is not given max(num_threads, 2) (or a constant >= 2): with --num-threads 1 "
                                  "the output reader takes the only worker, no file is ever formatted and no exit status is "
                                  "produced", ff.loc(tp[0][1]["sp"]), cfg)
        f = prog.fn("stylua", "format")
        if not rep.anchor(f is not None, "fn format", cfg):
            continue
        n = 0
        for b, t in f.calls():
            if callee(t) != "threadpool::ThreadPool::execute":
                continue
            pr = provenance(f, t["args"][1], through=None, into_aggs=False)
            for r in pr:
                if not (r[0] == "agg" and r[1].startswith("closure ")):
                    continue
                cl = prog.fn("stylua", r[1][len("closure "):])
                if cl is None or _is_output_closure(prog, cl):
                    continue
                n += 1
                sends = [(bb, tt) for bb, tt in cl.calls() if re.search(r"crossbeam_channel::Sender::<T>::send$", callee(tt))]
                ok = len(sends) == 1
                # the send post-dominates entry on all normal paths (no early return before send)
                if ok:
                    pd = cl.postdominators()
                    ok = sends[0][0] in pd.get(0, set())
                rep.inst(f"{cl.key} sends-its-result-on-every-path", {"fn": cl.key}, cfg, ok=ok)
                if not ok:
                    rep.violation(f"{cl.key} worker-may-skip-send",
                                  "a worker closure has a path that does not send its result to the output thread",
                                  cl.loc(), cfg)
                # what is sent comes from format_file / format_string
                if sends:
                    prs = provenance(cl, sends[0][1]["args"][1],
                                     through=re.compile(PROV_THROUGH.pattern + r"|::and_then$|::map$"))
                    calls = prov_calls(prs)
                    okv = bool(calls & {"format_file", "format_string", "std::io::Read::read_to_string",
                                        "<std::io::Stdin as std::io::Read>::read_to_string"})
                    rep.inst(f"{cl.key} sends format result", {"roots": sorted(calls)[:5]}, cfg, ok=okv)
        rep.floor("worker closures", n, 2, cfg)
        # a panicking formatter job is noticed through panic_count() of the pool that ran it
        def _pool_roots(o):
            return {r[2] for r in provenance(f, o, into_aggs=False) if r[0] == "call" and (r[1].endswith("ThreadPool::new") or r[1].endswith("threadpool::Builder::build"))}
        pcs = [(b, t) for b, t in f.calls() if callee(t).endswith("ThreadPool::panic_count")]
        if rep.anchor(len(pcs) >= 1, "ThreadPool::panic_count in format", cfg):
            counted = set()
            for b, t in pcs:
                counted |= _pool_roots(t["args"][0])
            for b, t in f.calls():
                if callee(t) != "threadpool::ThreadPool::execute":
                    continue
                cls = [prog.fn("stylua", r[1][len("closure "):]) for r in provenance(f, t["args"][1], through=None, into_aggs=False)
                       if r[0] == "agg" and r[1].startswith("closure ")]
                if not cls or any(c is None or _is_output_closure(prog, c) for c in cls):
                    continue
                roots = _pool_roots(t["args"][0])
                okc = bool(roots) and roots <= counted
                rep.inst(f"{cls[0].key} runs on the pool whose panic_count decides the exit status", None, cfg, ok=okc)
                if not okc:
                    rep.violation(f"{cls[0].key} job-pool-panics-not-counted",
                                  "a formatting job is executed on a ThreadPool whose panic_count() is never consulted (the exit "
                                  "status reads another pool's): a file whose formatting panics keeps its bytes, is reported nowhere, "
                                  "and the run exits 0", f.loc(t["sp"]), cfg)
        oc = _output_closure(prog)
        if rep.anchor(oc is not None, "output closure", cfg):
            # the loop header = block calling Iterator::next on the receiver; every return is reached only via
            # the None edge of that next()
            nexts = [b for b, t in oc.calls() if re.search(r"crossbeam_channel::IntoIter<T> as std::iter::Iterator>::next$",
                                                          callee(t))]
            if rep.anchor(len(nexts) == 1, "receiver loop in output closure", cfg):
                nb = oc.blocks[nexts[0]]["term"]["t"]
                si = switch_info(oc, nb)
                ok = False
                if si and si["targets"].get("None") is not None:
                    noneb = si["targets"]["None"]
                    ok = all(oc.dominates(noneb, e) for e in oc.exits())
                    # no panic inside loop body besides logging? (unwrap etc.) - report only
                rep.inst(f"{oc.key} loop-exits-only-when-channel-closed", None, cfg, ok=ok)
                if not ok:
                    rep.violation(f"{oc.key} output-loop-early-exit",
                                  "the output thread can leave its receive loop before the channel is closed: later "
                                  "results (and their exit status) would be dropped", oc.loc(), cfg)
    return rep


def _insert_guards(f, ins, db):
    """the dispatch block db runs only when HashSet::insert returned true (newly inserted)"""
    from r_guard import _switch_on
    ib, it = ins
    if it.get("t") is None or it["dst"].get("p"):
        return False
    sw = _switch_on(f, it["dst"]["l"], it["t"])
    if sw is None:
        return False
    _, tr, fl = sw
    # keyed on the walked path itself (clones / conversions only): a derived key can identify two different files
    kc = prov_calls(provenance(f, it["args"][1]))
    keyed = bool(kc) and all(re.search(r"ignore::Walk as std::iter::Iterator>::next$|DirEntry::(path|into_path)$", c) for c in kc)
    return keyed and f.dominates(tr, db) and db not in f.reach_from(fl, avoid={ib})


def rule_walk(ctx, prop, dedup_only=False):
    import extract
    rep = Report(prop, "R-WALK", "file selection wiring: de-duplication before dispatch, default globs per "
                                 "configuration, hidden(!allow_hidden), custom ignore file name, explicit-path predicate")
    for cfg, prog in ctx.programs.items():
        prog = _view(prog)
        f = prog.fn("stylua", "format")
        if not rep.anchor(f is not None, "fn format", cfg):
            continue
        # (1) file dispatch = the execute whose closure calls format_file
        disp = None
        for b, t in f.calls():
            if callee(t) != "threadpool::ThreadPool::execute":
                continue
            pr = provenance(f, t["args"][1], through=None, into_aggs=False)
            for r in pr:
                if r[0] == "agg" and r[1].startswith("closure "):
                    cl = prog.fn("stylua", r[1][len("closure "):])
                    if cl and any(callee(tt) == "format_file" for _, tt in cl.calls()):
                        disp = (b, t, cl)
        if not rep.anchor(disp is not None, "pool.execute of the format_file worker", cfg):
            continue
        db = disp[0]
        contains = [(b, t) for b, t in f.calls() if re.search(r"HashSet::<T, S, A>::contains$", callee(t))]
        inserts = [(b, t) for b, t in f.calls() if re.search(r"HashSet::<T, S, A>::insert$", callee(t))]
        if len(contains) == 0 and len(inserts) == 1 and _insert_guards(f, inserts[0], db):
            # `if !seen_files.insert(path) { continue }`: insert() answers "was it new?" and records it in one step
            rep.inst("stylua::format dispatch-dominated-by-not-seen-and-insert", {"form": "insert() result"}, cfg, ok=True)
        elif len(contains) == 0 or len(inserts) == 0:
            rep.inst("stylua::format dispatch-dominated-by-not-seen-and-insert", None, cfg, ok=False)
            rep.violation("stylua::format dedup-not-enforced",
                          "the format_file dispatch is not preceded by `seen_files.contains(path)` / `seen_files.insert(path)`: "
                          "a file reachable through several arguments would be processed twice", f.loc(disp[1]["sp"]), cfg)
        elif rep.anchor(len(contains) == 1 and len(inserts) == 1, "seen_files.contains / insert", cfg):
            cb, ct = contains[0]
            ib, it = inserts[0]
            e = bool_edge(f, cb)
            ok = False
            if e:
                tr, fl = e
                ok = f.dominates(fl, db) and db not in f.reach_from(tr, avoid={cb}) and f.dominates(ib, db) and \
                    f.dominates(fl, ib)
                # the true edge goes back to the loop without dispatch: `continue`
            same_set = provenance(f, ct["args"][0], through=None) & provenance(f, it["args"][0], through=None)
            # both keyed on `path`
            pl = f.names.get("path", {}).get("l")
            k1 = provenance(f, ct["args"][1])
            k2 = provenance(f, it["args"][1])
            kc = prov_calls(k1) | prov_calls(k2)
            keyed = bool(k1 & k2) and bool(kc) and \
                all(re.search(r"ignore::Walk as std::iter::Iterator>::next$|DirEntry::(path|into_path)$", c) for c in kc)
            rep.inst("stylua::format dispatch-dominated-by-not-seen-and-insert", None, cfg, ok=ok and bool(same_set) and keyed)
            if not (ok and same_set and keyed):
                rep.violation("stylua::format dedup-not-enforced",
                              "the format_file dispatch is not dominated by `!seen_files.contains(path)` followed by "
                              "`seen_files.insert(path)` on the same set/key: a file reachable through several "
                              "arguments would be processed twice", f.loc(disp[1]["sp"]), cfg)
            # the worker's path is the de-duplicated path
            # (closure upvar provenance shares a root with the contains key)
        if dedup_only:
            continue     # C19: one job per file (two jobs on one file race on its contents); the selection clauses are C16's
        # (1a) "is it a file?" is asked of the path (`Path::is_file`, which follows symbolic links), not of the walker's
        # lstat-based entry type: a symlinked *.lua below a directory argument is selected like any other file
        isf = [(b, t) for b, t in f.calls() if callee(t).endswith("Path::is_file")]
        lst = sorted({callee(t).split("::")[-1] for g in [f] + [x for x in prog.fns("stylua") if x.path.startswith("format::{closure")]
                      for b, t in g.calls() if re.search(r"DirEntry::file_type$|FileType::is_file$|fs::symlink_metadata$|Path::symlink_metadata$|Path::is_symlink$", callee(t))})
        okf = False
        for b, t in isf:
            e = bool_edge(f, b)
            if e and e[0] is not None and f.dominates(e[0], db):
                okf = True
        rep.inst("stylua::format dispatch guarded by Path::is_file of the entry's path", {"lstat_based_calls": lst}, cfg, ok=okf and not lst)
        if not okf or lst:
            rep.violation("stylua::format file-test-not-following-links" + (f" via={','.join(lst)}" if lst else ""),
                          "the format_file dispatch is not guarded by `path.is_file()`" + (f" (the entry's kind is taken from {lst})" if lst else "") +
                          ": the walker reports a symbolic link below a directory argument as a link, not as a file, so a symlinked "
                          "Lua file that matches the glob and is not ignored is silently skipped (and selected again when named explicitly)",
                          f.loc(disp[1]["sp"]), cfg)
        # (1b) every path argument becomes a walker root: a root (depth 0) is what exempts an explicitly named file from the
        # ignore / hidden / glob filters, so `WalkBuilder::add` runs for every element of opt.files[1..]
        adds = [(b, t) for b, t in f.calls() if re.search(r"WalkBuilder::add$", callee(t))]
        if rep.anchor(len(adds) == 1, f"one WalkBuilder::add call in format ({len(adds)})", cfg):
            ab, at = adds[0]
            dom_ = f.dominators()
            hs = [b for b, t in f.calls() if re.search(r"Iterator>::next$|iter::Iterator::next$", callee(t))
                  and b in dom_.get(ab, ()) and b in f.reach_from(ab)]
            if rep.anchor(bool(hs), "loop over opt.files[1..] around WalkBuilder::add", cfg):
                h = max(hs, key=lambda x: len(dom_.get(x, ())))
                nxt = f.blocks[h]["term"].get("t")
                skipping = nxt is not None and h in f.reach_from(nxt, avoid={ab})
                src = prov_calls(provenance(f, f.blocks[h]["term"]["args"][0]))
                okr = not skipping
                rep.inst("stylua::format every path argument is added as a walker root", {"loop_over": sorted(c.split("::")[-1] for c in src)[:4]}, cfg, ok=okr)
                if not okr:
                    rep.violation("stylua::format path-argument-not-added-as-root",
                                  "the loop over the path arguments can return to its head without calling WalkBuilder::add: an "
                                  "argument that is skipped is reached, if at all, only through another argument's directory walk, "
                                  "where .styluaignore / hidden / glob filters apply - an explicitly named file is silently "
                                  "left unformatted", f.loc(at["sp"]), cfg)
        # (2) default glob constants
        inis = [g for g in prog.fns("stylua") if g.path.endswith("__static_ref_initialize") and
                any(callee(t) == "globset::Glob::new" for _, t in g.calls())]
        ini = inis[0] if len(inis) == 1 else None
        if rep.anchor(ini is not None, "DEFAULT_GLOB initialiser (the lazy static that builds the default GlobSet)", cfg):
            globs = []
            for b, t in ini.calls():
                if callee(t) == "globset::Glob::new":
                    pr = provenance(ini, t["args"][0], through=None)
                    globs += [r[1][2:] for r in pr if r[0] == "const" and r[1].startswith("s:")]
            want = ["**/*.lua"] + (["**/*.luau"] if "luau" in extract.FEATURES[cfg] else [])
            ok = sorted(globs) == sorted(want)
            rep.inst("stylua DEFAULT_GLOB patterns", {"found": globs, "expected": want}, cfg, ok=ok)
            if not ok:
                rep.violation("stylua::format::DEFAULT_GLOB patterns",
                              f"default glob patterns are {globs}, expected {want} in configuration {cfg}",
                              ini.loc(), cfg)
            # the glob test `continue`s (no dispatch) when not matched, and is only applied under
            # use_default_glob && should_respect_ignores
            im = [(b, t) for b, t in f.calls() if callee(t) == "globset::GlobSet::is_match"]
            if rep.anchor(len(im) == 1, "DEFAULT_GLOB.is_match in format", cfg):
                e = bool_edge(f, im[0][0])
                if e is None and im[0][1].get("t") is not None and not im[0][1]["dst"].get("p"):
                    from r_guard import _switch_on
                    sw_ = _switch_on(f, im[0][1]["dst"]["l"], im[0][1]["t"], depth=10)
                    if sw_ is not None:
                        e = (sw_[1], sw_[2])
                if e is None:
                    # negated: `if !is_match { continue }`
                    nb = f.blocks[im[0][1]["t"]]
                    tt = nb["term"]
                    neg = any(s["k"] == "assign" and s["rv"]["k"] == "unop" and s["rv"]["op"] == "Not" for s in nb["st"])
                    if tt["k"] == "switch" and neg:
                        fl = [bb for v, bb in tt["targets"] if v == 0][0]
                        e = (fl, tt["otherwise"])  # (matched-edge, not-matched-edge)
                okm = False
                if e:
                    matched, notmatched = e
                    okm = db not in f.reach_from(notmatched, avoid={contains[0][0]} if contains else ({inserts[0][0]} if inserts else ()))
                rep.inst("stylua::format glob-mismatch-skips-file", None, cfg, ok=okm)
                if not okm:
                    rep.violation("stylua::format glob-mismatch-does-not-skip",
                                  "a file that does not match the default glob still reaches the dispatch",
                                  f.loc(im[0][1]["sp"]), cfg)
                # guarded by should_respect_ignores(...) true edge and use_default_glob
                sri = [(b, t) for b, t in f.calls() if callee(t) == "should_respect_ignores"]
                okg = False
                for b, t in sri:
                    ee = bool_edge(f, b)
                    if ee and f.dominates(ee[0], im[0][0]):
                        okg = True
                rep.inst("stylua::format default-glob-only-if-should_respect_ignores", None, cfg, ok=okg)
                if not okg:
                    rep.violation("stylua::format default-glob-applied-to-explicit-paths",
                                  "the default glob test is not guarded by should_respect_ignores(): explicitly named "
                                  "files would be filtered by the glob", f.loc(im[0][1]["sp"]), cfg)
        # (3) hidden(!opt.allow_hidden)
        hid = [(b, t) for b, t in f.calls() if callee(t) == "ignore::WalkBuilder::hidden"]
        if rep.anchor(len(hid) == 1, "WalkBuilder::hidden call", cfg):
            b, t = hid[0]
            ok = False
            l = op_local(t["args"][1])
            for dbi, dsi, s in f.defs().get(l, []):
                if dsi != "term" and s["rv"]["k"] == "unop" and s["rv"]["op"] == "Not":
                    src = op_local(s["rv"]["a"])
                    for d2b, d2s, s2 in f.defs().get(src, []):
                        if d2s != "term" and s2["rv"]["k"] == "use" and not is_const(s2["rv"]["o"]):
                            fs = proj_fields(op_place(s2["rv"]["o"]))
                            if fs and fs[-1] == ("f", "allow_hidden"):
                                ok = True
            rep.inst("stylua::format hidden(!opt.allow_hidden)", None, cfg, ok=ok)
            if not ok:
                rep.violation("stylua::format hidden-wiring", "WalkBuilder::hidden is not given `!opt.allow_hidden`",
                              f.loc(t["sp"]), cfg)
        # (4) ignore file name constants
        for cal, want in (("ignore::WalkBuilder::add_custom_ignore_filename", ".styluaignore"),):
            cs = [(b, t) for b, t in f.calls() if callee(t) == cal]
            ok = len(cs) == 1 and is_const(cs[0][1]["args"][1]) and cs[0][1]["args"][1].get("s") == want
            rep.inst(f"stylua::format {cal.split('::')[-1]}({want})", None, cfg, ok=ok)
            if not ok:
                rep.violation(f"stylua::format {cal.split('::')[-1]}-constant",
                              f"{cal} is not called exactly once with \"{want}\"", f.loc(), cfg)
        sf = [(b, t) for b, t in f.calls() if callee(t) == "ignore::WalkBuilder::standard_filters"]
        if sf:
            a = sf[0][1]["args"][1]
            ok = is_const(a) and a.get("v") is True
            rep.inst("stylua::format standard_filters(true)", None, cfg, ok=ok)
            if not ok:
                rep.violation("stylua::format standard_filters-not-true", "standard_filters is not enabled", f.loc(), cfg)
        # (4b) no other walker option narrows what is visited or which ignore files are read
        allowed_wb = {"new", "add", "standard_filters", "hidden", "parents", "add_custom_ignore_filename", "add_ignore",
                      "overrides", "build"}
        nwb = 0
        for b, t in f.calls():
            c = callee(t)
            if not c.startswith("ignore::WalkBuilder::"):
                continue
            nwb += 1
            m = c.split("::")[-1]
            if m not in allowed_wb:
                rep.inst(f"stylua::format WalkBuilder::{m}", None, cfg, ok=False)
                rep.violation(f"stylua::format unexpected-walker-option {m}",
                              f"the directory walker is configured with WalkBuilder::{m}, which is not part of the documented "
                              f"selection rules (standard filters, hidden files, ignore files of all parent directories, "
                              f".styluaignore, --glob overrides)", f.loc(t["sp"]), cfg)
            elif m == "parents":
                a = t["args"][1]
                ok = is_const(a) and a.get("v") is True
                rep.inst("stylua::format parents(true)", None, cfg, ok=ok)
                if not ok:
                    rep.violation("stylua::format parents-not-true",
                                  "WalkBuilder::parents is not the constant true: ignore files (.styluaignore, .gitignore) in "
                                  "directories above a directory argument are no longer read in every run, so files they "
                                  "exclude get formatted", f.loc(t["sp"]), cfg)
        rep.floor("WalkBuilder configuration calls", nwb, 6, cfg)
        # standard_filters(x) assigns *all* the individual filters (hidden, parents, ignore, git_*): an individual setting made
        # before it is overwritten, so it has to come first
        sfb = [b for b, t in f.calls() if callee(t) == "ignore::WalkBuilder::standard_filters"]
        for b, t in f.calls():
            m = callee(t).split("::")[-1]
            if callee(t).startswith("ignore::WalkBuilder::") and m in ("hidden", "parents", "ignore", "git_ignore", "git_global",
                                                                          "git_exclude", "require_git"):
                ok = all(f.dominates(sb, b) and sb != b for sb in sfb)
                rep.inst(f"stylua::format {m}(..) is applied after standard_filters(..)", None, cfg, ok=ok)
                if not ok:
                    rep.violation(f"stylua::format walker-option-overwritten {m}",
                                  f"WalkBuilder::{m} is called before standard_filters, which then overwrites it: the option "
                                  f"behind it (e.g. --allow-hidden) has no effect and files the selection rules include are "
                                  f"skipped (or the reverse)", f.loc(t["sp"]), cfg)
        # (5) should_respect_ignores = !is_explicitly_provided || opt.respect_ignores
        g = prog.fn("stylua", "should_respect_ignores")
        if rep.anchor(g is not None, "should_respect_ignores", cfg):
            c = [(b, t) for b, t in g.calls() if callee(t) == "is_explicitly_provided"]
            ok = False
            if len(c) == 1:
                e = bool_edge(g, c[0][0])
                if e:
                    tr, fl = e
                    # false edge: returns const true; true edge: returns opt.respect_ignores
                    def ret_val(region):
                        out = []
                        for bb in region:
                            for s in g.blocks[bb]["st"]:
                                if s["k"] == "assign" and s["dst"]["l"] == 0 and s["rv"]["k"] == "use":
                                    o = s["rv"]["o"]
                                    if is_const(o):
                                        out.append(("const", o.get("v")))
                                    else:
                                        out.append(("field", tuple(proj_fields(op_place(o))[-1:])))
                        return out
                    rf = ret_val([fl])
                    rt = ret_val([tr])
                    ok = rf == [("const", True)] and rt == [("field", (("f", "respect_ignores"),))]
            rep.inst("stylua::should_respect_ignores table", {"rule": "!explicit -> true; explicit -> opt.respect_ignores"},
                     cfg, ok=ok)
            if not ok:
                rep.violation("stylua::should_respect_ignores decision-table",
                              "should_respect_ignores is not `!is_explicitly_provided(..) || opt.respect_ignores`",
                              g.loc(), cfg)
        g = prog.fn("stylua", "is_explicitly_provided::{closure#0}")
        g0 = prog.fn("stylua", "is_explicitly_provided")
        if g0 is not None and g is None:
            rep.inst("stylua::is_explicitly_provided = opt.files.any(== path)", None, cfg, ok=False)
            rep.violation("stylua::is_explicitly_provided shape",
                          "is_explicitly_provided no longer compares the walked path with the entries of opt.files "
                          "(`opt.files.iter().any(|p| path == *p)`): whether a path counts as explicitly provided now depends on "
                          "something else (walker depth, argument order), so an explicit file inside a directory argument is "
                          "filtered like a walked file", g0.loc(), cfg)
        elif rep.anchor(g is not None and g0 is not None, "is_explicitly_provided", cfg):
            anyc = [t for b, t in g0.calls() if callee(t).endswith("Iterator>::any")]
            files = False
            for bb, si_, s in g0.stmts():
                if s["k"] == "assign" and s["rv"]["k"] == "ref" and proj_fields(s["rv"]["p"])[-1:] == [("f", "files")]:
                    files = True
            eq = [t for b, t in g.calls() if callee(t).endswith("::eq")]
            ok = bool(anyc) and files and len(eq) == 1
            rep.inst("stylua::is_explicitly_provided = opt.files.any(== path)", None, cfg, ok=ok)
            if not ok:
                rep.violation("stylua::is_explicitly_provided shape",
                              "is_explicitly_provided is no longer `opt.files.iter().any(|p| path == *p)`", g0.loc(), cfg)
        # (6) explicit + respect_ignores + ignored => skip (continue) before dispatch
        pis = [(b, t) for b, t in f.calls() if callee(t) == "path_is_stylua_ignored"]
        rep.floor("path_is_stylua_ignored call sites in format", len(pis), 2, cfg)
        # (7) --glob patterns are anchored at the absolute working directory: the walker yields absolute entries for
        # absolute arguments, and the override matcher strips its root before matching anchored patterns
        obs = [(b, t) for b, t in f.calls() if re.search(r"OverrideBuilder::new$", callee(t))]
        if rep.anchor(len(obs) >= 1, "OverrideBuilder::new in format", cfg):
            for b, t in obs:
                src = prov_calls(provenance(f, t["args"][0], through=re.compile(PROV_THROUGH.pattern + r"|Try>::branch$|AsRef<.*>>::as_ref$")))
                ok = any(c.endswith("env::current_dir") for c in src)
                rep.inst("stylua::format glob overrides rooted at current_dir()", {"root_from": sorted(c.split('::')[-1] for c in src)}, cfg, ok=ok)
                if not ok:
                    rep.violation("stylua::format glob-override-root-not-current_dir",
                                  "the --glob override matcher is not rooted at std::env::current_dir(): with a relative or "
                                  "constant root the working-directory prefix of absolute walker entries is not stripped, so "
                                  "anchored patterns (`!vendor/**`, `src/**/*.lua`) never match files given by absolute path",
                                  f.loc(t["sp"]), cfg)
    return rep


def rule_err_status(ctx, prop):
    rep = Report(prop, "R-ERRSTATUS", "every path of the output thread that handles an Err result raises the exit status to 2 "
                                      "by writing EXIT_CODE directly (a store under `is_err()` of the received result ahead of the match "
                                      "counts; error!() does not - whether its record reaches the logger's closure is up to STYLUA_LOG)")
    for cfg, prog in ctx.programs.items():
        prog = _view(prog)
        oc = _output_closure(prog)
        if not rep.anchor(oc is not None, "output closure format::{closure#0}", cfg):
            continue
        nexts = [b for b, t in oc.calls() if re.search(r"crossbeam_channel::IntoIter<T> as std::iter::Iterator>::next$", callee(t))]
        if not rep.anchor(len(nexts) == 1, "receiver loop in output closure", cfg):
            continue
        header = nexts[0]
        errb = None
        for bi in range(len(oc.blocks)):
            si = switch_info(oc, bi)
            if si and si["enum"].endswith("result::Result") and si["targets"].get("Err") is not None and \
                    si["targets"].get("Ok") is not None:
                pr = provenance(oc, si["place"], through=None)
                if any(r[0] == "call" and r[2] == header for r in pr):
                    errb = si["targets"]["Err"]
        if not rep.anchor(errb is not None, "Err arm of the received result", cfg):
            continue
        uses, _ = static_uses(prog, "EXIT_CODE")
        raisers = set()
        for f, bi, t, m, consts in uses:
            if f is oc and m in ("store", "fetch_max") and consts and consts[0] == 2:
                raisers.add(bi)
        # error!() is NOT a raiser: the logger's format closure stores 2 only for records that pass the filter, and the filter
        # is under the control of the environment (`STYLUA_LOG=stylua=off`) - found as F24 and repaired; the status is raised by
        # writing EXIT_CODE directly
        rep.floor("status-2 raisers in the output closure", len(raisers), 3, cfg)
        # a store under `if output.is_err()` on the received result, ahead of the match, covers its Err arm
        pre_raised = False
        for rb in raisers:
            for b2, t2 in oc.calls():
                if re.search(r"Result::<.*>::is_err$", callee(t2)) and t2["args"] and \
                        any(r[0] == "call" and r[2] == header for r in provenance(oc, t2["args"][0], through=None)):
                    e2 = bool_edge(oc, b2)
                    if e2 and e2[0] is not None and e2[1] is not None and e2[0] != e2[1] and oc.dominates(e2[0], rb) and \
                            rb not in oc.reach_from(e2[1], avoid={e2[0]}) and oc.dominates(b2, errb) and \
                            errb not in oc.reach_from(e2[0], avoid={rb}):        # .. and nothing else decides whether it runs
                        pre_raised = True
        # every Err edge in the closure: the received result, and the results of the closure's own fallible calls
        # (stdout writes): search for a path Err-arm -> loop header avoiding raisers
        err_arms = [("received result", errb)]
        for bi in range(len(oc.blocks)):
            si = switch_info(oc, bi)
            if si and si["enum"].endswith("result::Result") and si["targets"].get("Err") is not None and \
                    si["targets"].get("Ok") is not None and si["targets"]["Err"] != errb:
                src = sorted({r[1].split("::")[-1] for r in provenance(oc, si["place"], through=None) if r[0] == "call"})
                err_arms.append((f"result of {','.join(src) or 'a local value'}", si["targets"]["Err"]))
        for label, eb in err_arms:
            seen = set()
            stack = [(eb, [])]
            escapes = []
            if label == "received result" and pre_raised:
                stack = []
            while stack:
                b, calls = stack.pop()
                if b in raisers:
                    continue
                if b == header or oc.blocks[b]["term"]["k"] == "return":
                    escapes.append(calls)
                    continue
                if b in seen:
                    continue
                seen.add(b)
                t = oc.blocks[b]["term"]
                nc = calls
                if t["k"] == "call":
                    c = callee(t)
                    if not re.search(r"(^core::|^std::(fmt|ptr|mem)|deref|drop|downcast_ref|::lock$)", c):
                        nc = calls + [c.split("::")[-1]]
                for s_ in oc.succ[b]:
                    stack.append((s_, nc))
            ok = not escapes
            first = label == "received result"
            rep.inst(f"{oc.key} Err-arm-always-raises-status-2" + ("" if first else f" [{label}]"),
                     {"err_block": eb, "raisers": sorted(raisers)[:8]}, cfg, ok=ok)
            keys = set()
            for calls in escapes:
                via = ",".join(calls[:6]) or "nothing"
                if via in keys:
                    continue
                keys.add(via)
                rep.violation(f"{oc.key} error-handled-without-status-2 " + ("" if first else f"on={label.replace(' ', '-')} ") + f"via={via}",
                              f"the output thread has a path that handles an Err ({label}; calls: {via}) and returns to the "
                              f"receive loop without raising the exit status to 2: the run can exit 0/1 although a file could "
                              f"not be read, parsed or verified - or its result could not be reported", oc.loc(), cfg)
        rep.floor("Err arms in the output closure", len(err_arms), 1, cfg)
        # the walking thread: a path argument that cannot be walked (missing file, unreadable directory) is an Err item of the
        # walker; the same applies to it
        ff = prog.fn("stylua", "format")
        if ff is not None:
            wn = [b for b, t in ff.calls() if re.search(r"<ignore::Walk as std::iter::Iterator>::next$", callee(t))]
            if rep.anchor(len(wn) == 1, "walker loop in format", cfg):
                wh = wn[0]
                werr = None
                for bi in range(len(ff.blocks)):
                    si = switch_info(ff, bi)
                    if si and si["enum"].endswith("result::Result") and si["targets"].get("Err") is not None and \
                            any(r[0] == "call" and r[2] == wh for r in provenance(ff, si["place"], through=None)):
                        werr = si["targets"]["Err"]
                wr = {bi for f_, bi, t, m, consts in uses if f_ is ff and m in ("store", "fetch_max") and consts and consts[0] == 2}
                okw = False
                if werr is not None:
                    # raised inside the arm on every path back to the loop head, or ahead of the match under is_err()
                    inside = wh not in ff.reach_from(werr, avoid=wr) and not any(
                        ff.blocks[b_]["term"]["k"] == "return" for b_ in ff.reach_from(werr, avoid=wr))
                    ahead = False
                    for rb in wr:
                        for b2, t2 in ff.calls():
                            if re.search(r"Result::<.*>::is_err$", callee(t2)) and t2["args"] and \
                                    any(r[0] == "call" and r[2] == wh for r in provenance(ff, t2["args"][0], through=None)):
                                e2 = bool_edge(ff, b2)
                                if e2 and e2[0] is not None and e2[1] is not None and e2[0] != e2[1] and ff.dominates(e2[0], rb) and \
                                        rb not in ff.reach_from(e2[1], avoid={e2[0]}) and ff.dominates(b2, werr) and \
                                        werr not in ff.reach_from(e2[0], avoid={rb}):
                                    ahead = True
                    okw = inside or ahead
                if rep.anchor(werr is not None, "Err arm of the walker item in format", cfg):
                    rep.inst("stylua::format walker-error-raises-status-2", None, cfg, ok=okw)
                    if not okw:
                        rep.violation("stylua::format walker-error-without-status-2",
                                      "an Err item of the directory walker (a path argument that does not exist or cannot be read) is "
                                      "only logged: with the record filtered out (`STYLUA_LOG=stylua=off`) the run exits 0 although "
                                      "a selected path was not processed", ff.loc(), cfg)
    return rep


def rule_loop_exit(ctx, prop):
    rep = Report(prop, "R-LOOPEXIT", "inside the directory-walk loop of `format`, only configuration / ignore-file errors may "
                                     "abort the whole run; per-file failures must travel to the output thread as values")
    allowed = re.compile(r"^(path_is_stylua_ignored|config::ConfigResolver::<'_>::load_configuration(_for_stdin)?)$")
    for cfg, prog in ctx.programs.items():
        prog = _view(prog)
        f = prog.fn("stylua", "format")
        if not rep.anchor(f is not None, "fn format", cfg):
            continue
        nexts = [b for b, t in f.calls() if re.search(r"<ignore::Walk as std::iter::Iterator>::next$", callee(t))]
        if not rep.anchor(len(nexts) == 1, "walker loop in format", cfg):
            continue
        header = nexts[0]
        loop = {b for b in f.reach_from(header) if header in f.reach_from(b) and b != header} | {header}
        n = 0
        for b, t in f.calls():
            if b not in loop or not callee(t).endswith("ops::Try>::branch"):
                continue
            # does the Break edge leave the loop (return)?
            nb = t["t"]
            si = switch_info(f, nb)
            if not si or si["targets"].get("Break") is None:
                continue
            brk = si["targets"]["Break"]
            if header in f.reach_from(brk):
                continue
            n += 1
            pr = provenance(f, t["args"][0])
            # an inlined helper that itself uses `?` rebuilds the error with from_residual: the error is the inner one
            for _ in range(4):
                res = {r for r in pr if r[0] == "call" and r[1].endswith("from_residual")}
                if not res:
                    break
                pr = pr - res
                for r in res:
                    ta = f.blocks[r[2]]["term"]["args"]
                    if ta:
                        pr |= provenance(f, ta[0])
            calls = {c for c in prov_calls(pr)}
            src = sorted(calls)
            ok = bool(calls) and all(allowed.search(c) for c in calls)
            rep.inst(f"stylua::format loop-abort-source {','.join(c.split('::')[-1] for c in src)}", {"sources": src,
                                                                                                     "at": f.loc(t["sp"])}, cfg, ok=ok)
            if not ok:
                rep.violation(f"stylua::format walk-loop-aborts-on {','.join(c.split('::')[-1] for c in src) or 'unknown'}",
                              f"an error from {src} inside the directory-walk loop makes `format` return early: the files "
                              f"not yet dispatched are never formatted (a per-file failure must be sent to the output "
                              f"thread instead)", f.loc(t["sp"]), cfg)
        # panics / unwraps on per-file data inside the loop are the same hazard (reported, not armed)
        rep.floor("early exits from the walk loop", n, 3, cfg)
    return rep


def rule_nodiff(ctx, prop):
    """the diff producers answer `no difference` (Ok(None)) only through exact tests"""
    rep = Report(prop, "R-NODIFF", "the functions that turn (old, new) into an optional diff decide `no difference` by exact "
                                   "tests: no floating-point comparison takes part in any of their decisions")
    for cfg, prog in ctx.programs.items():
        prog = _view(prog)
        fns = [f for f in prog.fns("stylua") if re.search(r"^(output_diff::|create_diff$|format_file$|format_string$)", f.path)]
        if not rep.anchor(len(fns) >= 4, f"diff producers in the stylua crate ({len(fns)})", cfg):
            continue
        producers = 0
        for f in fns:
            ret = f.locals[0]
            is_prod = "Option<std::vec::Vec<u8>>" in ret
            producers += is_prod
            floats = []
            for b, si_, s in f.stmts():
                if s["k"] == "assign" and s["rv"]["k"] == "binop" and s["rv"]["op"] in ("Eq", "Ne", "Lt", "Le", "Gt", "Ge"):
                    tys = []
                    for o in (s["rv"]["a"], s["rv"]["b"]):
                        if is_const(o):
                            tys.append(o.get("ty", ""))
                        else:
                            pl = op_place(o)
                            tys.append(f.local_ty(pl["l"]) if not pl.get("p") else "?")
                    if any(t in ("f32", "f64") for t in tys):
                        floats.append((s["rv"]["op"], s))
            rep.inst(f"{f.key} decides without floating-point comparisons", {"returns_optional_diff": is_prod}, cfg, ok=not floats)
            for op, s in floats[:1]:
                rep.violation(f"{f.key} float-comparison-in-diff-decision op={op}",
                              f"{f.path} compares floating-point values ({op}): a similarity ratio rounds to 1.0 for a small "
                              f"change in a very large file, so `--check` reports no difference (exit 0, no diff) for a file "
                              f"that is not formatted", f.loc(s["sp"]), cfg)
        rep.floor("functions returning an optional diff", producers, 3, cfg)
    return rep


def rule_ignore_arg(ctx, prop):
    """sibling agreement: every question `is this path ignored?` is asked with the user's own
    --search-parent-directories flag (file mode and stdin mode must search the same directories)"""
    from paths import access_path, path_key
    rep = Report(prop, "R-IGNOREARG", "every call of path_is_stylua_ignored passes opt.search_parent_directories itself "
                                      "(no derived condition), in file mode and in stdin mode alike")
    for cfg, prog in ctx.programs.items():
        prog = _view(prog)
        sites = list(call_sites(prog, r"(^|::)path_is_stylua_ignored$", "stylua"))
        for f, b, t in sites:
            k = path_key(access_path(f, t["args"][1]))
            ok = k.endswith(".search_parent_directories") and not k.startswith("local:")
            rep.inst(f"{f.key} path_is_stylua_ignored(.., {k.split('.', 1)[-1]})", {"at": f.loc(t["sp"])}, cfg, ok=ok)
            if not ok:
                rep.violation(f"{f.key} ignore-search-flag-derived arg={k.split(':')[0]}",
                              f"{f.path} asks path_is_stylua_ignored with a search-parent-directories argument that is not "
                              f"opt.search_parent_directories itself ({k}): `.styluaignore` files in parent directories are "
                              f"consulted under different conditions than the option says (and than the sibling call site)",
                              f.loc(t["sp"]), cfg)
        rep.floor("call sites of path_is_stylua_ignored", len(sites), 2, cfg)
    return rep


def rule_ignore_guard(ctx, prop):
    """stdin mode: with --respect-ignores and a --stdin-filepath the ignore question is always asked - no further condition
    (a cached 'is there an ignore file in the cwd' bit, another option) stands between the flag and the lookup"""
    rep = Report(prop, "R-IGNOREGUARD", "in stdin mode path_is_stylua_ignored is reached from the true edge of the "
                                        "opt.respect_ignores test by unconditional edges only (the lookup is skipped for no "
                                        "other reason than the flag being off or no --stdin-filepath)")
    for cfg, prog in ctx.programs.items():
        prog = _view(prog)
        n = 0
        for f, b, t in call_sites(prog, r"(^|::)path_is_stylua_ignored$", "stylua"):
            # the stdin-mode site is the one dominated by the test of the flag (file mode asks should_respect_ignores())
            sw = [x for x in field_switches(f, "respect_ignores") if f.dominates(x[0], b)]
            if not sw:
                continue
            n += 1

            def straight(frm, to):
                cur = frm
                for _ in range(16):
                    if cur == to:
                        return True
                    tt = f.blocks[cur]["term"]
                    if tt["k"] in ("goto", "drop", "assert") or (tt["k"] == "call" and tt.get("t") is not None):
                        cur = tt["t"]
                    else:
                        return False
                return False
            ok = any(tr is not None and straight(tr, b) for _, tr, fl, _ in sw)
            rep.inst(f"{f.key} respect_ignores => path_is_stylua_ignored", {"at": f.loc(t["sp"])}, cfg, ok=ok)
            if not ok:
                rep.violation(f"{f.key} ignore-lookup-behind-extra-condition",
                              f"{f.path}: between the test of opt.respect_ignores and the call of path_is_stylua_ignored stands "
                              f"another branch: with --respect-ignores and an ignored --stdin-filepath the lookup can be skipped "
                              f"(e.g. when the matching .styluaignore lives next to the file and not in the working directory) "
                              f"and the buffer is formatted instead of passed through", f.loc(t["sp"]), cfg,
                              witness={"argv": "stylua --respect-ignores --stdin-filepath sub/x.lua -  (sub/.styluaignore: x.lua; no ./.styluaignore)"})
        rep.floor("stdin-mode ignore lookups guarded by respect_ignores", n, 1, cfg)
    return rep


def rule_verify_wiring(ctx, prop):
    """--verify means OutputVerification::Full in every mode: the choice depends on opt.verify alone"""
    rep = Report(prop, "R-VERIFYFLAG", "the OutputVerification handed to the formatter is Full exactly when opt.verify is "
                                       "set - no other option (check, output format, stdin) takes part in the choice")
    for cfg, prog in ctx.programs.items():
        prog = _view(prog)
        n = 0
        for f in prog.fns("stylua"):
            sites = [(b, s) for b, si_, s in f.stmts() if s["k"] == "assign" and s["rv"]["k"] == "agg"
                     and s["rv"].get("adt", "").endswith("OutputVerification") and s["rv"].get("variant") in ("Full", "None")]
            if not sites:
                continue
            sw = field_switches(f, "verify")
            if len(sw) < 1:
                # an OutputVerification value chosen with no test of opt.verify in sight
                vs = sorted({s_["rv"].get("variant") for b_, s_ in sites})
                rep.inst(f"{f.key} OutputVerification chosen by opt.verify", {"variants": vs}, cfg, ok=False)
                rep.violation(f"{f.key} verification-level-chosen-without-verify-flag {','.join(vs)}",
                              f"{f.path} builds OutputVerification::{'/'.join(vs)} without branching on opt.verify: the formatter is run "
                              f"with a verification level the user did not ask for (for instance a second, unverified formatting of a "
                              f"file that just failed --verify, whose result is then written)", f.loc(sites[0][1]["sp"]), cfg)
                continue

            def straight(frm, to):
                """`to` is reached from `frm` by unconditional edges only"""
                cur = frm
                for _ in range(12):
                    if cur == to:
                        return True
                    t = f.blocks[cur]["term"]
                    if t["k"] in ("goto", "drop", "assert"):
                        cur = t["t"]
                    elif t["k"] == "call" and t.get("t") is not None:
                        cur = t["t"]
                    else:
                        return False
                return False
            for b, s in sites:
                n += 1
                v = s["rv"]["variant"]
                ok = any(straight(tr if v == "Full" else fl, b) for _, tr, fl, _ in sw if (tr if v == "Full" else fl) is not None)
                rep.inst(f"{f.key} OutputVerification::{v} chosen by opt.verify alone", {"at": f.loc(s.get("sp"))}, cfg, ok=ok)
                if not ok:
                    others = sorted({callee(f.blocks[d]["term"]).split("::")[-1] if f.blocks[d]["term"]["k"] == "call" else
                                     ".".join(str(x[1]) for x in proj_fields(op_place(f.blocks[d]["term"]["on"])) if x[0] == "f")
                                     for d in f.dominators().get(b, ()) if f.blocks[d]["term"]["k"] == "switch"} - {""})
                    rep.violation(f"{f.key} verification-choice-depends-on-more-than-verify {v}",
                                  f"{f.path} chooses OutputVerification::{v} under a condition that is not `opt.verify` alone "
                                  f"(switches above it: {others}): with some other option `--verify` is silently dropped, so a file "
                                  f"whose output fails verification is reported as a plain diff / success instead of exit status 2",
                                  f.loc(s.get("sp")), cfg)
        rep.floor("OutputVerification choices", n, 2, cfg)
    return rep


def rule_panic_mode(ctx, prop):
    """worker panics are survivable only if they unwind: the build manifest must not select panic = abort"""
    import os
    rep = Report(prop, "R-PANICMODE", "no Cargo profile of the workspace builds with panic = \"abort\": a panicking formatter "
                                      "thread must unwind so that the pool respawns it and panic_count() turns into status 2")
    root = getattr(ctx, "repo", None) or "/repo"
    manifests = []
    for dp, dn, fn in os.walk(root):
        dn[:] = [d for d in dn if d not in ("target", ".git", "node_modules")]
        for n in fn:
            if n == "Cargo.toml" or (n == "config.toml" and dp.endswith(".cargo")):
                manifests.append(os.path.join(dp, n))
    rep.anchor(bool(manifests), "Cargo.toml of the workspace")
    for m in sorted(manifests):
        try:
            txt = open(m).read()
        except OSError:
            continue
        section = ""
        bad = []
        for line in txt.splitlines():
            ln = line.split("#", 1)[0].strip()
            if ln.startswith("["):
                section = ln.strip("[]").strip()
                continue
            mm = re.match(r"^(?:profile\.[\w.-]+\.)?panic\s*=\s*[\"']([\w-]+)[\"']", ln) if (section.startswith("profile") or ln.startswith("profile.")) else None
            if mm and mm.group(1) == "abort":
                bad.append(section or ln.split("=")[0].strip())
            if re.search(r"-C\s*panic=abort|panic=abort", ln) and "rustflags" in ln:
                bad.append("rustflags")
        rel = os.path.relpath(m, root)
        rep.inst(f"{rel} keeps panic = unwind", {"profiles_with_abort": bad}, None, ok=not bad)
        for b in bad:
            rep.violation(f"{rel} panic-abort-profile {b}",
                          f"{rel}: [{b}] sets panic = \"abort\": a file whose formatting panics kills the whole process (SIGABRT, "
                          f"status 134) - the files queued behind it stay unformatted and the status is not 2", rel, None)
    return rep


STATEFUL_CALL = re.compile(r"thread::LocalKey|thread::local|OnceLock|OnceCell|once_cell::|lazy::Lazy|LazyLock|LazyCell|sync::Mutex|sync::RwLock|"
                           r"sync::atomic::|cell::RefCell|cell::Cell|sync::Once\b|parking_lot")


def rule_no_state(ctx, prop):
    """the library keeps no state between calls: every file is formatted from its own (Config, text) only"""
    rep = Report(prop, "R-NOSTATE", "stylua_lib holds no state across format calls: no static / thread-local cell, lock, atomic "
                                    "or once-initialised value except compiled regular expressions (which do not depend on the "
                                    "configuration or the input)")
    for cfg, prog in ctx.programs.items():
        nst = 0
        ncall = 0
        for f in prog.fns("stylua_lib"):
            if str(f.kind).startswith("Static"):
                nst += 1
                ty = f.locals[0] if f.locals else ""
                is_regex = "regex::Regex" in ty or any("Regex::new" in callee(t) or "regex::Regex" in callee_full(t) for b, t in f.calls()) \
                    or re.search(r"::(RE|UNNECESSARY_ESCAPES)$", f.path) is not None and not list(f.calls())
                interior = bool(re.search(r"Cell|Lock|Mutex|Atomic|Lazy|Once|LocalKey", ty))
                ok = is_regex or not interior
                rep.inst(f"stylua_lib::{f.path} static is a compiled regex or immutable data", {"type": ty[:80]}, cfg, ok=ok)
                if not ok:
                    rep.violation(f"stylua_lib::{f.path} stateful-static type={ty[:60]}",
                                  f"stylua_lib declares the static {f.path}: {ty}, a cell that outlives one format call; what it caches "
                                  f"from the first call (configuration, input) is served to later calls on the same thread / process, "
                                  f"so a file's output depends on which worker formatted which file before", f.loc(), cfg)
                continue
            for b, t in f.calls():
                c = callee_full(t) if "callee_full" in globals() else callee(t)
                c0 = callee(t)
                if not (STATEFUL_CALL.search(c0) or STATEFUL_CALL.search(c)):
                    continue
                ncall += 1
                # the lazily compiled regexes of format_token
                # a lazily compiled regular expression (lazy_static / once_cell / LazyLock): the cell's value type says so
                recv_ty = f.local_ty(op_place(t["args"][0])["l"]) if t["args"] and not is_const(t["args"][0]) else ""
                allowed = "Regex" in c or "Regex" in recv_ty or (f.path.endswith("__stability") and "Regex" in " ".join(f.locals))
                rep.inst(f"{f.key} {c0.split('::')[-2] if '::' in c0 else c0}::{c0.split('::')[-1]} is the regex lazy", None, cfg, ok=bool(allowed))
                if not allowed:
                    rep.violation(f"{f.key} state-across-calls via={'::'.join(c0.split('::')[-2:])}",
                                  f"{f.path} uses {c0}: a value kept in a static / thread-local cell between format calls; the pool "
                                  f"worker that formats several files reuses what the first file (its configuration) put there, so the "
                                  f"bytes written depend on --num-threads and on scheduling", f.loc(t["sp"]), cfg)
        rep.inst("statics and stateful calls of stylua_lib examined", {"statics": nst, "stateful_calls": ncall}, cfg, ok=True)
    return rep


def rule_ignore_order(ctx, prop):
    """explicit paths: the ignore file next to the file (or above it) wins; the working directory's is only a fallback"""
    rep = Report(prop, "R-IGNOREORDER", "get_ignore looks for the ignore file of the path's own directory first and consults the "
                                        "working directory's only when none was found")
    for cfg, prog in ctx.programs.items():
        prog = _view(prog)
        f = prog.fn("stylua", "get_ignore")
        if not rep.anchor(f is not None, "stylua::get_ignore", cfg):
            continue
        clos = [g for g in prog.fns("stylua") if g.path.startswith("get_ignore::{closure")]

        def kind(g, t):
            pr = provenance(g, t["args"][0])
            import r_cfg
            calls = r_cfg._deep_calls(g, t["args"][0])
            if any(c.endswith("env::current_dir") for c in calls):
                return "cwd"
            if g.kind == "Closure":
                # the closure's own argument: what the adaptor it is handed to (`.and_then(|cwd| ..)`) feeds it
                if any(r[0] == "arg" and r[1] >= 2 for r in pr):
                    parent = prog.fn("stylua", g.path.rsplit("::{closure", 1)[0])
                    anc = [h for h in [f] + clos if g.path.startswith(h.path) and h is not g]
                    for par in ([parent] if parent is not None else []) + anc:
                        for _, t2 in par.calls():
                            if any((not is_const(a)) and any(r2[0] == "agg" and r2[1] == "closure " + g.path
                                                             for r2 in provenance(par, a, through=None, into_aggs=False))
                                   for a in t2["args"][1:]):
                                import r_cfg
                                if any(c.endswith("env::current_dir") for c in r_cfg._deep_calls(par, t2["args"][0])):
                                    return "cwd"
                    if any(callee(t2).endswith("env::current_dir") for h in anc if h.kind == "Closure" for _, t2 in h.calls()):
                        return "cwd"
                if any(r[0] == "upvar" for r in pr):
                    return "dir"
                return "?"
            if any(r[0] == "arg" and r[1] == 1 for r in pr):
                return "dir"
            return "?"
        sites = [(g, b, t, kind(g, t)) for g in [f] + clos for b, t in g.calls() if callee(t).endswith("find_ignore_file_path")]
        dirs = [x for x in sites if x[3] == "dir"]
        cwds = [x for x in sites if x[3] == "cwd"]
        if len(dirs) != 1 or len(cwds) != 1:
            rep.notes.append(f"[{cfg}] get_ignore: lookups not recognised ({[x[3] for x in sites]}): order clause not evaluated")
            continue
        def position(g):
            """'primary' (evaluated whenever get_ignore runs) or 'fallback' (inside the closure of an or_else-like call)"""
            if g is f:
                return "primary"
            top = [h for h in clos if g.path.startswith(h.path) and h.path.count("::{closure") == f.path.count("::{closure") + 1]
            if not top:
                return None
            for _, t2 in f.calls():
                for a in t2["args"][1:]:
                    if not is_const(a) and any(r2[0] == "agg" and r2[1] == "closure " + top[0].path
                                               for r2 in provenance(f, a, through=None, into_aggs=False)):
                        return "fallback" if re.search(r"::(or_else|unwrap_or_else|or_insert_with)$", callee(t2)) else "primary"
            return None
        pd, pc = position(dirs[0][0]), position(cwds[0][0])
        ok = None
        if pd and pc and pd != pc:
            ok = pd == "primary" and pc == "fallback"
        elif pd == pc == "primary" and dirs[0][0] is f and cwds[0][0] is f:
            db, cb = dirs[0][1], cwds[0][1]
            ok = f.dominates(db, cb) and db != cb
        if ok is None:
            rep.notes.append(f"[{cfg}] get_ignore: fallback form not recognised: order clause not evaluated")
            continue
        rep.inst("stylua::get_ignore nearest ignore file first, cwd as fallback", None, cfg, ok=ok)
        if not ok:
            rep.violation("stylua::get_ignore ignore-lookup-order cwd-before-own-directory",
                          "get_ignore consults the working directory's .styluaignore before (instead of after) the one next to the "
                          "path: with --respect-ignores an explicitly named file that its own directory's .styluaignore excludes is "
                          "formatted whenever the working directory has an ignore file of its own", f.loc(), cfg)
    return rep


def rule_job_only_in_pool(ctx, prop):
    """a file is formatted inside a pool worker, never on the dispatching thread: only there a panic stays local"""
    rep = Report(prop, "R-WORKERS(pool)", "the closure that formats a file (calls format_file / format_string and sends the result) is "
                                          "only ever handed to ThreadPool::execute - it is never called directly on the walking thread")
    for cfg, prog in ctx.programs.items():
        prog = _view(prog)
        f = prog.fn("stylua", "format")
        if not rep.anchor(f is not None, "fn format", cfg):
            continue
        jobs = [g for g in prog.fns("stylua") if g.kind == "Closure" and g.path.startswith("format::{closure")
                and any(callee(t) in ("format_file", "format_string") for _, t in g.calls())
                and any(re.search(r"Sender<.*>::send$|Sender::<T>::send$", callee(t)) for _, t in g.calls())]
        if not rep.anchor(bool(jobs), "worker closures of format", cfg):
            continue
        for g in jobs:
            direct = [(h, b, t) for h in [f] + [x for x in prog.fns("stylua") if x.path.startswith("format::{closure")]
                      for b, t in h.calls() if callee(t) == g.path]
            pooled = False
            for h in [f] + [x for x in prog.fns("stylua") if x.path.startswith("format::{closure")]:
                for b, t in h.calls():
                    if callee(t) == "threadpool::ThreadPool::execute" and any(
                            r[0] == "agg" and r[1] == "closure " + g.path for a in t["args"][1:] if not is_const(a)
                            for r in provenance(h, a, through=None, into_aggs=False)):
                        pooled = True
            ok = pooled and not direct
            rep.inst(f"{g.key} runs only as a pool job", {"pooled": pooled, "direct_calls": len(direct)}, cfg, ok=ok)
            if not ok:
                why = "is called directly" if direct else "is not handed to ThreadPool::execute"
                loc = direct[0][0].loc(direct[0][2]["sp"]) if direct else g.loc()
                rep.violation(f"{g.key} file-job-outside-pool {'direct-call' if direct else 'not-pooled'}",
                              f"the closure that formats a file {why}: a panic while formatting then unwinds the thread that walks "
                              f"the arguments (exit 101, the remaining files are never dispatched) instead of being counted by "
                              f"pool.panic_count() and turned into exit status 2", loc, cfg)
    return rep


LOSSY = re.compile(r"from_utf8_lossy$|to_string_lossy$|from_utf8_unchecked$|from_utf16_lossy$|decode|encoding_rs|chars_lossy")


def rule_exact_read(ctx, prop):
    """what is formatted is exactly what was read: bytes that are not valid UTF-8 are an error, never replaced"""
    rep = Report(prop, "R-EXACTREAD", "the text handed to format_code / format_string is read with read_to_string (invalid UTF-8 is an "
                                      "error): no lossy decoding between the bytes read and the text formatted")
    for cfg, prog in ctx.programs.items():
        prog = _view(prog)
        n = 0
        for f in prog.fns("stylua"):
            for b, t in f.calls():
                c = callee(t)
                if not (c.endswith("format_code") or c == "format_string" or c == "format_file"):
                    continue
                if c == "format_file":
                    continue
                n += 1
                import r_cfg
                deep = r_cfg._deep_calls(f, t["args"][0])
                lossy = sorted(x for x in deep if LOSSY.search(x))
                rep.inst(f"{f.key} -> {c.split('::')[-1]} input decoded exactly", {"through": sorted(x.split('::')[-1] for x in deep)[:6]}, cfg, ok=not lossy)
                if lossy:
                    rep.violation(f"{f.key} lossy-input-decoding via={','.join(x.split('::')[-1] for x in lossy)}",
                                  f"{f.path} formats a text obtained through {[x.split('::')[-1] for x in lossy]}: input that is not valid "
                                  f"UTF-8 is silently altered (U+FFFD) and the altered text is formatted and written / printed with exit "
                                  f"status 0, instead of the read failing with status 2", f.loc(t["sp"]), cfg)
            # any lossy decoding at all in the input path of the CLI crate
        extra = [(f, t) for f in prog.fns("stylua") for b, t in f.calls() if re.search(r"String::from_utf8_lossy$|str::from_utf8_unchecked$", callee(t))
                 and re.search(r"^format|^main", f.path)]
        for f, t in extra:
            rep.violation(f"{f.key} lossy-input-decoding via={callee(t).split('::')[-1]}",
                          f"{f.path} decodes bytes with {callee(t)}: input that is not valid UTF-8 is silently altered instead of being "
                          f"reported as an error (exit status 2, nothing written / printed)", f.loc(t["sp"]), cfg)
        rep.floor("format_code / format_string call sites of the CLI", n, 2, cfg)
    return rep


def rule_check_verdict(ctx, prop):
    """under --check the verdict on a file is create_diff's answer: Complete (nothing reported, exit status untouched) only on
    its None, Diff only on its Some"""
    from paths import Enumerator, TooManyPaths
    rep = Report(prop, "R-CHECKVERDICT", "in format_file / format_string every path that can run with opt.check set and returns "
                                         "FormatResult::Complete took the None arm of create_diff's result (and Diff its Some arm): "
                                         "no other judgement declares a file formatted in check mode")
    for cfg, prog in ctx.programs.items():
        n = 0
        for name in ("format_file", "format_string"):
            f = prog.fn("stylua", name)
            if not rep.anchor(f is not None, f"stylua::{name}", cfg):
                continue
            try:
                res = Enumerator(f, max_paths=60000).run()
            except TooManyPaths:
                rep.anchor(False, f"{name}: too many paths", cfg)
                continue
            # calls whose value is create_diff's result (through context / `?`)
            from_diff = set()
            for b, t in f.calls():
                if t["args"] and any(r[0] == "call" and re.search(r"(^|::)create_diff$", r[1])
                                     for r in provenance(f, t["args"][0], into_aggs=False)):
                    from_diff.add(b)
                if re.search(r"(^|::)create_diff$", callee(t)):
                    from_diff.add(b)
            # `diff.map_or(FormatResult::Complete, FormatResult::Diff)`: the Complete built up front is only the default
            # of a combinator over create_diff's Option (taken on None)
            as_default = set()
            for b, si, s in f.stmts():
                if s["k"] == "assign" and s["rv"]["k"] == "agg" and s["rv"].get("adt", "").endswith("FormatResult") \
                        and s["rv"].get("variant") == "Complete":
                    us = forward_uses(f, s["dst"]["l"])
                    if us and all(u[0] == "call" and u[3] == 1 and re.search(r"Option::<.*>::(map_or|unwrap_or)$", callee(u[2]))
                                  and any(r[0] == "call" and (re.search(r"(^|::)create_diff$", r[1]) or r[2] in from_diff)
                                          for r in provenance(f, u[2]["args"][0], into_aggs=False))
                                  for u in us):
                        as_default.add(b)
            seen = {}
            for st in res:
                trail = set(st.trail)
                aggs = sorted({s["rv"]["variant"] for b, si, s in f.stmts() if b in trail and s["k"] == "assign" and s["rv"]["k"] == "agg"
                               and s["rv"].get("adt", "").endswith("FormatResult") and b not in as_default})
                if not aggs and not (trail & as_default):
                    continue
                chk = [v for k, v in st.disc.items() if k.endswith(".check")]
                if chk and all(v == "false" for v in chk):
                    continue
                arms = sorted({v for k, v in st.disc.items() for m in [re.match(r"call:(\d+)\.", k)]
                               if m and int(m.group(1)) in from_diff and v in ("None", "Some")})
                seen.setdefault((tuple(aggs), tuple(arms), bool(chk)), st)
            bad = []
            for (aggs, arms, chk), st in sorted(seen.items(), key=lambda kv: kv[0]):
                n += 1
                want = {"Complete": ("None",), "Diff": ("Some",)}
                ok = (len(aggs) == 1 and aggs[0] in want and arms == want[aggs[0]]) or (not aggs)
                if not ok:
                    bad.append((aggs, arms, chk, st))
            rep.inst(f"{f.key} check-mode verdict follows create_diff", {"check_mode_path_classes": len(seen)}, cfg, ok=not bad)
            for aggs, arms, chk, st in bad[:3]:
                calls = [c.split("::")[-1] for _, c, _ in st.calls][-4:]
                rep.violation(f"{f.key} check-verdict-without-diff result={','.join(aggs)} diff-arm={','.join(arms) or 'none'}",
                              f"{f.path} has a path that {'runs under opt.check' if chk else 'does not consult opt.check'} and returns "
                              f"FormatResult::{'/'.join(aggs)} having taken {list(arms) or 'no'} arm of create_diff's answer "
                              f"(last calls: {calls}): in check mode the file is declared formatted (no diff, exit status 0) "
                              f"- or reported - by something other than the comparison of the input with its formatted text",
                              f.loc(), cfg)
        rep.floor("check-mode result path classes in format_file + format_string", n, 2, cfg)
    return rep


def rule_logger_filter(ctx, prop):
    """NOT REGISTERED under any property since the F24 repair (the exit status no longer depends on the logger, so the order of
    `filter` and `parse_env` cannot break C13 / C14 / C17 any more; kept for the record of how F24 was found).
    the exit status 2 of an error is stored by the logger's format closure, which only runs for records that pass the filter:
    the level chosen by the program (Warn / Debug) must be the last word for the root filter, not the environment"""
    rep = Report(prop, "R-LOGFILTER", "in main, `Builder::filter(None, level)` is applied after the STYLUA_LOG directives are read (its receiver "
                                      "chain contains from_env / parse_env) and nothing that reads the environment comes after it: an error "
                                      "record always reaches the format closure that raises the exit status")
    for cfg, prog in ctx.programs.items():
        prog = _view(prog)
        f = prog.fn("stylua", "main")
        if not rep.anchor(f is not None, "fn main", cfg):
            continue
        filt = [(b, t) for b, t in f.calls() if re.search(r"env_logger::(logger::)?Builder::filter(_level)?$", callee(t))]
        envs = [(b, t) for b, t in f.calls() if re.search(r"env_logger::(logger::)?Builder::(from_env|parse_env|from_default_env|parse_default_env|parse_filters)$", callee(t))]
        if not rep.anchor(len(filt) >= 1, "env_logger Builder::filter call in main", cfg):
            continue

        def chain(o):
            out = set()
            stack, seen = [o], set()
            while stack:
                x = stack.pop()
                for r in provenance(f, x, through=None, into_aggs=False):
                    if r[0] == "call" and r[2] not in seen:
                        seen.add(r[2])
                        out.add(r[2])
                        t2 = f.blocks[r[2]]["term"]
                        if t2["args"] and not is_const(t2["args"][0]):
                            stack.append(t2["args"][0])
            return out
        fb = {b for b, _ in filt}
        late = [callee(t).split("::")[-1] for b, t in envs if t["args"] and not is_const(t["args"][0]) and (chain(t["args"][0]) & fb)]
        ok = not late
        rep.inst(f"{f.key} program's level filter is applied after the environment's directives", {"env_calls": len(envs)}, cfg, ok=ok)
        if not ok:
            rep.violation(f"{f.key} environment-overrides-level-filter via={','.join(sorted(set(late)))}",
                          f"main reads the logging directives from the environment ({sorted(set(late))}) after setting the program's own "
                          f"level filter: env_logger lets the later directive win, so `STYLUA_LOG=off` filters out error records, the "
                          f"format closure that stores exit status 2 never runs, and a parse error exits 0 with empty output",
                          f.loc(), cfg)
    return rep


def rule_ignore_match(ctx, prop):
    """whether an explicitly given path is ignored is the ignore crate's own question: `matched_path_or_any_parents` strips the
    ignore file's root once and climbs root-relative parents only"""
    rep = Report(prop, "R-IGNOREMATCH", "path_is_stylua_ignored answers with Gitignore::matched_path_or_any_parents(path, false) of the path it "
                                        "was given: no hand-written climb over path.ancestors() with Gitignore::matched (which also matches "
                                        "directories above the ignore file's root)")
    for cfg, prog in ctx.programs.items():
        prog = _view(prog)
        f = prog.fn("stylua", "path_is_stylua_ignored")
        if not rep.anchor(f is not None, "stylua::path_is_stylua_ignored", cfg):
            continue
        fam = [f] + [g for g in prog.fns("stylua") if g.path.startswith(f.path + "::{closure")]
        whole = [(g, b, t) for g in fam for b, t in g.calls() if re.search(r"Gitignore::matched_path_or_any_parents$", callee(t))]
        single = [(g, b, t) for g in fam for b, t in g.calls() if re.search(r"Gitignore::matched$", callee(t))]
        climbs = [(g, b, t) for g in fam for b, t in g.calls() if re.search(r"Path::(ancestors|parent)$", callee(t))]
        ok = len(whole) == 1 and not single
        if ok:
            g, b, t = whole[0]
            pr = provenance(g, t["args"][1]) if len(t["args"]) > 1 else set()
            ok = any(r[0] == "arg" for r in pr) and not any(r[0] == "call" and re.search(r"canonicalize|ancestors|parent$|file_name", r[1]) for r in pr)
        rep.inst(f"{f.key} verdict = matched_path_or_any_parents(path)", {"whole": len(whole), "single_level": len(single), "climbs": len(climbs)}, cfg, ok=ok)
        if not ok:
            how = "Gitignore::matched over " + ("path.ancestors()" if climbs else "single paths") if single else "a different path / several calls"
            rep.violation(f"{f.key} ignore-verdict-not-from-matched_path_or_any_parents",
                          f"path_is_stylua_ignored decides through {how}: Gitignore::matched does not strip the ignore file's root, so for "
                          f"ancestors above the root an unanchored pattern (`build/`) matches a same-named directory outside the project and "
                          f"an explicitly named file that no rule excludes is skipped (exit 0, nothing formatted)", f.loc(), cfg)
    return rep
