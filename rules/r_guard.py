"""R-GUARD: comment tests that select a comment-safe layout are still there and still protect what they protected (C01, C03).

StyLua prints most constructs on one line and switches to a hanging / multi-line layout when a comment sits where a
one-line layout would swallow the text after it. Each such switch is a branch on a *comment predicate*
(`contains_comments`, `has_inline_comments`, `has_trailing_comments`, `token_contains_comments`, ...,
or `<reader>().is_empty()`): dropping the test, or testing another node, compiles, passes the suite (comments in
those positions are rare) and makes the one-line layout reachable with a comment inside.

The rule recomputes, for every formatter function, each branched-on comment predicate with
  * the node it is asked about (accessor chain from a parameter position, no block / local numbers, no names),
and compares with the table frozen from the current tree (frozen_guards.json; `python3 rules/r_guard.py --freeze`,
reviewed by reading): a frozen guard must still exist in that function for that node. (Which calls a guard protects
is not compared: several formatters compute the one-line pieces eagerly and only *select* them under the guard.) New guards, new functions and functions that no longer exist are not reported. This is a
reference-through-time rule: it does not claim the frozen set is sufficient (it is not: see F21 in DESIGN.md).
"""
import json
import os
import sys

HERE = os.path.dirname(os.path.abspath(__file__))
sys.path.insert(0, HERE)
from engine import Report  # noqa: E402
from facts import *  # noqa: E402
from paths import access_path, path_key  # noqa: E402

FROZEN = os.path.join(HERE, "frozen_guards.json")

PRED = re.compile(r"(trivia_util::(contains_comments|contains_singleline_comments|token_contains_comments|"
                  r"table_fields_contains_comments|punctuated_inline_comments|trivia_contains_comments|"
                  r"token_trivia_contains_comments|expression_contains_inline_comments|"
                  r"\w*contains\w*comments\w*)|HasInlineComments>?::has_inline_comments|"
                  r"Get(Leading|Trailing)Trivia>?::has_(leading|trailing)_comments|"
                  r"functions::function_args_contains_comments|\w+::\w*contains\w*comments\w*)$")
READER = re.compile(r"(Get(Leading|Trailing)Trivia>?::(leading|trailing)_comments(_search)?|"
                    r"trivia_util::take_(leading|trailing)_comments)$")
LAYOUT = re.compile(r"^(formatters::|<.*as formatters::trivia::Update\w*Trivia>::|context::create_)")


def _recv_key(f, operand, depth=0):
    """the node an operand denotes, as an accessor chain from a parameter / upvar (no block or local numbers)"""
    try:
        root, steps = access_path(f, operand)
    except Exception:
        return "?"
    tail = "".join("." + (st[1] if len(st) > 1 else "[]") for st in steps)
    if root[0] == "call" and depth < 6:
        t = f.blocks[root[1]]["term"]
        nm = re.sub(r"<.*?>", "", callee(t)).split("::")[-1]
        inner = _recv_key(f, t["args"][0], depth + 1) if t["args"] and not is_const(t["args"][0]) else ""
        return f"{nm}({inner}){tail}"
    if root[0] == "arg":
        return f"arg{root[1]}" + tail
    if root[0] == "upvar":
        return f"upvar{root[1]}" + tail
    if root[0] == "local":
        return "local" + tail
    return ":".join(str(x) for x in root[:2]) + tail


def _switch_on(f, l, start, depth=6):
    """find the switch that branches on bool local l (following copies / Not) from block `start`:
    returns (block, true_target, false_target) with polarity already applied, or None"""
    neg = False
    cur = l
    b = start
    for _ in range(depth):
        blk = f.blocks[b]
        for s in blk["st"]:
            if s["k"] != "assign" or s["dst"].get("p"):
                continue
            rv = s["rv"]
            if rv["k"] == "use" and not is_const(rv["o"]) and op_local(rv["o"]) == cur and not op_place(rv["o"]).get("p"):
                cur = s["dst"]["l"]
            elif rv["k"] == "unop" and rv["op"] == "Not" and op_local(rv["a"]) == cur:
                cur = s["dst"]["l"]
                neg = not neg
        t = blk["term"]
        if t["k"] == "switch" and not is_const(t["on"]) and op_local(t["on"]) == cur and not op_place(t["on"]).get("p"):
            fl = None
            for v, bb in t["targets"]:
                if v == 0:
                    fl = bb
            tr = t["otherwise"]
            if fl is None:
                return None
            return (b, fl, tr) if neg else (b, tr, fl)
        if t["k"] == "goto":
            b = t["t"]
            continue
        return None
    return None


def _const_bool_assign(f, b):
    """if block b (following one goto) assigns a constant bool to a plain local: (local, value)"""
    for _ in range(2):
        blk = f.blocks[b]
        for s in blk["st"]:
            if s["k"] == "assign" and not s["dst"].get("p") and s["rv"]["k"] == "use" and is_const(s["rv"]["o"]) and \
                    isinstance(s["rv"]["o"].get("v"), bool) and f.local_ty(s["dst"]["l"]) == "bool":
                return s["dst"]["l"], s["rv"]["o"]["v"]
        if blk["term"]["k"] == "goto" and not blk["st"]:
            b = blk["term"]["t"]
        else:
            break
    return None


def _clean_region(f, dirty, clean, depth=0):
    """blocks that execute only when the predicate said `no comments`"""
    doms = f.dominators()
    region = {b for b in f.reachable() if clean in doms.get(b, ()) or b == clean}
    # the clean edge must not be re-entered from the dirty side
    if clean in f.reach_from(dirty):
        region = set()
    # boolean-local lowering: dirty edge sets r = c; any `switch r` sends the value != c to a clean-only target
    cb = _const_bool_assign(f, dirty)
    if cb and depth < 2:
        r, c = cb
        defs = [s for b, si_, s in f.stmts() if s["k"] == "assign" and s["dst"]["l"] == r and not s["dst"].get("p")]
        if all(s["rv"]["k"] == "use" and is_const(s["rv"]["o"]) for s in defs) or True:
            for b in f.reachable():
                t = f.blocks[b]["term"]
                if t["k"] != "switch" or is_const(t["on"]):
                    continue
                sw = _switch_on(f, r, b, depth=1)
                if sw is None or sw[0] != b:
                    continue
                _, tr, fl = sw
                # with r == c the branch for c is taken; the other branch is clean-only *if* every def of r on the
                # dirty side is c (r is assigned once per path in the `||` / `&&` lowering)
                other = fl if c else tr
                dirty_defs = [s for bb, si_, s in f.stmts() if s["k"] == "assign" and s["dst"]["l"] == r and
                              not s["dst"].get("p") and bb in f.reach_from(dirty) | {dirty}]
                if all(s["rv"]["k"] == "use" and is_const(s["rv"]["o"]) and s["rv"]["o"].get("v") == c for s in dirty_defs):
                    region |= {x for x in f.reachable() if other in doms.get(x, ()) or x == other}
    return region


def guards(prog):
    """{(fn path, predicate, node key): set(protected callee names)}"""
    out = {}
    for f in prog.fns("stylua_lib"):
        if "formatters::" not in f.path or "::tests::" in f.path:
            continue
        for b, t in f.calls():
            c = callee(t)
            kind = None
            if PRED.search(c) and f.local_ty(t["dst"]["l"]) == "bool":
                kind = c.split("::")[-1]
                dst_l, start, polarity = t["dst"]["l"], t.get("t"), True
                recv = t["args"][0] if t["args"] else None
                # has_*_comments(search): keep which search
            elif c.endswith("::is_empty") and t["args"]:
                # <reader>().is_empty(): true = clean
                src = [r for r in provenance(f, t["args"][0], through=None) if r[0] == "call" and READER.search(r[1])]
                if not src:
                    continue
                rt = f.blocks[src[0][2]]["term"]
                kind = rt and callee(rt).split("::")[-1] + ".is_empty"
                dst_l, start, polarity = t["dst"]["l"], t.get("t"), False
                recv = rt["args"][0] if rt["args"] else None
            if kind is None or start is None or recv is None or is_const(recv):
                continue
            sw = _switch_on(f, dst_l, start)
            key = (f.path, kind, _recv_key(f, recv))
            if sw is not None:
                mode = "decides"
            else:
                # the result is kept in a boolean that is branched on later, or handed to the caller
                uses = forward_uses(f, dst_l)
                if any(u[0] == "ret" for u in uses) or dst_l == 0:
                    mode = "returned"
                elif any(_switch_on(f, dst_l, bb, depth=1) for bb in f.reachable()):
                    mode = "decides"
                else:
                    mode = "used"
            out.setdefault(key, set()).add(mode)
    return out


def _via_helper(prog, f, now, pred, node):
    """the same question asked one call down: F hands the node to a local helper that asks `pred` about its parameter"""
    for b, t in f.calls():
        h = prog.fn("stylua_lib", callee(t))
        if h is None or h is f:
            continue
        for (hfn, hpred, hnode), mode in now.items():
            if hfn != h.path or hpred != pred:
                continue
            m = re.match(r"^(.*?)arg(\d+)(.*)$", hnode)
            if not m:
                continue
            k = int(m.group(2))
            if k - 1 >= len(t["args"]) or is_const(t["args"][k - 1]):
                continue
            sub = m.group(1) + _recv_key(f, t["args"][k - 1]) + m.group(3)
            if sub == node:
                return mode
    return None


def _steps(key):
    """'unop_token(arg1.UnaryOperator.unop)' -> ['arg1', 'UnaryOperator', 'unop', 'unop_token()']"""
    key = key.strip()
    m = re.match(r"^([A-Za-z_][\w]*)\((.*)\)((?:\.[\w\[\]]+)*)$", key)
    if m and key.count("(") == key.count(")"):
        # make sure the parenthesis closing the name's call is the last one before the tail
        depth = 0
        end = None
        for i, ch in enumerate(key):
            if ch == "(":
                depth += 1
            elif ch == ")":
                depth -= 1
                if depth == 0:
                    end = i
                    break
        name = key[:key.index("(")]
        inner = key[key.index("(") + 1:end]
        tail = key[end + 1:]
        return _steps(inner) + [name + "()"] + [x for x in tail.split(".") if x]
    return [x for x in key.split(".") if x]


def _relaxed(steps, local_fns):
    """drop steps that do not say *which node*: local helper calls, enum variants, tuple indices"""
    out = []
    for x in steps:
        if x.endswith("()") and x[:-2] in local_fns:
            continue
        if x[:1].isupper() or x.isdigit() or x == "[]":
            continue
        out.append(x)
    return out


def _same_node(a, b, local_fns):
    if a == b:
        return True
    ra, rb = _relaxed(_steps(a), local_fns), _relaxed(_steps(b), local_fns)
    if not ra or not rb or ra[0] != rb[0]:
        return False
    n = min(len(ra), len(rb))
    return n >= 2 and ra[:n] == rb[:n]


def rule_guard(ctx, prop):
    rep = Report(prop, "R-GUARD", "every comment test that selected a comment-safe layout on the pinned tree still exists "
                                  "for the same node and still protects the one-line formatter calls it protected")
    if not rep.anchor(os.path.exists(FROZEN), "frozen_guards.json"):
        return rep
    frozen = json.load(open(FROZEN))
    for cfg, prog in ctx.programs.items():
        ref = frozen.get(cfg)
        if ref is None:
            continue
        now = guards(prog)
        by_fn = {}
        for (fn, pred, node), prot in now.items():
            by_fn.setdefault(fn, []).append((pred, node, prot))
        n = 0
        local_fns = {g.path.split("::")[-1] for g in prog.fns("stylua_lib") if g.kind != "Closure"}
        # group by (function, predicate): frozen node keys against the node keys found now
        groups = {}
        for key, prot in ref.items():
            fn, pred, node = key.split(" | ")
            groups.setdefault((fn, pred), []).append(node)
        for (fn, pred), nodes in sorted(groups.items()):
            f = prog.fn("stylua_lib", fn)
            if f is None:
                continue          # the function is gone (renamed / merged): not decided
            cur = [nd for p_, nd, _ in by_fn.get(fn, []) if p_ == pred]
            unmatched = list(cur)
            pending = []
            for node in nodes:
                n += 1
                if node in unmatched:
                    unmatched.remove(node)
                    rep.inst(f"stylua_lib::{fn} {pred}({node})", None, cfg, ok=True)
                else:
                    pending.append(node)
            still = []
            for node in pending:
                hit = next((c for c in unmatched if _same_node(node, c, local_fns)), None)
                if hit is None and _via_helper(prog, f, now, pred, node) is not None:
                    rep.inst(f"stylua_lib::{fn} {pred}({node})", {"asked": "in a helper"}, cfg, ok=True)
                    continue
                if hit is not None:
                    spec = lambda k: len([x for x in _steps(k) if not (x.endswith("()") and x[:-2] in local_fns)])
                    if not (spec(hit) < spec(node)):
                        unmatched.remove(hit)     # (a test on an enclosing node covers several frozen sub-node tests)
                    rep.inst(f"stylua_lib::{fn} {pred}({node})", {"asked_as": hit}, cfg, ok=True)
                else:
                    still.append(node)
            # an uninformative frozen key (`local`: the value came out of an or-pattern) is satisfied by any further test
            for node in list(still):
                if _steps(node)[:1] in (["local"], ["?"]) and len(_relaxed(_steps(node), local_fns)) <= 1 and unmatched:
                    hit = unmatched.pop(0)
                    still.remove(node)
                    rep.inst(f"stylua_lib::{fn} {pred}({node})", {"asked_as": hit}, cfg, ok=True)
            # a current test about a value that came out of merged match arms (`local`) may stand for several frozen sub-node tests
            if any(_steps(c)[:1] == ["local"] for c in cur):
                for node in list(still):
                    still.remove(node)
                    rep.inst(f"stylua_lib::{fn} {pred}({node})", {"asked_as": "local (merged arms)"}, cfg, ok=True)
            for node in still:
                others = sorted(f"{p}({nd})" for p, nd, _ in by_fn.get(fn, []))
                rep.inst(f"stylua_lib::{fn} {pred}({node})", None, cfg, ok=False)
                rep.violation(f"stylua_lib::{fn} comment-guard-removed {pred}({node})",
                              f"{fn} no longer asks {pred} about `{node}` (remaining comment tests there: {others or 'none'}): "
                              f"the one-line layout that this test ruled out is now reachable with a comment in that "
                              f"position, which swallows the text printed after it (or the comment is dropped)", f.loc(), cfg)
        rep.floor("frozen comment guards still checked", n, 40, cfg)
    return rep


def freeze():
    import extract
    files, _ = extract.extract(extract.THOROUGH, verbose=False)
    out = {}
    for cfg in extract.THOROUGH:
        prog = Program(cfg, files[cfg])
        g = guards(prog)
        out[cfg] = {" | ".join(k): sorted(v) for k, v in sorted(g.items())}
    with open(FROZEN, "w") as f:
        json.dump(out, f, indent=1, sort_keys=True)
    print({c: len(d) for c, d in out.items()})


if __name__ == "__main__":
    if "--freeze" in sys.argv:
        freeze()
    elif "--show" in sys.argv:
        import extract
        files, _ = extract.extract(["release"], verbose=False)
        g = guards(Program("release", files["release"]))
        for k, v in sorted(g.items()):
            print(" | ".join(k), "->", sorted(v))
