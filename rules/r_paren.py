"""R-PAREN: parenthesis removal agrees with Lua's grammar on every layout path.

(a) decision table T[ctx][inner kind] of check_excess_parentheses, extracted by path enumeration (A-TABLE);
(b) gate of each function that consults it (which contexts can reach the removal branch, and with
    which context the inner expression is re-formatted after removal);
(c) (role, context) pairs of every call site of a context-taking formatter, resolved by a fix-point
    over the call graph, compared with a grammar oracle Unsafe(role);
(d) the `- -x` guard on every constructor of a unary minus.
"""
from engine import Report
from facts import *
from paths import *

CTX_ENUM = "formatters::expression::ExpressionContext"
EXPR = "full_moon::ast::Expression"


def ctx_fns(prog):
    out = {}
    for f in prog.fns("stylua_lib"):
        if f.kind == "Closure":
            continue
        ci = [i for i in range(1, f.argc + 1) if f.locals[i] == CTX_ENUM]
        ei = [i for i in range(1, f.argc + 1) if f.locals[i] in (EXPR, "&" + EXPR)]
        if ci and ei:
            out[f.path] = (f, ei[0], ci[0])
    return out


# ---------------------------------------------------------------------------
# (a) decision table

def extract_T(prog, rep, cfg):
    f = prog.fn("stylua_lib", "formatters::expression::check_excess_parentheses")
    if not rep.anchor(f is not None, "check_excess_parentheses", cfg):
        return None
    ctxs = prog.variants(CTX_ENUM, "stylua_lib")
    ei = [i for i in range(1, f.argc + 1) if f.locals[i] == "&" + EXPR][0]
    ci = [i for i in range(1, f.argc + 1) if f.locals[i] == CTX_ENUM][0]
    T = {}
    for c in ctxs:
        try:
            res = Enumerator(f, {f"arg:{ci}": c}).run()
        except TooManyPaths:
            rep.anchor(False, "decision table of check_excess_parentheses (too many paths)", cfg)
            return None
        rows = []
        for st in res:
            cons = {k: v for k, v in st.disc.items() if k != f"arg:{ci}"}
            v = st.vals.get(0)
            if v and v[0] == "const" and isinstance(v[1], bool):
                r = "remove" if v[1] else "keep"
            elif v and v[0] == "callres":
                t = f.blocks[v[1]]["term"]
                if callee(t) == f.path:
                    # recursion on a sub-expression with which context?
                    cv = access_path(f, t["args"][ci - 1])
                    ap = access_path(f, t["args"][ei - 1])
                    same_ctx = cv == (("arg", ci), ())
                    r = "rec" if same_ctx else "rec-other-context"
                else:
                    r = "unknown"
            else:
                r = "unknown"
            if r in ("unknown", "rec-other-context"):
                rep.anchor(False, f"check_excess_parentheses row {cons} has a non-constant result (unsupported "
                                  f"shape: cannot extract the table)", cfg)
                return None
            rows.append((cons, r))
        T[c] = rows
    return {"fn": f, "expr": f"arg:{ei}", "T": T, "ctxs": ctxs}


class Kind:
    """an inner-expression kind the oracle talks about."""

    def __init__(self, name, top, detail=None):
        self.name = name
        self.top = top          # Expression variant
        self.detail = detail or {}

    def value_for(self, key, exprkey):
        if key == exprkey:
            return self.top
        if self.top == "UnaryOperator" and key == exprkey + ".UnaryOperator.unop":
            return self.detail.get("unop")
        if self.top == "UnaryOperator" and key == exprkey + ".UnaryOperator.expression":
            return self.detail.get("operand")
        if self.top == "Symbol":
            if key.endswith(".symbol"):
                return self.detail.get("symbol")
            if key.startswith("call:") and "." not in key:
                return "Symbol"  # TokenType of a Symbol expression's token
        return None


def row_matches(cons, kind, exprkey):
    """may this table row apply to an expression of `kind`? (unknown details -> may match)"""
    for k, v in cons.items():
        have = kind.value_for(k, exprkey)
        if have is None:
            continue
        if isinstance(v, tuple) and v[0] == "not":
            if have in v[1]:
                return False
        elif have != v:
            return False
    return True


def removable(Tinfo, c, kind, ks=None):
    rows = Tinfo["T"].get(c)
    if rows is None:
        return None
    res = set()
    for cons, r in rows:
        if row_matches(cons, kind, Tinfo["expr"]):
            res.add(r)
    if "rec" in res and ks is not None and kind.detail.get("operand") in ks:
        # `check_excess_parentheses(operand, context)`: the answer is the operand's own row
        res = (res - {"rec"}) | (removable(Tinfo, c, ks[kind.detail["operand"]]) or {"unknown"})
    return res


def kinds_for(prog):
    ev = set(prog.variants(EXPR, "stylua_lib"))
    uv = prog.variants("full_moon::ast::UnOp", "stylua_lib")
    ks = {}
    for u in uv:
        ks[f"Unary({u})"] = Kind(f"Unary({u})", "UnaryOperator", {"unop": u})
    # a unary operator over a greedy operand: `(-if c then a else b) + 1`, `(-v :: T) < 5` - without the parentheses the
    # operand swallows what follows (or no longer parses)
    for opnd in ("IfExpression", "TypeAssertion"):
        if opnd in ev:
            for u in uv:
                ks[f"Unary({u})[{opnd}]"] = Kind(f"Unary({u})[{opnd}]", "UnaryOperator", {"unop": u, "operand": opnd})
    ks["BinaryOperator"] = Kind("BinaryOperator", "BinaryOperator")
    ks["FunctionCall"] = Kind("FunctionCall", "FunctionCall")
    ks["Symbol(...)"] = Kind("Symbol(...)", "Symbol", {"symbol": "Ellipsis"})
    for opt in ("TypeAssertion", "IfExpression"):
        if opt in ev:
            ks[opt] = Kind(opt, opt)
    for atom in ("Number", "String", "Var", "TableConstructor", "Function", "InterpolatedString"):
        if atom in ev:
            ks[atom] = Kind(atom, atom)
    return ks


def unsafe(role, ks):
    """Lua/Luau grammar oracle: inner kinds whose parentheses cannot be removed at `role`
    without changing the parse or the number of values."""
    un = [k for k in ks if k.startswith("Unary(") and "[" not in k]
    greedy = [k for k in ks if k.startswith("Unary(") and "[" in k]
    compound = [k for k in ("BinaryOperator", "TypeAssertion", "IfExpression") if k in ks]
    if role in ("lhs^", "lhs-other", "rhs", "unary-operand", "lhs-unknown", "assert-operand"):
        compound = compound + greedy
    if role == "whole":
        return ["FunctionCall", "Symbol(...)"]
    if role == "lhs^":
        return un + compound
    if role in ("lhs-other", "rhs", "unary-operand"):
        return compound
    if role == "lhs-unknown":
        return un + compound
    if role == "assert-operand":
        return un + compound
    if role == "prefix":
        return list(ks)
    if role == "inside-kept-parens":
        return []
    return list(ks)  # unknown role: fail closed


# ---------------------------------------------------------------------------
# (b) gates

def extract_gates(prog, Tinfo, rep, cfg):
    """for every fn (other than the table itself) that calls check_excess_parentheses:
    per context, which outcomes are possible when the table says 'removable'."""
    cf = ctx_fns(prog)
    gates = {}
    chk = Tinfo["fn"].path
    for path, (f, ei, ci) in cf.items():
        if path == chk:
            continue
        if not any(callee(t) == chk for _, t in f.calls()):
            continue

        def oracle(fn, bi, term, st, chk=chk):
            if callee(term) == chk:
                return True
            return None
        g = {}
        for c in Tinfo["ctxs"]:
            try:
                res = Enumerator(f, {f"arg:{ei}": "Parentheses", f"arg:{ci}": c}, bool_oracle=oracle).run()
            except TooManyPaths:
                rep.anchor(False, f"gate of {path} (too many paths)", cfg)
                return None
            outcomes = set()
            conts = set()
            for st in res:
                if not any(cal == chk for _, cal, _ in st.calls):
                    rep.anchor(False, f"{path}: a Parentheses path that does not consult check_excess_parentheses", cfg)
                    continue
                v = st.vals.get(0)
                if v and v[0] == "agg" and v[2] == "Parentheses":
                    outcomes.add("keep")
                    continue
                outcomes.add("remove")
                # continuation: who formats the inner expression, with which context
                found = False
                for bi, cal, t in st.calls:
                    for ai, a in enumerate(t["args"]):
                        if is_const(a):
                            continue
                        ap = access_path(f, a)
                        if ap == (("arg", ei), (("v", "Parentheses"), ("f", "expression"))):
                            if cal == chk:
                                continue
                            if cal in cf:
                                gci = cf[cal][2]
                                cv = Enumerator(f).val_of(st, t["args"][gci - 1])
                                if cv and cv[0] == "variant":
                                    conts.add((cal, cv[2]))
                                elif access_path(f, t["args"][gci - 1]) == (("arg", ci), ()):
                                    conts.add((cal, "param"))
                                else:
                                    conts.add((cal, "unknown"))
                                found = True
                            elif cal == "formatters::expression::format_expression":
                                conts.add((cal, "Standard"))
                                found = True
                if not found:
                    conts.add(("<none>", "unknown"))
            g[c] = (outcomes, conts)
        gates[path] = g
    return gates


# ---------------------------------------------------------------------------
# (c) call-site (role, ctx) pairs and the fix-point

ROLE_STEPS = {
    (("v", "BinaryOperator"), ("f", "lhs")): "lhs",
    (("v", "BinaryOperator"), ("f", "rhs")): "rhs",
    (("v", "UnaryOperator"), ("f", "expression")): "unary-operand",
    (("v", "TypeAssertion"), ("f", "expression")): "assert-operand",
    (("v", "Parentheses"), ("f", "expression")): "paren-inner",
    (): "same",
}


def binop_role(f, ei, st):
    key = f"arg:{ei}.BinaryOperator.binop"
    d = st.disc.get(key)
    if d == "Caret":
        return "lhs^"
    if isinstance(d, tuple) and d[0] == "not" and "Caret" in d[1]:
        return "lhs-other"
    if isinstance(d, str):
        return "lhs-other"
    # decided through BinOp::is_right_associative(binop) == false  (Lua: only ^ and .. are right associative)
    for bi, cal, t in st.calls:
        if cal.endswith("BinOp::is_right_associative") and st.decisions.get(bi) is False:
            ap = access_path(f, t["args"][0])
            if path_key(ap) == key:
                return "lhs-other"
    return "lhs-unknown"


def wrapper_fns(prog, cf):
    """ctx-free wrappers: functions with an Expression parameter and no ExpressionContext parameter that hand that
    same parameter to a context-taking formatter (or to another wrapper): format_expression, hang_expression, ..."""
    wr = {}
    changed = True
    while changed:
        changed = False
        for f in prog.fns("stylua_lib"):
            if f.kind == "Closure" or f.path in cf or f.path in wr:
                continue
            ei = [i for i in range(1, f.argc + 1) if f.locals[i] in (EXPR, "&" + EXPR)]
            if not ei:
                continue
            for b, t in f.calls():
                cal = callee(t)
                if cal in cf or cal in wr:
                    gei = cf[cal][1] if cal in cf else wr[cal][1]
                    if cal == "formatters::expression::check_excess_parentheses":
                        continue
                    if len(t["args"]) >= gei and access_path(f, t["args"][gei - 1]) == (("arg", ei[0]), ()):
                        wr[f.path] = (f, ei[0], None)
                        changed = True
                        break
    return wr


def _root_type(fn, ap):
    root = ap[0]
    if root[0] in ("arg", "local"):
        return fn.local_ty(root[1])
    if root[0] == "call":
        t = fn.blocks[root[1]]["term"]
        if not t["dst"].get("p"):
            return fn.local_ty(t["dst"]["l"])
    return ""


def origin_role(fn, ap):
    """role of an expression handed to a formatter by a caller outside the formatter family"""
    ty = _root_type(fn, ap)
    if "full_moon::ast::Prefix" in ty and ("v", "Expression") in ap[1]:
        return "prefix"
    return "whole"


def collect_edges(prog, rep, cfg):
    cf = ctx_fns(prog)
    chk = "formatters::expression::check_excess_parentheses"
    wr = wrapper_fns(prog, cf)
    fam = dict(cf)
    fam.update(wr)
    edges = []   # (caller path, callee path, role_spec, ctx_spec, ctxcons, kindcons, site, keeps_parens)
    ev = prog.variants(EXPR, "stylua_lib")
    for path, (f, ei, ci) in fam.items():
        if path == chk:
            continue
        for kind in ev:
            try:
                en = Enumerator(f, {f"arg:{ei}": kind})
                res = en.run()
            except TooManyPaths:
                rep.anchor(False, f"call-site enumeration of {path} (too many paths)", cfg)
                return None
            for st in res:
                v0 = st.vals.get(0)
                keeps = bool(v0 and v0[0] == "agg" and v0[2] == "Parentheses")
                ctxcons = st.disc.get(f"arg:{ci}") if ci else None
                for bi, cal, t in st.calls:
                    if cal not in fam or cal == chk:
                        continue
                    g, gei, gci = fam[cal]
                    ap = access_path(f, t["args"][gei - 1])
                    if ap[0] != ("arg", ei):
                        rs = "fresh:" + origin_role(f, ap)
                    else:
                        rs = ROLE_STEPS.get(ap[1], "unknown")
                    if rs == "lhs":
                        rs = binop_role(f, ei, st)
                    if rs == "paren-inner":
                        rs = "paren-inner-kept" if keeps else "paren-inner-removed"
                    if gci is None:
                        cs = "none"
                    else:
                        cv = en.val_of(st, t["args"][gci - 1])
                        if cv and cv[0] == "variant":
                            cs = cv[2]
                        elif ci and access_path(f, t["args"][gci - 1]) == (("arg", ci), ()):
                            cs = "param"
                        else:
                            cs = "unknown"
                    edges.append((path, cal, rs, cs, ctxcons, kind, f.loc(t["sp"]), keeps))
    # external callers (seeds): every call from outside the family into it
    seeds = []
    names = set(fam)
    for g in prog.fns("stylua_lib"):
        if g.path in names or g.path.startswith("verify_ast") or g.path.startswith("<verify_ast"):
            continue
        sites = [(bi, t) for bi, t in g.calls() if callee(t) in fam and callee(t) != chk]
        if not sites:
            continue
        need_ctx = any(fam[callee(t)][2] is not None for _, t in sites)
        ctxvals = {}
        if need_ctx:
            try:
                en = Enumerator(g, max_paths=20000)
                res = en.run()
            except TooManyPaths:
                rep.anchor(False, f"external caller {g.path} (too many paths)", cfg)
                continue
            for st in res:
                for b2, c2, t2 in st.calls:
                    if c2 in fam and fam[c2][2] is not None:
                        cv = en.val_of(st, t2["args"][fam[c2][2] - 1])
                        ctxvals.setdefault(b2, set()).add(cv[2] if cv and cv[0] == "variant" else "unknown")
        for bi, t in sites:
            cal = callee(t)
            _, gei, gci = fam[cal]
            ap = access_path(g, t["args"][gei - 1])
            role = origin_role(g, ap)
            if gci is None:
                seeds.append((g.path, cal, role, "none", g.loc(t["sp"])))
            else:
                for v in ctxvals.get(bi, {"unknown"}):
                    seeds.append((g.path, cal, role, v, g.loc(t["sp"])))
    for g, bi, o in fn_refs(prog, re.compile(r"^formatters::expression::(format_expression|hang_expression)$"), "stylua_lib"):
        seeds.append((g.path, o.get("rfn") or o["fn"], "whole", "none", g.loc()))
    return fam, edges, seeds


def compatible(ctxcons, c):
    if ctxcons is None:
        return True
    if isinstance(ctxcons, str):
        return ctxcons == c
    return c not in ctxcons[1]


def fixpoint(cf, edges, seeds):
    entry = {p: {} for p in cf}   # path -> {(role, ctx, maybe_parens): witness}
    work = []
    for caller, cal, role, c, loc in seeds:
        k = (role, c, True)
        if k not in entry[cal]:
            entry[cal][k] = [f"{caller} -> {cal.split('::')[-1]}({role}, {c}) at {loc}"]
            work.append((cal, k))
    while work:
        f, (r, c, mp) = work.pop()
        for caller, cal, rs, cs, ctxcons, kind, loc, keeps in edges:
            if caller != f:
                continue
            if not compatible(ctxcons, c):
                continue
            if kind == "Parentheses" and not mp:
                continue  # this entry's expression cannot be a Parentheses node
            if rs == "same":
                nr = r
                nmp = (kind == "Parentheses")
            elif rs == "paren-inner-removed":
                nr = r          # the inner expression takes the place (and role) of the removed parentheses
                nmp = True
            elif rs == "paren-inner-kept":
                nr = "inside-kept-parens"
                nmp = True
            elif rs.startswith("fresh:"):
                nr = rs.split(":", 1)[1]
                nmp = True
            else:
                nr = rs
                nmp = True
            nc = c if cs in ("param", "none") else cs
            k = (nr, nc, nmp)
            if k not in entry[cal]:
                entry[cal][k] = entry[f][(r, c, mp)] + [f"{caller.split('::')[-1]}[{kind}] -> "
                                                       f"{cal.split('::')[-1]}({nr}, {nc}) at {loc}"]
                work.append((cal, k))
    return entry


def rule_paren(ctx, prop, parts=("table", "oracle", "context-lost", "minus"), roles=None, all_kinds=False, why=None):
    rep = Report(prop, "R-PAREN", "parenthesis removal agrees with the Lua grammar at every operand role, on the "
                                  "single-line and the hanging layout paths")
    for cfg, prog in ctx.programs.items():
        Tinfo = ctx.memo(("paren-T", cfg), lambda: extract_T(prog, rep, cfg))
        if Tinfo is None:
            continue
        ks = kinds_for(prog)
        nrows = sum(len(v) for v in Tinfo["T"].values())
        rep.floor("rows of the check_excess_parentheses decision table", nrows, 8 * len(Tinfo["ctxs"]), cfg)
        gates = ctx.memo(("paren-gates", cfg), lambda: extract_gates(prog, Tinfo, rep, cfg))
        if gates is None:
            continue
        rep.floor("functions gating parenthesis removal", len(gates), 2, cfg)
        # (a') all gates use the same table and the same keep-contexts
        sig = {p: {c: tuple(sorted(g[c][0])) for c in g} for p, g in gates.items()}
        first = None
        for p, s in sorted(sig.items()):
            if first is None:
                first = (p, s)
            else:
                ok = s == first[1]
                rep.inst(f"stylua_lib::{p} gate-agrees-with {first[0].split('::')[-1]}", {"gate": {k: list(v) for k, v in s.items()}}, cfg, ok=ok)
                if not ok:
                    rep.violation(f"stylua_lib::{p} gate-differs-from-sibling",
                                  f"the contexts in which parentheses may be removed differ between {p} ({s}) and "
                                  f"{first[0]} ({first[1]})", None, cfg)
        if "context-lost" in parts:
            for p, g in gates.items():
                for c, (outs, conts) in g.items():
                    if "remove" not in outs:
                        continue
                    # does the context matter (table differs from the continuation's context)?
                    for cal, cc in conts:
                        eff = c if cc == "param" else cc
                        ok = True
                        lost = []
                        if eff != c:
                            for kn, kd in ks.items():
                                a = removable(Tinfo, c, kd)
                                b = removable(Tinfo, eff, kd) if eff in Tinfo["T"] else {"unknown"}
                                if a != b:
                                    ok = False
                                    lost.append(kn)
                        rep.inst(f"stylua_lib::{p} removal-keeps-context ctx={c}", {"continuation": cal.split("::")[-1],
                                                                                   "with": cc}, cfg, ok=ok)
                        if not ok:
                            rep.violation(f"stylua_lib::{p} context-lost-on-removal ctx={c} -> {eff}",
                                          f"when {p} removes parentheses in context {c} it re-formats the inner "
                                          f"expression through {cal} with context {eff}: a nested `((e))` is then "
                                          f"judged as if it stood alone (differs for {lost}); e.g. `((-a)) ^ b` "
                                          f"becomes `-a ^ b`", gates_loc(prog, p), cfg, {"kinds": lost})
        if "oracle" in parts:
            ce = ctx.memo(("paren-edges", cfg), lambda: collect_edges(prog, rep, cfg))
            if ce is None:
                continue
            cf, edges, seeds = ce
            rep.floor("call sites passing an ExpressionContext", len({(e[0], e[1], e[6]) for e in edges}), 12, cfg)
            rep.floor("external entry points", len(seeds), 40, cfg)
            unk = [e for e in edges if e[3] == "unknown" or e[2] == "unknown"] + \
                  [(sd[0], sd[1], sd[2], sd[3], None, None, sd[4]) for sd in seeds if sd[3] == "unknown"]
            for e in unk:
                rep.anchor(False, f"call site {e[0]} -> {e[1]} at {e[6]}: role/context not resolvable ({e[2]}, {e[3]})", cfg)
            entry = fixpoint(cf, edges, seeds)
            for p, g in gates.items():
                for (r, c, mp), wit in sorted(entry.get(p, {}).items()):
                    if not mp:
                        continue
                    if roles is not None and r not in roles:
                        continue
                    if c not in g:
                        rep.anchor(False, f"context {c} reaching {p}", cfg)
                        continue
                    outs, conts = g[c]
                    bad = []
                    for kn in (sorted(ks) if all_kinds else unsafe(r, ks)):
                        if "remove" not in outs:
                            continue
                        res = removable(Tinfo, c, ks[kn], ks)
                        if res and (res - {"keep"}):
                            bad.append(kn)
                    rep.inst(f"stylua_lib::{p} role={r} ctx={c}", {"role": r, "ctx": c, "unsafe_kinds": unsafe(r, ks),
                                                                   "reached_via": wit[-1]}, cfg, ok=not bad)
                    if bad:
                        rep.violation(f"stylua_lib::{p} role={r} ctx={c} removes={','.join(sorted(bad))}",
                                      f"an operand in role `{r}` reaches {p} with context {c}; in that context the "
                                      f"parentheses around {sorted(bad)} are removed, " + (why or "which changes the parse at "
                                      f"that role"), gates_loc(prog, p), cfg, {"path": wit})
        if "minus" in parts:
            _double_minus(prog, rep, cfg)
    return rep


def gates_loc(prog, p):
    f = prog.fn("stylua_lib", p)
    return f.loc() if f else None


def _minus_guard_paths(prog, f, res, result_is_unary_agg, operand_keys_of):
    """(bad_paths, total) over enumerated paths `res` of f.
    result_is_unary_agg: only paths whose _0 is an Expression::UnaryOperator aggregate count (constructor form);
    otherwise (helper form) every returning path counts and the guarded operand is the Expression parameter."""
    uv = prog.variants("full_moon::ast::UnOp", "stylua_lib")
    bad = total = 0
    for st in res:
        v0 = st.vals.get(0)
        if result_is_unary_agg and not (v0 and v0[0] == "agg" and v0[2] == "UnaryOperator"):
            continue
        total += 1
        hd = dict(st.hist)
        hd.update(st.disc)
        minus_possible = True
        unop_tested = False
        for k, v in hd.items():
            is_unop = (isinstance(v, str) and v in uv) or (isinstance(v, tuple) and v[0] == "not" and (set(v[1]) & set(uv)))
            if not is_unop or ".Parentheses." in k or k.endswith(".UnaryOperator.unop") and operand_keys_of(st, hd, k):
                continue
            unop_tested = True
            if isinstance(v, str) and v != "Minus":
                minus_possible = False
            if isinstance(v, tuple) and "Minus" in v[1]:
                minus_possible = False
        if not minus_possible:
            continue
        opkeys = [k for k in hd if operand_keys_of(st, hd, k) and "." not in k]
        if not (unop_tested and opkeys):
            bad += 1
            continue
        for k in opkeys:
            lead_minus = (hd.get(k) == "UnaryOperator" and hd.get(k + ".UnaryOperator.unop") == "Minus") or \
                         (hd.get(k) == "Parentheses" and hd.get(k + ".Parentheses.expression") == "UnaryOperator"
                          and hd.get(k + ".Parentheses.expression.UnaryOperator.unop") == "Minus")
            if not lead_minus:
                continue
            wrapped = False
            if not result_is_unary_agg:
                wrapped = bool(v0 and v0[0] == "agg" and v0[1] == EXPR and v0[2] == "Parentheses")
            else:
                kind, _, num = k.partition(":")
                if kind == "local":
                    cur = st.vals.get(int(num))
                elif kind == "call":
                    cur = st.vals.get(f.blocks[int(num)]["term"]["dst"]["l"])
                else:
                    cur = None
                wrapped = bool(cur and cur[0] == "agg" and cur[2] == "Parentheses")
                if not wrapped:
                    wrapped = any(v and v[0] == "agg" and v[1] == EXPR and v[2] == "Parentheses" and v[3] in st.trail
                                  for v in st.vals.values())
            if not wrapped:
                bad += 1
    return bad, total


def _guard_helper(prog, g):
    """is g(unop, expression) -> Expression a minus guard? returns (ok, reason)"""
    ei = [i for i in range(1, g.argc + 1) if g.locals[i] in (EXPR, "&" + EXPR)]
    ui = [i for i in range(1, g.argc + 1) if g.locals[i].endswith("full_moon::ast::UnOp")]
    if not ei or not ui or g.locals[0] != EXPR:
        return None
    try:
        res = ParamlessEnumerator(g).run()
    except TooManyPaths:
        return (False, "too many paths")
    key = f"arg:{ei[0]}"
    bad, total = _minus_guard_paths(prog, g, res, False, lambda st, hd, k: k == key or k.startswith(key + "."))
    return (bad == 0 and total > 0, f"{bad} of {total} paths")


class ParamlessEnumerator(Enumerator):
    pass


def _double_minus(prog, rep, cfg):
    """every constructor of Expression::UnaryOperator whose operand was produced by a parenthesis-removing
    formatter tests the operand for a leading minus on the path where the operator is a minus and re-wraps it -
    either inline or through a helper g(unop, expression) that does."""
    cf = ctx_fns(prog)
    n = 0
    for f in prog.fns("stylua_lib"):
        if f.kind == "Closure" or f.path.startswith("verify_ast"):
            continue
        sites = [(b, s) for b, si_, s in f.stmts() if s["k"] == "assign" and s["rv"]["k"] == "agg" and
                 s["rv"].get("adt") == EXPR and s["rv"].get("variant") == "UnaryOperator"]
        if not sites:
            continue
        relevant = False
        helpers = set()
        for b, s in sites:
            for o in s["rv"]["ops"]:
                stack = [o]
                seen = 0
                while stack and seen < 8:
                    oo = stack.pop()
                    seen += 1
                    pr = provenance(f, oo)
                    for c in prov_calls(pr):
                        if c in cf or c.endswith("::format_expression") or c.endswith("::hang_expression"):
                            relevant = True
                    for r in pr:
                        if r[0] == "call":
                            g = prog.fn("stylua_lib", r[1])
                            if g is not None and g.locals[0] == EXPR and \
                                    any(x.endswith("full_moon::ast::UnOp") for x in g.locals[1:g.argc + 1]) and \
                                    any(x in (EXPR, "&" + EXPR) for x in g.locals[1:g.argc + 1]):
                                helpers.add(g.path)
                                t = f.blocks[r[2]]["term"]
                                for a in t["args"]:
                                    if not is_const(a) and f.local_ty(op_place(a)["l"]) in (EXPR, "&" + EXPR):
                                        stack.append(a)
        if not relevant:
            continue
        n += 1
        ei = [i for i in range(1, f.argc + 1) if f.locals[i] in (EXPR, "&" + EXPR)]
        if not ei:
            rep.anchor(False, f"{f.path}: builds a UnaryOperator from a formatted operand but has no Expression parameter", cfg)
            continue
        if helpers:
            allok = True
            why = []
            for hp in sorted(helpers):
                r = _guard_helper(prog, prog.fn("stylua_lib", hp))
                if r is None or not r[0]:
                    allok = False
                    why.append(f"{hp}: {r[1] if r else 'not a guard'}")
            rep.inst(f"{f.key} unary-minus-guard", {"fn": f.key, "via_helper": sorted(helpers)}, cfg, ok=allok)
            if not allok:
                rep.violation(f"{f.key} unary-minus-guard-missing",
                              f"{f.path} builds `unop operand` through {sorted(helpers)}, which does not re-wrap an operand "
                              f"that starts with `-` when the operator is `-` ({why}): `- (-x)` is printed as `--x`", f.loc(), cfg)
            continue
        # a boolean helper over the operand (`starts_with_unary_minus(&expression)`, possibly using a local closure) is
        # analysed in place
        from inline import inlined
        f = inlined(prog, f, lambda caller, h, t: h.locals[0] == "bool" and len(h.blocks) <= 40 and
                    (h.kind == "Closure" or any(x in (EXPR, "&" + EXPR) for x in h.locals[1:h.argc + 1])) and
                    not h.path.startswith("formatters::trivia_util::") and "contains_comments" not in h.path,
                    depth=2, allow_closures=True)
        try:
            res = Enumerator(f, {f"arg:{ei[0]}": "UnaryOperator"}).run()
        except TooManyPaths:
            rep.anchor(False, f"{f.path}: too many paths", cfg)
            continue
        bad_paths, total = _minus_guard_paths(prog, f, res, True, lambda st, hd, k: _is_expr_disc(prog, f, k.split(".")[0]))
        ok = bad_paths == 0 and total > 0
        rep.inst(f"{f.key} unary-minus-guard", {"fn": f.key, "paths_building_unary": total}, cfg, ok=ok)
        if not ok:
            rep.violation(f"{f.key} unary-minus-guard-missing",
                          f"{f.path} builds `unop operand` from a formatted operand (parentheses may have been "
                          f"removed) without testing, when the operator is `-`, whether the operand now starts with "
                          f"`-` (and re-wrapping it): `- (-x)` is printed as `--x`, a comment ({bad_paths} of {total} paths)",
                          f.loc(), cfg)
    rep.floor("constructors of a unary operator from a formatted operand", n, 2, cfg)


def _is_expr_disc(prog, f, key):
    """key 'call:<bi>' / 'local:<l>' (no steps) naming a value of type Expression that is not a parameter"""
    if "." in key:
        return False
    kind, _, num = key.partition(":")
    try:
        n = int(num)
    except ValueError:
        return False
    if kind == "call":
        t = f.blocks[n]["term"]
        if t["k"] != "call" or t["dst"].get("p"):
            return False
        return f.local_ty(t["dst"]["l"]) == EXPR
    if kind == "local":
        return f.local_ty(n) == EXPR
    return False


def rule_condition_parens(ctx, prop):
    """remove_condition_parentheses removes the parentheses around a *whole* condition only"""
    from paths import Enumerator, TooManyPaths
    rep = Report(prop, "R-PAREN(cond)", "remove_condition_parentheses strips parentheses only when they wrap its whole argument; an "
                                        "argument of any other shape is returned unchanged (no parentheses are removed from operands "
                                        "inside it)")
    for cfg, prog in ctx.programs.items():
        f = prog.fn("stylua_lib", "formatters::stmt::remove_condition_parentheses")
        if not rep.anchor(f is not None, "remove_condition_parentheses", cfg):
            continue
        rec = [b for b, t in f.calls() if callee(t).endswith("remove_condition_parentheses")]
        # who may call it: the operand handed over is a *condition* (of if / elseif / while / repeat-until / if-expression) - the
        # function strips an outer pair unconditionally, without asking check_excess_parentheses, which is only right where the
        # grammar wants exactly one value
        ok_callers, bad_callers = [], []
        for g in prog.fns("stylua_lib"):
            for b, t in g.calls():
                if not callee(t).endswith("stmt::remove_condition_parentheses") or g is f:
                    continue
                calls = prov_calls(provenance(g, t["args"][0])) if t["args"] else set()
                src = sorted(c.split("::")[-1] for c in calls)
                is_cond = any(re.search(r"::(If|ElseIf|While|IfExpression|ElseIfExpression)::condition$|::Repeat::until$|(^|::)condition$|(^|::)until$", c)
                              for c in calls)
                (ok_callers if is_cond else bad_callers).append((g, t, src))
        rep.inst(f"{f.key} is only given conditions", {"call_sites": len(ok_callers) + len(bad_callers)}, cfg, ok=not bad_callers)
        for g, t, src in bad_callers[:3]:
            rep.violation(f"{g.key} condition-parentheses-removal-on-non-condition from={','.join(src) or 'parameter'}",
                          f"{g.path} hands remove_condition_parentheses an expression that is not a condition (it derives from "
                          f"{src or 'a parameter'}): the outer parentheses are stripped without consulting check_excess_parentheses, so "
                          f"`(f())` / `(...)` in a multi-value position (last argument, last return value) is un-truncated", g.loc(t["sp"]), cfg)
        rep.floor("call sites of remove_condition_parentheses", len(ok_callers) + len(bad_callers), 4, cfg)
        try:
            res = Enumerator(f, summaries=False, max_paths=2000).run()
        except TooManyPaths:
            rep.anchor(False, "remove_condition_parentheses: too many paths", cfg)
            continue
        n = 0
        bad = set()
        for st in res:
            vs = [v for k, v in st.hist if isinstance(v, str) and k.split(".")[0] in ("arg:1", "local:1") or
                  (isinstance(v, tuple) and v and v[0] == "not")]
            kinds = [v for k, v in st.hist if isinstance(v, str) and v in (prog.variants("full_moon::ast::Expression", "stylua_lib") or [])]
            n += 1
            top = kinds[0] if kinds else None
            if top == "Parentheses":
                continue
            trail = set(st.trail)
            builds = [s_["rv"]["variant"] for b_, si_, s_ in f.stmts() if b_ in trail and s_["k"] == "assign" and s_["rv"]["k"] == "agg"
                      and s_["rv"].get("adt", "").endswith("ast::Expression")]
            recursive = [b_ for b_, c_, t_ in st.calls if b_ in rec]
            if builds or recursive:
                bad.add((top or "other", tuple(builds)))
        rep.inst(f"{f.key} only a top-level Parentheses is unwrapped", {"paths": n}, cfg, ok=not bad)
        for top, builds in sorted(bad):
            rep.violation(f"{f.key} condition-parentheses-removed-inside {top}",
                          f"remove_condition_parentheses rebuilds an argument of kind {top} ({list(builds)}; recursion into its operands): "
                          f"parentheses around an *operand* are removed without asking check_excess_parentheses - `if (a or b) :: T then` "
                          f"becomes `if a or b :: T then`, another expression", f.loc(), cfg)
        rep.floor("paths of remove_condition_parentheses", n, 2, cfg)
    return rep
