"""R-KEEP: the trivia pipeline of *kept* tokens keeps every comment and the shebang (C03).

Every token that survives formatting has its trivia rebuilt by `load_token_trivia`, which calls `format_token` on
each trivia token. The rule decides, from MIR paths:

 (a) format_token rebuilds a Shebang / SingleLineComment / MultiLineComment as the same variant, only under the
     arm of that variant, with `blocks` (the long-bracket level) copied from the input, a multi-line comment's text
     going through the CRLF->LF->configured-ending chain only, and a single-line comment / shebang text going
     through a helper whose whole body is `trim_end` of its argument;
 (b) in load_token_trivia, every iteration that consumes a trivia token without formatting and pushing it is an
     iteration whose token is TokenType::Whitespace (both the loop's own `next()` and the look-ahead `next()`);
 (c) format_eof may only return an EOF with empty leading trivia when a predicate over the formatted trivia
     established that nothing but Whitespace is there, and pop_until_no_whitespace only discards Whitespace.

It decides that no comment is *filtered out or rewritten* on the kept-token route; where the resulting trivia is then
attached is R-REPLACE / R-DROP territory.
"""
import json
from engine import Report
from facts import *
from paths import *
from r_regex import _newline_chain

COMMENT_KINDS = ("Shebang", "SingleLineComment", "MultiLineComment")
TRIM_ONLY = re.compile(r"(<impl str>::trim_end|Deref>::deref|AsRef<.*>>::as_ref|as_str|Borrow<.*>>::borrow)$")
TEXT_COPY = re.compile(r"(Into<.*>>::into|From<.*>>::from|ToString>?::to_string|to_owned|Deref>::deref|as_str|"
                       r"ShortString::new|Clone>::clone)$")


def _variant_constraint(c):
    """set of admitted variants given a constraint, or None = anything"""
    if isinstance(c, str):
        return ("in", {c})
    if isinstance(c, tuple) and c[0] == "not":
        return ("notin", set(c[1]))
    return None


def _is_whitespace(c):
    return c == "Whitespace"


def rule_keep_format_token(ctx, prop):
    rep = Report(prop, "R-KEEP(a)", "format_token rebuilds a comment / shebang token as the same kind with the same bracket "
                                    "level; its text only loses trailing whitespace (line comment, shebang) or has its "
                                    "newlines converted (block comment)")
    for cfg, prog in ctx.programs.items():
        ft = prog.fn("stylua_lib", "formatters::general::format_token")
        if not rep.anchor(ft is not None, "format_token", cfg):
            continue
        adt = prog.adt("full_moon::tokenizer::TokenType", "stylua_lib")
        fields = {v["name"]: [x["name"] for x in v["fields"]] for v in adt["variants"]}
        seen = set()
        for b, si_, s in ft.stmts():
            if not (s["k"] == "assign" and s["rv"]["k"] == "agg" and s["rv"].get("variant") in COMMENT_KINDS and
                    s["rv"].get("adt", "").endswith("TokenType")):
                continue
            var = s["rv"]["variant"]
            seen.add(var)
            ops = dict(zip(fields[var], s["rv"]["ops"]))
            same_arm = guarded_by_variant(ft, b, "TokenType", var)
            rep.inst(f"{ft.key} {var} rebuilt only under the {var} arm", None, cfg, ok=bool(same_arm))
            if not same_arm:
                rep.violation(f"{ft.key} comment-kind-changed to={var}",
                              f"format_token builds a TokenType::{var} outside the arm that matched a {var} input token: "
                              f"a token of another kind would be turned into this comment", ft.loc(s["sp"]), cfg)
            for fname, op in ops.items():
                if fname == "blocks":
                    ap = access_path(ft, op)
                    ok = ap[1][-2:] == (("v", var), ("f", "blocks"))
                    what = "bracket level copied from the input token"
                elif var == "MultiLineComment":
                    ok = bool(_newline_chain(ft, op))
                    what = "text = input.replace(CRLF, LF).replace(LF, configured ending)"
                else:
                    what = "text = trim_end(input text) or the input text"
                    res_ = _text_ops(prog, ft, op)
                    ok = res_ is not None and set(res_[0]) <= {"trim_end"} and \
                        res_[1][1][-2:] == (("v", var), ("f", fname))
                rep.inst(f"{ft.key} {var}.{fname}: {what}", None, cfg, ok=ok)
                if not ok:
                    rep.violation(f"{ft.key} comment-field-rewritten {var}.{fname}",
                                  f"format_token rebuilds TokenType::{var} with a `{fname}` that is not: {what}. The "
                                  f"comment's text / long-bracket level in the output can differ from the input",
                                  ft.loc(s["sp"]), cfg)
        # a kind without an explicit arm falls to `_ => token.token_type().to_owned()` (unchanged), which is fine;
        # what must not happen is that the arms disappear unnoticed while the floor still passes
        rep.floor("comment kinds rebuilt explicitly by format_token", len(seen), 3, cfg)
    return rep


def _text_ops(prog, f, op, depth=0, subst=None):
    """walk a text value back to where it comes from: (list of non-copy operations met, access path of the source),
    through copies (`into`, `to_owned`, deref, ...), `trim_end`, and local helper functions that return a
    transformation of one of their parameters. None when something else is met."""
    ops = []
    cur = op
    for _ in range(12):
        rs = [r for r in provenance(f, cur, through=None) if not (r[0] == "agg" and r[1] in ("tuple", "array"))]
        calls = [r for r in rs if r[0] == "call"]
        if [r for r in rs if r[0] in ("const", "op", "agg")]:
            return None
        if not calls:
            ap = access_path(f, cur)
            if ap[0][0] == "arg" and subst is not None:
                return ops, ("param", ap[0][1], ap[1])
            return ops, ap
        if len(calls) != 1:
            return None
        t = f.blocks[calls[0][2]]["term"]
        c = callee(t)
        if re.search(r"<impl str>::trim_end$", c):
            ops.append("trim_end")
            cur = t["args"][0]
        elif re.search(r"Token::token_type$", c):
            return ops, access_path(f, cur)
        elif TEXT_COPY.search(c):
            cur = t["args"][0]
        else:
            h = prog.fn(f.crate, c)
            if h is None or depth > 2:
                return None
            inner = _text_ops(prog, h, {"cp": {"l": 0}}, depth + 1, subst=True)
            if inner is None or inner[1][0] != "param" or inner[1][2]:
                return None
            ops += inner[0]
            k = inner[1][1]
            if k - 1 >= len(t["args"]):
                return None
            cur = t["args"][k - 1]
    return None


def _recv_calls(f, t):
    return prov_calls(provenance(f, t["args"][0]))


_NEXT_IF_CACHE = {}


def _next_if_kinds(prog, f, t):
    """token kinds for which the predicate handed to `Peekable::next_if` can answer true (None = not understood)"""
    key = (id(prog), f.path, json.dumps(t["args"][1], sort_keys=True) if len(t["args"]) > 1 else "")
    if key in _NEXT_IF_CACHE:
        return _NEXT_IF_CACHE[key]
    res = None
    if len(t["args"]) == 2:
        pf = None
        for r in provenance(f, t["args"][1], through=None):
            if r[0] == "agg" and r[1].startswith("closure "):
                pf = prog.fn(f.crate, r[1][8:])
            elif r[0] == "const" and r[1].startswith("fn:"):
                pf = prog.fn(f.crate, r[1][3:].split("::<")[0])
        if pf is not None:
            from inline import inlined
            pf = inlined(prog, pf, lambda caller, h, tt: h.locals[0] == "bool" and len(h.blocks) <= 40 and h.kind != "Closure", depth=2)
            try:
                res = _pred_dropped_kinds(prog, None, None, pf, True)
            except Exception:
                res = None
    _NEXT_IF_CACHE[key] = res
    return res


def rule_keep_load(ctx, prop):
    rep = Report(prop, "R-KEEP(b)", "load_token_trivia: a trivia token that is consumed without being formatted and pushed "
                                    "is Whitespace")
    for cfg, prog in ctx.programs.items():
        f = prog.fn("stylua_lib", "formatters::general::load_token_trivia")
        if not rep.anchor(f is not None, "load_token_trivia", cfg):
            continue
        try:
            res = Enumerator(f, max_paths=200000, max_visits=2).run()
        except TooManyPaths:
            rep.anchor(False, "load_token_trivia: too many paths", cfg)
            continue
        nexts = [b for b, t in f.calls() if callee(t).endswith("Iterator>::next") or callee(t).endswith("Iterator::next")]
        if not rep.anchor(len(nexts) >= 1, "iterator next() calls in load_token_trivia", cfg):
            continue
        # the loop's own next(): the one whose None ends the function
        head = None
        for st in res:
            nx = [b for b, c, t in st.calls if b in nexts]
            if nx:
                head = nx[0]
                break
        if not rep.anchor(head is not None, "loop head of load_token_trivia", cfg):
            continue
        tt_head, tt_peek = set(), set()
        for b, t in f.calls():
            if callee(t).endswith("Token::token_type") or callee(t).endswith("Token::token_kind"):
                rc = _recv_calls(f, t)
                if any(c.endswith("::peek") for c in rc):
                    tt_peek.add(b)
                elif any(c.endswith("::next") for c in rc):
                    tt_head.add(b)
        # `iter.peek().map(|t| t.token_type())` / `iter.next().map(..)`: the mapped Option is the token type of the element
        for b, t in f.calls():
            if re.search(r"Option::<.*>::map$|Option::<T>::map$", callee(t)) and len(t["args"]) == 2:
                pf = None
                for r in provenance(f, t["args"][1], through=None):
                    if r[0] == "agg" and r[1].startswith("closure "):
                        pf = prog.fn(f.crate, r[1][8:])
                if pf is None or not any(callee(t2).endswith("Token::token_type") or callee(t2).endswith("Token::token_kind")
                                         for _, t2 in pf.calls()) or len(list(pf.calls())) != 1:
                    continue
                rc = _recv_calls(f, t)
                if any(c.endswith("::peek") for c in rc):
                    tt_peek.add(b)
                elif any(c.endswith("::next") for c in rc):
                    tt_head.add(b)
        rep.anchor(bool(tt_head), "token_type() of the loop's trivia token", cfg)
        n_iter = 0
        bad = {}
        sigs = set()
        for st in res:
            # split calls and constraint history into iterations at the head next()
            segs = []
            cur = None
            for b, c, t in st.calls:
                if b == head:
                    cur = {"calls": [], "hist": []}
                    segs.append(cur)
                elif cur is not None:
                    cur["calls"].append((b, c, t))
            hsegs = []
            hc = None
            for k, v in st.hist:
                if k == f"call:{head}":
                    hc = []
                    hsegs.append((v, hc))
                elif hc is not None:
                    hc.append((k, v))
            if len(hsegs) != len(segs):
                rep.anchor(False, "load_token_trivia: iterations and constraint history disagree", cfg)
                break
            for seg, (hv, hist) in zip(segs, hsegs):
                if hv != "Some":
                    continue
                calls = [c for _, c, _ in seg["calls"]]
                inner_next = [b for b, c, t in seg["calls"] if b in nexts]
                kept = 0
                fmt = False
                for b, c, t in seg["calls"]:
                    if c.endswith("formatters::general::format_token"):
                        fmt = True
                    elif fmt and re.search(r"Vec::<T, A>::(push|append)$|Extend<.*>>::extend$|::extend$|::extend_from_slice$", c):
                        # the pushed / appended value is (made of) the formatted token
                        if any(x.endswith("format_token") for x in prov_calls(provenance(
                                f, t["args"][1], through=re.compile(PROV_THROUGH.pattern + r"|trivia_to_vec$|IntoIterator>::into_iter$")))):
                            kept = 1
                head_kind = [v for k, v in hist if any(k == f"call:{b}" or k.startswith(f"call:{b}.") for b in tt_head)]
                peek_kind = [v for k, v in hist if any(k == f"call:{b}" or k.startswith(f"call:{b}.") for b in tt_peek)]
                head_ok = kept == 1 or any(_is_whitespace(v) for v in head_kind)
                inner_ok = len(inner_next) == 0 or (len(inner_next) == 1 and any(_is_whitespace(v) for v in peek_kind))
                # `iter.next_if(pred)` consumes the look-ahead element only when pred holds: pred must admit Whitespace only
                for b, c, t in seg["calls"]:
                    if re.search(r"Peekable<I>::next_if$|Peekable::<I>::next_if$|::next_if$", c):
                        kinds_ = _next_if_kinds(prog, f, t)
                        if kinds_ is None or (set(kinds_) & set(COMMENT_KINDS)):
                            inner_ok = False
                sig = (kept, tuple(map(str, head_kind)), len(inner_next), tuple(map(str, peek_kind)))
                if sig in sigs:
                    continue
                sigs.add(sig)
                n_iter += 1
                rep.inst(f"{f.key} iteration kept={kept} kind={head_kind} lookahead-consumed={len(inner_next)} "
                         f"lookahead-kind={peek_kind}", None, cfg, ok=head_ok and inner_ok)
                if not head_ok:
                    kinds = sorted(map(str, head_kind)) or ["unconstrained"]
                    bad[("head", tuple(kinds))] = seg
                if not inner_ok:
                    kinds = sorted(map(str, peek_kind)) or ["unconstrained"]
                    bad[("lookahead", tuple(kinds))] = seg
        for (which, kinds), seg in sorted(bad.items()):
            rep.violation(f"{f.key} trivia-token-dropped via={which} kind={list(kinds)}",
                          f"load_token_trivia consumes a trivia token ({'the loop element' if which == 'head' else 'the look-ahead element'}) "
                          f"without formatting and pushing it on a path where its kind is {list(kinds)}, not known to be "
                          f"Whitespace: a comment or shebang there disappears from the output", f.loc(), cfg)
        rep.floor("distinct iteration shapes of load_token_trivia", n_iter, 4, cfg)
    return rep


def _pred_dropped_kinds(prog, rep, cfg, pf, outcome):
    """variants of TokenKind/TokenType for which predicate function/closure `pf` can return `outcome`"""
    allk = set(prog.variants("full_moon::tokenizer::TokenKind", "stylua_lib") or [])
    res = Enumerator(pf, summaries=False, max_paths=5000).run()
    kinds = set()
    for st in res:
        v0 = st.vals.get(0)
        cons = [v for k, v in st.disc.items() if not k.startswith("int:") and
                (isinstance(v, str) and v in allk or isinstance(v, tuple) and v[0] == "not")]
        val = None
        if v0 and v0[0] == "const" and isinstance(v0[1], bool):
            val = v0[1]
        elif v0 and v0[0] in ("eqtest", "noteqtest"):
            # the predicate returns `kind == V` (or `!=`) directly
            eq_kinds = {v0[3]}
            if (outcome is True) == (v0[0] == "eqtest"):
                kinds |= eq_kinds
            else:
                kinds |= allk - eq_kinds
            continue
        if val is None:
            return None
        if val != outcome:
            continue
        adm = set(allk)
        for c in cons:
            if isinstance(c, str):
                adm &= {c}
            else:
                adm -= set(c[1])
        kinds |= adm
    return kinds


def switch_users(f, l):
    """switch blocks whose scrutinee is (a projection of) local l"""
    out = []
    for b in range(len(f.blocks)):
        si = switch_info(f, b)
        if si and si["place"].get("l") == l:
            out.append(b)
    return out


def rule_keep_eof(ctx, prop):
    rep = Report(prop, "R-KEEP(c)", "format_eof only empties the EOF token's trivia, and pop_until_no_whitespace only "
                                    "discards, when the discarded trivia is Whitespace")
    for cfg, prog in ctx.programs.items():
        f = prog.fn("stylua_lib", "formatters::general::format_eof")
        if not rep.anchor(f is not None, "format_eof", cfg):
            continue
        try:
            res = Enumerator(f, max_paths=5000, summaries=False).run()
        except TooManyPaths:
            rep.anchor(False, "format_eof: too many paths", cfg)
            continue
        n = 0
        for st in res:
            v0 = st.vals.get(0)
            if not (v0 and v0[0] == "callres"):
                continue
            t = f.blocks[v0[1]]["term"]
            if not callee(t).endswith("TokenReference::new"):
                continue
            lead = provenance(f, t["args"][0])
            if any(c.endswith("load_token_trivia") or c.endswith("leading_trivia") for c in prov_calls(lead)):
                continue   # the formatted trivia is carried over
            n += 1
            # which predicate over the trivia allowed this path?
            just = None
            for cb, dec in st.decisions.items():
                ct = f.blocks[cb]["term"]
                c = callee(ct)
                m = re.search(r"Iterator>?::(all|any)$", c.split("::<")[0])
                if not m:
                    continue
                if not any(x.endswith("load_token_trivia") for x in prov_calls(provenance(f, ct["args"][0]))):
                    continue
                pf = None
                for r in provenance(f, ct["args"][1], through=None):
                    if r[0] == "agg" and r[1].startswith("closure "):
                        pf = prog.fn("stylua_lib", r[1][8:])
                    elif r[0] == "const" and r[1].startswith("fn:"):
                        pf = prog.fn("stylua_lib", r[1][3:].split("::<")[0])
                just = (m.group(1), dec, pf, ct)
            if just is None:
                rep.inst(f"{f.key} empty-EOF path is guarded by a predicate over the trivia", None, cfg, ok=False)
                rep.violation(f"{f.key} eof-trivia-dropped unguarded",
                              "format_eof returns an EOF token with empty leading trivia on a path that never tested the "
                              "formatted trivia: comments at the end of the file are deleted", f.loc(), cfg)
                continue
            kind, dec, pf, ct = just
            # all(p) true  => every element has p true;  any(p) false => every element has p false
            if (kind == "all" and dec is True) or (kind == "any" and dec is False):
                outcome = kind == "all"
            else:
                rep.inst(f"{f.key} empty-EOF path: {kind}() = {dec} says nothing about every element", None, cfg, ok=False)
                rep.violation(f"{f.key} eof-trivia-dropped guard={kind}={dec}",
                              f"format_eof empties the EOF trivia when {kind}(..) is {dec}, which does not bound what the "
                              f"trivia contains", f.loc(), cfg)
                continue
            kinds = _pred_dropped_kinds(prog, rep, cfg, pf, outcome) if pf is not None else None
            if not rep.anchor(kinds is not None, "format_eof: the predicate deciding the empty EOF is a test on the token kind", cfg):
                continue
            lost = sorted(set(kinds) & set(COMMENT_KINDS))
            rep.inst(f"{f.key} empty-EOF path: trivia kinds that can be discarded = {sorted(kinds)}", {"predicate": pf.key}, cfg,
                     ok=not lost)
            if lost:
                rep.violation(f"{f.key} eof-trivia-dropped kinds={lost}",
                              f"format_eof returns an EOF token with empty trivia although the trivia may contain {lost} "
                              f"(the guard `{kind}({pf.path})` only excludes other kinds): that comment / shebang is "
                              f"deleted", f.loc(), cfg)
        rep.floor("empty-EOF paths of format_eof", n, 0, cfg)
        # pop_until_no_whitespace: a popped token that is not pushed back is Whitespace
        p = prog.fn("stylua_lib", "formatters::general::pop_until_no_whitespace")
        uses = [1 for b, t in f.calls() if callee(t).endswith("pop_until_no_whitespace")]
        if uses and rep.anchor(p is not None, "pop_until_no_whitespace", cfg):
            res = Enumerator(p, max_paths=2000, summaries=False).run()
            m = 0
            for st in res:
                pops = [(b, t) for b, c, t in st.calls if re.search(r"Vec::<T, A>::pop$", c)]
                if not pops or st.disc.get(f"call:{pops[0][0]}") != "Some":
                    continue
                pushed = any(re.search(r"Vec::<T, A>::push$", c) for b, c, t in st.calls)
                kinds = [v for k, v in st.disc.items() if isinstance(v, str) and v == "Whitespace"]
                m += 1
                ok = pushed or bool(kinds)
                rep.inst(f"{p.key} popped token pushed-back={pushed} whitespace={bool(kinds)}", None, cfg, ok=ok)
                if not ok:
                    rep.violation(f"{p.key} popped-non-whitespace",
                                  "pop_until_no_whitespace discards a popped trivia token on a path where it is not known "
                                  "to be Whitespace: a trailing comment at the end of the file is deleted", p.loc(), cfg)
            # loop form: `while let Some(Whitespace) = trivia.last().map(kind) { trivia.pop(); }` - the pop is executed
            # only under a match of the last element's kind against Whitespace
            for b, t in p.calls():
                if re.search(r"Vec::<T, A>::pop$", callee(t)):
                    examined = any(u[0] in ("switch", "discr", "field") for u in forward_uses(p, t["dst"]["l"])) or \
                        bool(switch_users(p, t["dst"]["l"]))
                    if examined:
                        continue
                    g = guarded_by_variant(p, b, "TokenKind", "Whitespace") or guarded_by_variant(p, b, "TokenType", "Whitespace")
                    m += 2
                    rep.inst(f"{p.key} unexamined pop is guarded by kind == Whitespace", None, cfg, ok=bool(g))
                    if not g:
                        rep.violation(f"{p.key} popped-non-whitespace",
                                      "pop_until_no_whitespace discards the last trivia token without having established "
                                      "that it is Whitespace: a trailing comment at the end of the file is deleted",
                                      p.loc(t["sp"]), cfg)
            rep.floor("pop paths of pop_until_no_whitespace", m, 2, cfg)
    return rep


def rule_span_side(ctx, prop):
    """sibling agreement inside the trivia traits: the leading trivia of a node that starts with a `( [ { <` span lives on the
    span's opening token, the trailing trivia of a node that ends with one on its closing token - in the getters
    (Get*Trivia) and in the setters (Update*Trivia) alike"""
    rep = Report(prop, "R-KEEP(d)", "Get/Update Leading trivia impls go through `span.tokens().0`, Trailing ones through "
                                    "`span.tokens().1`: getter and setter of one side talk about the same token")
    for cfg, prog in ctx.programs.items():
        n = 0
        for f in prog.fns("stylua_lib"):
            m = re.search(r"as formatters::trivia(_util)?::(Get|Update)(Leading|Trailing)Trivia>::(\w+)$", f.path)
            if not m:
                continue
            side = m.group(3)
            want = "0" if side == "Leading" else "1"
            for b, t in f.calls():
                c = callee(t)
                if not re.search(r"(Get|Update)" + side + r"Trivia>?::(leading_trivia|trailing_trivia|update_leading_trivia|"
                                 r"update_trailing_trivia|leading_comments|trailing_comments)$", c):
                    continue
                if not t["args"] or is_const(t["args"][0]):
                    continue
                root, steps = access_path(f, t["args"][0])
                if root[0] != "call" or not callee(f.blocks[root[1]]["term"]).endswith("ContainedSpan::tokens"):
                    continue
                if not steps or steps[0][0] != "f":
                    continue
                n += 1
                ok = steps[0][1] == want
                rep.inst(f"{f.key} {side.lower()} trivia through tokens().{steps[0][1]}", None, cfg, ok=ok)
                if not ok:
                    rep.violation(f"{f.key} span-token-side tokens().{steps[0][1]}",
                                  f"{f.path} takes the {side.lower()} trivia of a node from `tokens().{steps[0][1]}` of its "
                                  f"bracket pair (expected `.{want}`): the getter and the setter of this side no longer talk about "
                                  f"the same token, so comments read through one are not the ones replaced through the other and "
                                  f"get deleted or duplicated", f.loc(t["sp"]), cfg)
        rep.floor("span-token accesses in the trivia traits", n, 3, cfg)
    return rep


def rule_getter_setter_fields(ctx, prop):
    """the token whose trivia a node's getter reads is the token its setter rewrites (per enum variant)"""
    import collections
    from paths import access_path
    rep = Report(prop, "R-KEEP(e)", "for every node type with both a trivia getter and a trivia setter, and every variant that both "
                                    "handle through a field of the node itself, getter and setter name the same field")
    for cfg, prog in ctx.programs.items():
        def sig(f, side, setter):
            out = collections.defaultdict(set)
            pat = re.compile(r"update_%s_trivia$" % side) if setter else re.compile(r"::%s_trivia$" % side)
            for b, t in f.calls():
                c = callee(t)
                if not pat.search(c) or (not setter and "update_" in c.split("::")[-1]) or not t["args"]:
                    continue
                try:
                    root, steps = access_path(f, t["args"][0])
                except Exception:
                    continue
                if root[0] == "call":
                    rn = callee(f.blocks[root[1]]["term"]).split("::")[-1]
                elif root[0] == "arg":
                    rn = "self"
                else:
                    continue
                names = [s_[1] if len(s_) > 1 else "[]" for s_ in steps]
                vs = [s_[1] for s_ in steps if s_[0] == "v" and s_[1] not in ("Some", "Ok")]
                if len(vs) == 1 and names and names[-1] not in ("Some",):
                    fld = names[names.index(vs[0]) + 1:] if vs[0] in names else []
                    if len(fld) == 1:
                        out[(rn, vs[0])].add(fld[0])
            return out
        types = collections.defaultdict(dict)
        for f in prog.fns("stylua_lib"):
            if f.kind == "Closure":
                continue
            m = re.match(r"^<(.+) as formatters::trivia(_util)?::(Get|Update)(Leading|Trailing)Trivia>::(update_)?(leading|trailing)_trivia$", f.path)
            if m:
                types[(m.group(1), m.group(4).lower())][m.group(3)] = (f, sig(f, m.group(4).lower(), m.group(3) == "Update"))
        n = 0
        for (ty, side), d in sorted(types.items()):
            if "Get" not in d or "Update" not in d:
                continue
            gf, g = d["Get"]
            sf, s_ = d["Update"]
            for key in sorted(set(g) & set(s_)):
                n += 1
                ok = g[key] == s_[key]
                rep.inst(f"{ty.split('::')[-1]}::{key[1]} {side} trivia: getter and setter use {sorted(g[key])}", None, cfg, ok=ok)
                if not ok:
                    rep.violation(f"{sf.key} getter-setter-field {key[1]} get={','.join(sorted(g[key]))} set={','.join(sorted(s_[key]))}",
                                  f"for {ty}::{key[1]} the {side}-trivia getter reads `{sorted(g[key])}` but the setter rewrites "
                                  f"`{sorted(s_[key])}`: code that moves comments (read them, re-emit them elsewhere, then clear them with "
                                  f"Replace) clears the wrong token - the comments are printed twice, or the other token's are lost",
                                  sf.loc(), cfg)
        if "luau" in cfg or cfg in ("release", "all"):
            rep.floor("variant fields compared between trivia getters and setters", n, 10, cfg)
        else:
            rep.floor("variant fields compared between trivia getters and setters", n, 5, cfg)
    return rep
