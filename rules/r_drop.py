"""R-DROP: a discarded token hands over all of its trivia (C03).

Sites where an *input* token stops existing in the output: the two tokens of a ContainedSpan bound from
Expression::Parentheses / FunctionArgs::Parentheses / TypeInfo::Tuple on every path whose result is not that
wrapper any more, and a semicolon that is not re-emitted. For every such path the four obligations
{open, close} x {leading trivia, trailing trivia} must be discharged by a call that *returns* that trivia
(leading_trivia / trailing_trivia / *_comments / take_*_comments) - a boolean test is not a transplant.
"""
from engine import Report
from facts import *
from paths import *
from r_tree import ParamEnumerator, _same_node_chain, strip_ty

WRAPPERS = [
    ("full_moon::ast::Expression", "Parentheses", "contained"),
    ("full_moon::ast::FunctionArgs", "Parentheses", "parentheses"),
    ("full_moon::ast::luau::TypeInfo", "Tuple", "parentheses"),
]
READ = re.compile(r"(TokenReference::(leading_trivia|trailing_trivia|surrounding_trivia)$|"
                  r"Get(Leading|Trailing)Trivia>?::(leading_trivia|trailing_trivia|leading_comments|trailing_comments|"
                  r"leading_comments_search|trailing_comments_search)$|"
                  r"trivia_util::take_(leading|trailing)_comments$|trivia_util::take_trailing_trivia$)")
COPY = re.compile(r"formatters::general::format_contained_span$|ContainedSpan::new$")


def _sides(c):
    n = c.split("::")[-1]
    if "surrounding" in n:
        return {"leading", "trailing"}
    if "leading" in n:
        return {"leading"}
    return {"trailing"}


def rule_drop(ctx, prop):
    rep = Report(prop, "R-DROP", "when a parenthesis pair (or a semicolon) of the input is dropped, the leading and trailing "
                                 "trivia of both tokens are read and carried over on every path")
    for cfg, prog in ctx.programs.items():
        nsites = 0
        for f in prog.fns("stylua_lib"):
            if f.kind == "Closure" or f.path.startswith("verify_ast") or f.path.startswith("<"):
                continue
            rt = strip_ty(f.locals[0])
            for E, W, field in WRAPPERS:
                if rt != E:
                    continue
                ps = [i for i in range(1, f.argc + 1) if strip_ty(f.locals[i]) == E]
                if not ps:
                    continue
                pi = ps[0]
                if W not in (prog.variants(E, "stylua_lib") or []):
                    continue
                try:
                    res = ParamEnumerator(f, {f"arg:{pi}": W}, max_paths=60000).run()
                except TooManyPaths:
                    rep.anchor(False, f"{f.path}[{W}]: too many paths", cfg)
                    continue
                span_path = (("arg", pi), (("v", W), ("f", field)))
                missing_any = {}
                ndrop = 0
                for st in res:
                    c = _same_node_chain(f, st, st.vals.get(0), pi, E)
                    if c[0] == "same" or (c[0] == "variant" and c[1] == W):
                        continue
                    if c[0] == "unknown" and not any(callee(t).endswith("ContainedSpan::tokens") or True for _, _, t in st.calls[:0]):
                        pass
                    if c[0] == "unknown":
                        # cannot tell what is returned: treat as dropping only if the span is never re-emitted whole
                        pass
                    ndrop += 1
                    # token identities on this path
                    tokens_calls = {}   # call block -> True
                    copies = set()      # call blocks producing a formatted copy of the span
                    for bi, cal, t in st.calls:
                        if COPY.search(cal):
                            for a in t["args"]:
                                if not is_const(a) and access_path(f, a) == span_path:
                                    copies.add(bi)
                    for bi, cal, t in st.calls:
                        if cal.endswith("ContainedSpan::tokens") and t["args"]:
                            ap = access_path(f, t["args"][0])
                            if ap == span_path or (ap[0][0] == "call" and ap[0][1] in copies and not ap[1]):
                                tokens_calls[bi] = True
                    done = set()
                    for bi, cal, t in st.calls:
                        if not READ.search(cal) or not t["args"]:
                            continue
                        ai = 0
                        ap = access_path(f, t["args"][ai])
                        # reads on a token of the span
                        if ap[0][0] == "call" and ap[0][1] in tokens_calls and ap[1] in ((("f", "0"),), (("f", "1"),)):
                            tok = "open" if ap[1] == (("f", "0"),) else "close"
                            for s in _sides(cal):
                                done.add((tok, s))
                        # reads on the whole wrapper node: first token's leading / last token's trailing trivia
                        elif ap == (("arg", pi), ()):
                            for s in _sides(cal):
                                done.add(("open", s) if s == "leading" else ("close", s))
                    for ob in (("open", "leading"), ("open", "trailing"), ("close", "leading"), ("close", "trailing")):
                        if ob not in done:
                            missing_any.setdefault(ob, 0)
                            missing_any[ob] += 1
                if ndrop == 0:
                    continue
                nsites += 1
                miss = sorted(f"{a}.{b}" for (a, b) in missing_any)
                rep.inst(f"{f.key} drops {W}.{field}", {"fn": f.key, "wrapper": f"{E.split('::')[-1]}::{W}",
                                                      "dropping_paths": ndrop, "undischarged": miss}, cfg, ok=not miss)
                if miss:
                    rep.violation(f"{f.key} drops {E.split('::')[-1]}::{W} undischarged={','.join(miss)}",
                                  f"{f.path} has {ndrop} path(s) on which the {W} wrapper's `(` `)` tokens are dropped; "
                                  f"on some of them the trivia {miss} of those tokens is never read: a comment placed "
                                  f"there is deleted", f.loc(), cfg, {"undischarged": miss})
        rep.floor("sites that drop a parenthesis pair", nsites, 4 if "luau" not in __import__("extract").FEATURES[cfg] else 5, cfg)
        # semicolons: in format_block a dropped `;` hands over its comments
        fb = prog.fn("stylua_lib", "formatters::block::format_block")
        if rep.anchor(fb is not None, "format_block", cfg):
            n = 0
            fb0 = fb
            for fb in [fb0] + [x for x in prog.fns("stylua_lib") if x.path.startswith(fb0.path + "::{closure")]:
              for bi in range(len(fb.blocks)):
                  if fb.blocks[bi]["cleanup"]:
                      continue
                  si = switch_info(fb, bi)
                  if not si or not si["enum"].endswith("option::Option") or si["targets"].get("Some") is None:
                      continue
                  pl = si["place"]
                  base_ty = fb.local_ty(pl["l"])
                  if "Option<full_moon::tokenizer::TokenReference>" not in base_ty:
                      continue
                  sb = si["targets"]["Some"]
                  region = [b for b in fb.reach_from(sb) if fb.dominates(sb, b)]
                  kept = any(fb.blocks[b]["term"]["k"] == "call" and
                             callee(fb.blocks[b]["term"]) == "formatters::general::format_symbol" for b in region)
                  if kept:
                      continue
                  n += 1
                  reads = set()
                  members = [(fb, region)]
                  for b in region:
                      for s in fb.blocks[b]["st"]:
                          if s["k"] == "assign" and s["rv"]["k"] == "agg" and "closure" in s["rv"]:
                              g = prog.fn("stylua_lib", s["rv"]["closure"])
                              if g:
                                  members.append((g, range(len(g.blocks))))
                  # a local helper that receives the semicolon token and reads its trivia itself
                  for b in region:
                      t = fb.blocks[b]["term"]
                      if t["k"] != "call":
                          continue
                      h = prog.fn("stylua_lib", callee(t))
                      if h is None or h is fb:
                          continue
                      for ai, a in enumerate(t["args"]):
                          if is_const(a) or "TokenReference" not in fb.local_ty(op_place(a)["l"]):
                              continue
                          hm = [h] + [x for x in prog.fns("stylua_lib") if x.path.startswith(h.path + "::{closure")]
                          for hh in hm:
                              members.append((hh, range(len(hh.blocks))))
                  for g, blocks in members:
                      for b in blocks:
                          t = g.blocks[b]["term"]
                          if t["k"] == "call" and READ.search(callee(t)) and "TokenReference::" in callee(t):
                              reads |= _sides(callee(t))
                  ok = reads >= {"leading", "trailing"}
                  rep.inst(f"{fb.key} dropped-semicolon hands over trivia #{n}", {"reads": sorted(reads)}, cfg, ok=ok)
                  if not ok:
                      rep.violation(f"{fb.key} dropped-semicolon undischarged={sorted({'leading', 'trailing'} - reads)}",
                                    "a semicolon is removed without reading its leading/trailing trivia: comments attached "
                                    "to it are deleted", fb.loc(fb.blocks[bi]["term"]["sp"]), cfg)
            fb = fb0
            rep.floor("semicolon-dropping regions in format_block", n, 2, cfg)
    return rep
