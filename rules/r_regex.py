"""R-REGEX: string-escape and number rewriting in format_token (C04)."""
from engine import Report
from facts import *
from extract import FEATURES
from paths import *

# characters that are meaningful after a backslash in some supported dialect (Lua 5.1-5.4, LuaJIT, Luau)
ESCAPE_ALPHABET = set("abfnrtv\\\"'\n\rxzu") | set("0123456789")


# calls that may take part in building the text of a Number token: copies of the text and String concatenation
NUMBER_CALLS = re.compile(r"(ToString>?::to_string|to_owned|String as std::ops::Add<&str>>::add|From<&str>>::from|as_str|"
                          r"<impl str>::get(::<.*>)?|Option::<.*>::expect|Option::<T>::expect|Into<.*>>::into|Deref>::deref|"
                          r"String::push_str|String::push|Borrow<.*>>::borrow|AsRef<.*>>::as_ref|Clone>::clone|"
                          r"From<std::string::String>>::from|Token::token_type)$")


class RegexError(Exception):
    pass


def parse_class(p, i):
    """parse a bracket class starting after '['; returns (negated, set-of-chars, has_S, has_s, next_index)"""
    neg = False
    if i < len(p) and p[i] == "^":
        neg = True
        i += 1
    chars = set()
    hasS = hass = False
    first = True
    while i < len(p):
        c = p[i]
        if c == "]" and not first:
            return neg, chars, hasS, hass, i + 1
        first = False
        if c == "\\":
            i += 1
            if i >= len(p):
                raise RegexError("dangling escape")
            e = p[i]
            if e == "n":
                lit = "\n"
            elif e == "r":
                lit = "\r"
            elif e == "t":
                lit = "\t"
            elif e == "S":
                hasS = True
                i += 1
                continue
            elif e == "s":
                hass = True
                i += 1
                continue
            elif e in "dDwW":
                raise RegexError(f"unsupported class escape \\{e}")
            else:
                lit = e
            c = lit
        # range?
        if i + 2 < len(p) and p[i + 1] == "-" and p[i + 2] != "]":
            hi = p[i + 2]
            if hi == "\\":
                raise RegexError("escaped range end unsupported")
            for o in range(ord(c), ord(hi) + 1):
                chars.add(chr(o))
            i += 3
            continue
        chars.add(c)
        i += 1
    raise RegexError("unterminated class")


def parse_alternatives(p):
    """split a pattern at top-level '|' and parse each alternative into a token list."""
    alts = [[]]
    i = 0
    group_no = 0
    depth = 0
    cur = alts[-1]
    stack = []
    while i < len(p):
        c = p[i]
        if c == "|" and depth == 0:
            alts.append([])
            cur = alts[-1]
            i += 1
        elif c == "\\":
            if i + 1 >= len(p):
                raise RegexError("dangling escape")
            cur.append(("lit", p[i + 1]) if p[i + 1] not in "sSdDwWnrt" else ("esc", p[i + 1]))
            i += 2
        elif c == "(":
            if p[i + 1:i + 3] == "?:":
                cur.append(("open", None))
                i += 3
            else:
                group_no += 1
                cur.append(("open", group_no))
                i += 1
            depth += 1
        elif c == ")":
            cur.append(("close",))
            depth -= 1
            i += 1
        elif c == "[":
            neg, chars, hasS, hass, j = parse_class(p, i + 1)
            cur.append(("class", neg, frozenset(chars), hasS, hass))
            i = j
        elif c in "?*+":
            cur.append(("quant", c))
            i += 1
        elif c in "^$":
            cur.append(("anchor", c))
            i += 1
        elif c == ".":
            cur.append(("dot",))
            i += 1
        else:
            cur.append(("lit", c))
            i += 1
    return alts


def _newline_chain_root(f, operand):
    """if operand == X.replace("\\r\\n", "\\n").replace('\\n', &line_ending_character(..)) (through into/deref),
    return the operand X (innermost receiver), else None"""
    def consts(o):
        return [r[1] for r in provenance(f, o, through=None) if r[0] == "const"]

    def replace_call(o):
        for r in provenance(f, o):
            if r[0] == "call" and re.search(r"::replace$", r[1]):
                return f.blocks[r[2]]["term"]
            if r[0] == "call":
                return None
        return None
    outer = replace_call(operand)
    if outer is None:
        return None
    if consts(outer["args"][1]) not in (["v:\n"], ["s:\n"]):
        return None
    rp = provenance(f, outer["args"][2])
    if "context::line_ending_character" not in prov_calls(rp) or [r for r in rp if r[0] == "const"]:
        return None
    inner = replace_call(outer["args"][0])
    if inner is None:
        return None
    if consts(inner["args"][1]) != ["s:\r\n"] or consts(inner["args"][2]) != ["s:\n"]:
        return None
    return inner["args"][0]


def _is_literal_path(f, o):
    ap = access_path(f, o)
    return ap[1][-2:] == (("v", "StringLiteral"), ("f", "literal")) or ap[1][-1:] in ((("f", "literal"),), (("f", "comment"),))


def _newline_chain(f, operand):
    """the literal is normalised CRLF -> LF and then converted to the configured ending, inline or through a
    local helper whose body is exactly that chain applied to one of its parameters"""
    root = _newline_chain_root(f, operand)
    if root is not None:
        return _is_literal_path(f, root)
    for r in provenance(f, operand):
        if r[0] == "call":
            h = f.prog.fn(f.crate, r[1])
            if h is None:
                continue
            hr = _newline_chain_root(h, {"cp": {"l": 0}})
            if hr is None:
                continue
            ap = access_path(h, hr)
            if ap[0][0] != "arg" or ap[1]:
                continue
            t = f.blocks[r[2]]["term"]
            if ap[0][1] - 1 < len(t["args"]) and _is_literal_path(f, t["args"][ap[0][1] - 1]):
                return True
    return False


def _regex_static(f, o):
    """name of the lazy_static regex an operand denotes"""
    for r in provenance(f, o):
        if r[0] == "const" and r[1].startswith("static:"):
            return r[1].split("::")[-1]
    return None


def _char_table(h):
    """h: fn(&str) -> bool deciding on the first char by matching constants / is_ascii_digit. Returns a function
    ch -> set of possible results, or None when the shape is not understood."""
    try:
        res = Enumerator(h, summaries=False, max_paths=2000, track_cmp=True).run()
    except TooManyPaths:
        return None
    rows = []
    for st in res:
        v0 = st.vals.get(0)
        if not (v0 and v0[0] == "const" and isinstance(v0[1], bool)):
            return None
        cons = [v for k, v in st.disc.items() if k.startswith("int:")]
        # range patterns (`'0'..='9'`) compile to order comparisons against constants
        for hk, hv in st.hist:
            if hk == "cmp":
                op_, a_, b_, out_ = hv
                def _code(o):
                    v = o.get("v")
                    if isinstance(v, bool):
                        return None
                    if isinstance(v, int):
                        return v
                    if isinstance(v, str) and len(v) == 1:
                        return ord(v)
                    return None
                if is_const(b_) and not is_const(a_) and _code(b_) is not None:
                    cons.append(("cmp", op_, _code(b_), out_, False))
                elif is_const(a_) and not is_const(b_) and _code(a_) is not None:
                    cons.append(("cmp", op_, _code(a_), out_, True))
        digit = None
        for cb, dec in st.decisions.items():
            c = callee(h.blocks[cb]["term"])
            if c.endswith("is_ascii_digit"):
                digit = dec
            else:
                return None
        empty = any(v == "None" for k, v in st.disc.items() if k.startswith("call:"))
        rows.append((cons, digit, empty, v0[1]))

    def table(ch):
        outs = set()
        for cons, digit, empty, val in rows:
            if empty:
                continue
            ok = True
            for c in cons:
                if c[0] == "int" and c[1] != ord(ch):
                    ok = False
                if c[0] == "notint" and ord(ch) in c[1]:
                    ok = False
                if c[0] == "cmp":
                    _, op_, k_, out_, flipped = c
                    x, y = (k_, ord(ch)) if flipped else (ord(ch), k_)
                    holds = {"Lt": x < y, "Le": x <= y, "Gt": x > y, "Ge": x >= y, "Eq": x == y, "Ne": x != y}.get(op_)
                    if holds is not None and holds != out_:
                        ok = False
            if digit is not None and digit != (ch in "0123456789"):
                ok = False
            if ok:
                outs.add(val)
        return outs
    return table


def _escape_predicate(rep, prog, pats, pred, cfg):
    """(label, ch -> set of predicate results, location) for the closure's escape predicate"""
    kind, name = pred
    if kind == "regex":
        if not rep.anchor(name in pats, f"pattern of regex {name}", cfg):
            return None
        pat, pf = pats[name]
        try:
            alts = parse_alternatives(pat)
            ok_shape = len(alts) == 1 and [t[0] for t in alts[0]] == ["anchor", "class", "anchor"]
        except RegexError as e:
            ok_shape = False
            rep.note(f"regex parse error: {e}")
        rep.inst(f"stylua_lib {name} shape ^[..]$", {"pattern": pat}, cfg, ok=ok_shape)
        if not ok_shape:
            rep.violation(f"stylua_lib::formatters::general::format_token::{name} shape",
                          f"{name} = {pat!r} is not a single anchored character class: the set of escapes that may be "
                          f"dropped cannot be established (fail closed)", pf.loc(), cfg)
            return None
        _, neg, chars, hasS, hass = alts[0][1]

        def table(ch):
            inside = ch in chars or (hass and ch.isspace()) or (hasS and not ch.isspace())
            return {inside != neg}
        return f"{name} = {pat!r}", table, pf.loc()
    h = prog.fn("stylua_lib", name)
    # a helper that only wraps `REGEX.is_match(arg)`
    im = [(b, t) for b, t in h.calls() if callee(t).endswith("Regex::is_match")]
    if len(im) == 1 and any(r[0] == "call" and r[2] == im[0][0] for r in provenance(h, {"cp": {"l": 0}}, through=None)):
        nm = _regex_static(h, im[0][1]["args"][0])
        if nm is not None:
            return _escape_predicate(rep, prog, pats, ("regex", nm), cfg)
    table = _char_table(h)
    if not rep.anchor(table is not None, f"escape predicate {name} is a match on the first character", cfg):
        return None
    return f"{h.path}", table, h.loc()


def rule_regex(ctx, prop):
    rep = Report(prop, "R-REGEX", "escape rewriting: regex shapes, escape alphabet, replacement table; bracket strings "
                                  "and numbers are otherwise untouched")
    for cfg, prog in ctx.programs.items():
        pats = {}
        for f, b, t in call_sites(prog, r"regex::Regex::new$", "stylua_lib"):
            lits = [r[1][2:] for r in provenance(f, t["args"][0], through=None) if r[0] == "const" and r[1].startswith("s:")]
            m = re.search(r"(\w+) as std::ops::Deref", f.path)
            if m and len(lits) == 1:
                pats[m.group(1)] = (lits[0], f)
        ft = prog.fn("stylua_lib", "formatters::general::format_token")
        if not rep.anchor(ft is not None, "format_token", cfg):
            continue
        # the tokenising regex is the receiver of the Regex::replace_all call; its third argument is the replacement closure
        ra_all = [(b, t) for b, t in ft.calls() if callee(t).endswith("Regex::replace_all")]
        ra = [(b, t) for b, t in ra_all if guarded_by_variant(ft, b, "TokenType", "StringLiteral")] if len(ra_all) > 1 else ra_all
        kinds_all = prog.variants("full_moon::tokenizer::TokenType", "stylua_lib") or []
        for b, t in ra_all:
            if (b, t) in ra:
                continue
            on = [k for k in kinds_all if guarded_by_variant(ft, b, "TokenType", k)] or ["?"]
            rep.violation(f"{ft.key} regex-rewrite-on-kind={','.join(on)}",
                          f"format_token rewrites the text of a {'/'.join(on)} token with Regex::replace_all: only quoted string "
                          f"literals have their escapes normalised (by the audited tokenising regex and replacement table); "
                          f"text of any other kind is carried over as written", ft.loc(t["sp"]), cfg)
        if not rep.anchor(len(ra) == 1, f"one Regex::replace_all call on the StringLiteral arm of format_token ({len(ra)})", cfg):
            continue
        rb, rt = ra[0]
        re_name = None
        re_name = _regex_static(ft, rt["args"][0])
        cl = None
        for r in provenance(ft, rt["args"][2], through=None):
            if r[0] == "agg" and r[1].startswith("closure "):
                cl = prog.fn("stylua_lib", r[1][8:])
        if not rep.anchor(re_name in pats, f"tokenising regex of format_token ({re_name}, constants {sorted(pats)})", cfg):
            continue
        # --- RE: \\?(["'])|\\([\S\s])
        pat, pf = pats[re_name]
        ok_re = False
        why = ""
        try:
            alts = parse_alternatives(pat)
            if len(alts) == 2:
                a1, a2 = alts
                # alt1: optional backslash, group#1 with class {",'}
                s1 = [t[0] for t in a1]
                s2 = [t[0] for t in a2]
                ok1 = s1 == ["lit", "quant", "open", "class", "close"] and a1[0] == ("lit", "\\") and a1[1] == ("quant", "?") \
                    and a1[2] == ("open", 1) and a1[3][1] is False and set(a1[3][2]) == {'"', "'"} and not a1[3][3] and not a1[3][4]
                ok2 = s2 == ["lit", "open", "class", "close"] and a2[0] == ("lit", "\\") and a2[1] == ("open", 2) \
                    and a2[2][1] is False and a2[2][3] and a2[2][4]
                ok_re = ok1 and ok2
                why = f"alt1 ok={ok1}, alt2 ok={ok2}"
            else:
                why = f"{len(alts)} alternatives"
        except RegexError as e:
            why = str(e)
        rep.inst("stylua_lib RE shape \\\\?([\"'])|\\\\([\\S\\s])", {"pattern": pat}, cfg, ok=ok_re)
        if not ok_re:
            rep.violation("stylua_lib::formatters::general::format_token::RE shape",
                          f"RE = {pat!r} is not `optional-backslash (quote)` | `backslash (any char incl. newline)` with "
                          f"groups 1 and 2 ({why}): escapes are not tokenised as the replacement closure assumes",
                          pf.loc(), cfg)
        # --- replacement closure table
        # a closure that only forwards the captures to a named local function: analyse that function
        if cl is not None:
            local_calls = [(b, t) for b, t in cl.calls() if prog.fn("stylua_lib", callee(t)) is not None]
            if len(local_calls) == 1 and any(r[0] == "call" and r[2] == local_calls[0][0]
                                             for r in provenance(cl, {"cp": {"l": 0}}, through=None)):
                cl = prog.fn("stylua_lib", callee(local_calls[0][1]))
        if rep.anchor(cl is not None, "replacement closure of format_token (third argument of replace_all)", cfg):
            try:
                res = run_with_argvals(cl, None, r"From<&str>>::from$", summaries=False)
            except TooManyPaths:
                res = []
                rep.anchor(False, "replacement closure: too many paths", cfg)
            rows = {}
            preds = set()
            for st in res:
                # which capture group decided the branch
                quote_some = None
                for k, v in st.disc.items():
                    if k.startswith("call:") and v in ("Some", "None") and "." not in k:
                        t = cl.blocks[int(k.split(":")[1])]["term"]
                        if callee(t).endswith("Captures::<'h>::get") and is_const(t["args"][1]) and t["args"][1].get("v") == 1:
                            quote_some = v == "Some"
                qt = None
                for k, v in st.disc.items():
                    if (k.startswith("upvar:") or k.startswith("arg:")) and \
                            ((isinstance(v, str) and v in ("Single", "Double", "Brackets", "Backtick")) or
                             (isinstance(v, tuple) and v[0] == "not" and set(v[1]) & {"Single", "Double"})):
                        qt = v
                eqs = {}
                for cb, dec in st.decisions.items():
                    t = cl.blocks[cb]["term"]
                    c = callee(t)
                    if c.endswith("PartialEq for str>::eq"):
                        lit = [a.get("s") for a in t["args"] if is_const(a) and "s" in a]
                        if lit:
                            eqs[lit[0]] = dec
                    elif c.endswith("Regex::is_match"):
                        eqs["<pred>"] = dec
                        preds.add(("regex", _regex_static(cl, t["args"][0])))
                    elif prog.fn("stylua_lib", c) is not None and prog.fn("stylua_lib", c).locals[0] == "bool":
                        eqs["<pred>"] = dec
                        preds.add(("helper", c))
                    elif re.search(r"Iterator>?::all$|iter::Iterator::all$", c) and len(t["args"]) > 1 and is_const(t["args"][1]) and \
                            (t["args"][1].get("rfn") or t["args"][1].get("fn")) and \
                            any(cc.endswith("<impl str>::chars") or cc.endswith("str::chars") for cc in prov_calls(provenance(cl, t["args"][0]))):
                        # `text.chars().all(is_unnecessary_escape)`: the escaped text is one character
                        fnp = t["args"][1].get("rfn") or t["args"][1]["fn"]
                        if prog.fn("stylua_lib", fnp) is not None:
                            eqs["<pred>"] = dec
                            preds.add(("helper", fnp))
                v0 = st.vals.get(0)
                out = None
                if v0 and v0[0] == "callres":
                    t = cl.blocks[v0[1]]["term"]
                    c = callee(t)
                    if c.endswith("From<&str>>::from") and is_const(t["args"][0]):
                        out = ("lit", t["args"][0].get("s"))
                    elif c.endswith("From<&str>>::from"):
                        # the literal came out of a `match quote { "'" => (.., "'", "\\'"), .. }` tuple: its value on this path
                        av = [hv for hk, hv in st.hist if hk == f"argval:{v0[1]}"]
                        if av and av[-1] and av[-1][0] and av[-1][0][0] == "constx" and str(av[-1][0][1]).startswith("s:"):
                            out = ("lit", av[-1][0][1][2:])
                    elif c.endswith("to_owned"):
                        out = ("text",)
                    elif c.endswith("must_use") or c.endswith("fmt::format"):
                        # format!("\\{}", text): template must contain a backslash before the placeholder
                        tmpl = ""
                        for bi, cc, tt in st.calls:
                            if cc.endswith("Arguments::<'a>::new"):
                                for r in provenance(cl, tt["args"][0], through=None):
                                    if r[0] == "const":
                                        tmpl = r[1]
                        out = ("escaped-text", "\\\\" in tmpl or "\\x5c" in tmpl.lower())
                        # ... and the placeholder is the matched text itself (not something computed from the configuration)
                        for bi, cc, tt in st.calls:
                            if cc.endswith("new_display") and tt["args"]:
                                srcs = {c_.split("::")[-1] for c_ in prov_calls(provenance(cl, tt["args"][0], through=None))}
                                deepc = set()
                                work = [tt["args"][0]]
                                seen_b = set()
                                while work:
                                    o_ = work.pop()
                                    for r_ in provenance(cl, o_, through=None):
                                        if r_[0] == "call" and r_[2] not in seen_b:
                                            seen_b.add(r_[2])
                                            deepc.add(r_[1].split("::")[-1])
                                            ta = cl.blocks[r_[2]]["term"]["args"]
                                            if ta:
                                                work.append(ta[0])
                                foreign = sorted(x for x in deepc if x not in ("as_str", "expect", "unwrap", "get", "to_owned", "to_string",
                                                                                  "deref", "clone", "borrow", "as_ref", "name", "index"))
                                if foreign:
                                    out = ("escaped-other", tuple(foreign))
                rows[(quote_some, tuple(sorted(eqs.items())), str(qt))] = out

            def find(quote, qtest):
                outs = set()
                for (qs, eqs, qt), out in rows.items():
                    if qs is not True:
                        continue
                    d = dict(eqs)
                    if d.get(quote) is not True:
                        continue
                    if qtest(qt):
                        outs.add(out)
                return outs
            checks = [
                ("'", "Single", lambda q: q == "Single", {("lit", "\\'")}),
                ("'", "not Single", lambda q: q != "Single", {("lit", "'")}),
                ('"', "Double", lambda q: q == "Double", {("lit", '\\"')}),
                ('"', "not Double", lambda q: q != "Double", {("lit", '"')}),
            ]
            for quote, label, qtest, want in checks:
                got = find(quote, qtest)
                ok = got == want
                rep.inst(f"{cl.key} quote {quote} with output quote {label} -> {sorted(want)}", {"got": sorted(map(str, got))}, cfg, ok=ok)
                if not ok:
                    rep.violation(f"{cl.key} quote-replacement {quote} [{label}] -> {sorted(map(str, got))}",
                                  f"a {quote} inside a string whose output quote is {label} is rewritten to "
                                  f"{sorted(map(str, got))}, expected {sorted(want)}", cl.loc(), cfg)
            # generic escapes: the closure asks one predicate about the escaped character (a regex test or a local
            # char predicate); every character of the escape alphabet must land in the branch that keeps the backslash
            pred = None
            if rep.anchor(len(preds) == 1, f"one escape predicate in the replacement closure ({sorted(preds)})", cfg):
                pred = _escape_predicate(rep, prog, pats, list(preds)[0], cfg)
            if pred is not None:
                label, table, loc = pred
                branch = {d: {out for (qs, eqs, qt), out in rows.items() if qs is False and dict(eqs).get("<pred>") is d}
                          for d in (True, False)}
                rep.inst(f"{cl.key} escape branches of {label}", {str(k): sorted(map(str, v)) for k, v in branch.items()}, cfg)
                bad = []
                for ch in sorted(ESCAPE_ALPHABET):
                    outs = set()
                    for d in table(ch):
                        outs |= branch[d] or {None}
                    if outs != {("escaped-text", True)}:
                        bad.append(ch)
                rep.inst(f"{cl.key} every escape of the alphabet keeps its backslash", {"predicate": label,
                         "alphabet": "".join(sorted(ESCAPE_ALPHABET)).encode("unicode_escape").decode()}, cfg, ok=not bad)
                for ch in bad:
                    e = ch.encode("unicode_escape").decode()
                    rep.violation(f"stylua_lib::formatters::general::format_token escape-dropped={e}",
                                  f"the escape `\\{e}` is meaningful in a supported dialect but {label} sends it to a branch "
                                  f"that does not reproduce backslash + character: the string denotes a different value",
                                  loc, cfg)
                # escapes answered before (or without) the predicate - `if text == "\n" { .. }` - count as well
                early = {out for (qs, eqs, qt), out in rows.items() if qs is False and "<pred>" not in dict(eqs)}
                others = branch[True] | branch[False] | early
                ok = others <= {("text",), ("escaped-text", True)}
                rep.inst(f"{cl.key} other escapes become the character or backslash + character", None, cfg, ok=ok)
                if not ok:
                    rep.violation(f"{cl.key} escape-replacement outputs={sorted(map(str, others))}",
                                  "an escape is replaced by something other than the character itself or backslash + "
                                  "character", cl.loc(), cfg)
        # --- numbers: "0" prefix only under starts_with('.'), "-0" only under starts_with("-.")
        if True:
            ti = [i for i in range(1, ft.argc + 1) if ft.locals[i] == "&full_moon::tokenizer::Token"]
            tkey = None
            # the switched TokenType comes from token.token_type()
            try:
                res = Enumerator(ft, max_paths=30000,
                                 prune=lambda st, bi: any(isinstance(v, str) and v not in ("Number",) and k.startswith("call:") and "." not in k
                                                          and v in ("StringLiteral", "Shebang", "SingleLineComment", "MultiLineComment",
                                                                    "Whitespace", "InterpolatedString", "Eof", "Identifier", "Symbol")
                                                          for k, v in st.disc.items()) or
                                 any(isinstance(v, tuple) and "Number" in v[1] for k, v in st.disc.items())).run()
            except TooManyPaths:
                res = []
                rep.anchor(False, "format_token[Number]: too many paths", cfg)
            import symstr

            def is_text(fn_, term):
                return callee(term).endswith("Token::token_type")
            seen = set()
            for st in res:
                if not any(v == "Number" for v in st.disc.values()):
                    continue
                trail = set(st.trail)
                aggs = [(b_, s_) for b_, si_, s_ in ft.stmts() if b_ in trail and s_["k"] == "assign" and
                        s_["rv"]["k"] == "agg" and s_["rv"].get("variant") == "Number" and s_["rv"].get("adt", "").endswith("TokenType")]
                if not aggs:
                    continue      # `_ => token.token_type().to_owned()`-style: unchanged
                # what the path knows about how the text starts
                prefix = ""
                facts = []
                for cb, dec in st.decisions.items():
                    t = ft.blocks[cb]["term"]
                    if callee(t).split("::<")[0].endswith("<impl str>::starts_with") or callee(t).endswith("starts_with"):
                        lit = symstr._const_str(ft, t["args"][1])
                        facts.append((lit, dec))
                        if dec and lit is not None and len(lit) > len(prefix):
                            prefix = lit
                for k, v in st.disc.items():
                    if k.startswith("call:") and "." not in k and v == "Some":
                        t = ft.blocks[int(k.split(":")[1])]["term"]
                        if "strip_prefix" in callee(t):
                            lit = symstr._const_str(ft, t["args"][1])
                            facts.append((lit, True))
                            if lit is not None and len(lit) > len(prefix):
                                prefix = lit
                pieces = symstr.sym(ft, aggs[0][1]["rv"]["ops"][0], trail, is_text)
                norm = symstr.normalise(pieces, prefix) if pieces is not None else None
                if norm == "contradiction":
                    continue      # infeasible path (two incompatible prefix facts)
                if prefix.startswith("."):
                    allowed = {("0" + prefix, 0), (prefix, 0)}
                elif prefix.startswith("-."):
                    allowed = {("-0" + prefix[1:], 0), (prefix, 0)}
                else:
                    allowed = {(prefix, 0)}
                sig = (tuple(sorted((str(a_), b_) for a_, b_ in facts)), str(pieces))
                if sig in seen:
                    continue
                seen.add(sig)
                ok = norm in allowed
                rep.inst(f"{ft.key} number text when it starts with {prefix!r}: {pieces}", {"normalised": str(norm)}, cfg, ok=ok)
                if not ok:
                    what = "unrecognised-construction" if norm is None else f"result={norm[0]!r}+rest[{norm[1]}..]"
                    rep.violation(f"{ft.key} number-rewrite starts-with={prefix!r} {what}",
                                  f"a numeric literal known to start with {prefix!r} is rebuilt as {pieces} "
                                  f"({'construction not understood, fail closed' if norm is None else 'normalised: ' + repr(norm)}); "
                                  f"allowed: the text itself, or `0` inserted in front of a leading `.` / after a leading `-`: "
                                  f"the number denotes a different value", ft.loc(aggs[0][1]["sp"]), cfg)
            rep.floor("number rewriting rows", len(seen), 3, cfg)
            # --- string literal aggregates: depth preserved, bracket strings keep Brackets
            adt = prog.adt("full_moon::tokenizer::TokenType", "stylua_lib")
            names = [x["name"] for v in adt["variants"] if v["name"] == "StringLiteral" for x in v["fields"]]
            n = 0
            for b, si_, s in ft.stmts():
                if s["k"] == "assign" and s["rv"]["k"] == "agg" and s["rv"].get("variant") == "StringLiteral":
                    n += 1
                    ops = dict(zip(names, s["rv"]["ops"]))
                    ap = access_path(ft, ops["multi_line_depth"])
                    okd = ap[1][-2:] == (("v", "StringLiteral"), ("f", "multi_line_depth"))
                    q = ops["quote_type"]
                    brackets = guarded_by_variant(ft, b, "StringLiteralQuoteType", "Brackets")
                    if brackets:
                        okq = (is_const(q) and q.get("variant") == "Brackets") or \
                              any(r == ("agg", "full_moon::tokenizer::StringLiteralQuoteType::Brackets", rr) for r in provenance(ft, q, through=None) for rr in [r[2] if len(r) > 2 else None])
                        # literal: normalise CRLF -> LF first, then LF -> configured line ending, nothing else
                        okl = _newline_chain(ft, ops["literal"])
                    else:
                        okq = "formatters::general::get_quote_to_use" in prov_calls(provenance(ft, q, through=None))
                        calls = prov_calls(provenance(ft, ops["literal"], through=re.compile(
                            PROV_THROUGH.pattern + r"|Cow::<.*>::into_owned$|Cow<.*>::into_owned$|::into_owned$")))
                        okl = any(c.endswith("Regex::replace_all") for c in calls)
                    ok = okd and okq and bool(okl)
                    rep.inst(f"{ft.key} StringLiteral[{'Brackets' if brackets else 'quoted'}] fields", None, cfg, ok=ok)
                    if not ok:
                        rep.violation(f"{ft.key} string-literal-rebuild {'Brackets' if brackets else 'quoted'} depth={okd} quote={okq} literal={bool(okl)}",
                                      "a string literal token is rebuilt with a different bracket depth / quote type or a "
                                      "literal that did not come through the expected rewriting", ft.loc(s["sp"]), cfg)
            rep.floor("StringLiteral rebuild sites", n, 2, cfg)
            # --- interpolated string segments (Luau) are copied: `{`, backtick and every escape keep their spelling
            nv = 0
            vnames = [x["name"] for v in adt["variants"] if v["name"] == "InterpolatedString" for x in v["fields"]]
            for b, si_, s in ft.stmts():
                if s["k"] == "assign" and s["rv"]["k"] == "agg" and s["rv"].get("variant") == "InterpolatedString" \
                        and s["rv"].get("adt", "").endswith("TokenType"):
                    nv += 1
                    ops = dict(zip(vnames, s["rv"]["ops"]))
                    roots = provenance(ft, ops.get("literal"), into_aggs=False) if ops.get("literal") is not None else {("?",)}
                    okv = bool(roots) and all(r[0] == "call" and r[1].endswith("Token::token_type") or r[0] == "arg" for r in roots)
                    rep.inst(f"{ft.key} InterpolatedString literal is the input's", {"roots": sorted(str(r[:2]) for r in roots)}, cfg, ok=okv)
                    if not okv:
                        via = sorted({str(r[1]).split("::")[-1] for r in roots if not (r[0] == "call" and r[1].endswith("Token::token_type"))})
                        rep.violation(f"{ft.key} interpolated-literal-rewritten via={','.join(via)}",
                                      f"format_token rebuilds an InterpolatedString segment from {via} instead of copying the "
                                      f"input's literal: in a backtick string `\\{{` and the backtick escape are the only way to "
                                      f"write those characters, so dropping or changing an escape changes the string's value",
                                      ft.loc(s["sp"]), cfg)
            if "luau" in FEATURES.get(cfg, ()):
                rep.floor("InterpolatedString rebuild sites", nv, 1, cfg)
    return rep
